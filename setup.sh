#!/bin/sh
# Builds the framework offline from files on disk (run once after a fresh restore).
ROOT="$(cd "$(dirname "$0")" && pwd)"
export CARGO_NET_OFFLINE=true
set -e
cd "$ROOT/harness"
cargo build --release
mkdir -p "$ROOT/target"
CARGO_PROFILE_RELEASE_OVERFLOW_CHECKS=true CARGO_PROFILE_RELEASE_DEBUG_ASSERTIONS=true cargo build --release -p rspirv-dis --manifest-path /repo/Cargo.toml --target-dir "$ROOT/target/dis"
