#!/bin/sh
# Sensitivity self-test: applies each patch in mutants/ (or seeded/*/patch.diff) to /repo,
# runs the quick tier of the property named in the patch header, expects exit 1,
# and restores /repo afterwards. Usage: ./selftest_mutants.sh [pattern] ; env WITH_REPO_TESTS=1
# also runs the repository's own test suite on the mutant (it must still pass).
ROOT="$(cd "$(dirname "$0")" && pwd)"
PAT="${1:-}"
if [ -n "$(git -C /repo status --porcelain)" ]; then echo "/repo has uncommitted changes; refusing" >&2; exit 2; fi
res="$ROOT/target/mutant-results.txt"; mkdir -p "$ROOT/target"; : > "$res"
caught=0; missed=0
for f in "$ROOT"/mutants/*${PAT}*.diff "$ROOT"/seeded/*${PAT}*/patch.diff; do
  [ -f "$f" ] || continue
  prop="$(sed -n 's/^# property: //p' "$f" | head -1)"
  [ -n "$prop" ] || prop="$(python3 -c "import json,sys,os; print(json.load(open(os.path.join(os.path.dirname('$f'),'meta.json')))['property'])" 2>/dev/null)"
  name="$(basename "$(dirname "$f")")/$(basename "$f")"
  if ! git -C /repo apply "$f" 2>/dev/null; then echo "APPLY-FAILED $name" | tee -a "$res"; continue; fi
  tests="-"
  if [ -n "$WITH_REPO_TESTS" ]; then
    if (cd /repo && cargo test --workspace --offline >/dev/null 2>&1); then tests="repo-tests-pass"; else tests="REPO-TESTS-FAIL"; fi
  fi
  all=""
  for p in $prop; do
    out="$("$ROOT/check.sh" "$p" --tier quick 2>&1)"; r=$?
    sig="$(echo "$out" | grep -m1 'failure in' | sed 's/.*\[\(.*\)\].*/\1/' | cut -c1-90)"
    all="$all $p=$r[$sig]"
    last=$r
  done
  git -C /repo checkout -- . 
  if echo "$all" | grep -q "=1\["; then caught=$((caught+1)); echo "CAUGHT $name $tests$all" | tee -a "$res"; else missed=$((missed+1)); echo "MISSED $name $tests$all" | tee -a "$res"; fi
done
echo "caught=$caught missed=$missed" | tee -a "$res"
# leave /repo's harness build in the unmutated state
"$ROOT/check.sh" C19 --tier quick >/dev/null 2>&1
[ $missed -eq 0 ]
