#!/usr/bin/env python3
"""Regenerates MANIFEST.json from the table below."""
import json, subprocess
props = [json.loads(l) for l in open('/verif/properties.jsonl')]
ids = [p['id'] for p in props]
C = {
 "C01": ("differential round trip against reference parser R1 + layout model R2 over generated and mutated modules (proptest byte streams, shrinking) and a complete opcode/enumerant sweep", "5 (C01)"),
 "C02": ("grammar-directed instruction generation with encodings known by construction; assemble/parse round trip; complete sweep of opcodes, enumerants, mask bits, embedded opcodes + random plans (proptest)", "5 (C02)"),
 "C03": ("differential against an independent reference parser R1 over generated modules with stacked byte-level faults, exhaustive truncation positions and negative sweeps (proptest + enumeration)", "5 (C03)"),
 "C04": ("crash search: catch_unwind oracle over generated/mutated modules (byte-level faults and structural variations), pseudo-instructions, raw bytes, embedded-opcode enumeration and decoder scripts (proptest), process-level runs of the rspirv-dis binary on text files and structural variations, plus libFuzzer targets with ASan in the thorough tier", "5 (C04)"),
 "C05": ("model-based testing against the layout automaton R2: exhaustive words up to length 5/6 over the structural alphabet, every opcode in four contexts (also with an operand naming an imported set), random modules with structural faults, modules of up to 10^6 instructions", "5 (C05)"),
 "C06": ("stateful model-based testing of complete Builder histories through call sites generated from the working tree (syn), model R4, assemble/load round trip; per-method sweep of all 1153 emitting methods", "5 (C06)"),
 "C07": ("round trip through an independent text reader R6 + metamorphic neighbour check over generated typed modules", "5 (C07)"),
 "C08": ("exhaustive / boundary enumeration of number->value conversions against the golden snapshot (all 2^32 words per type in the thorough tier), names and aliases (the golden ones and every alias constant declared in the working tree's sources, read at build time)", "5 (C08)"),
 "C09": ("complete enumeration of all 65536 opcode numbers, table entries and extended-instruction numbers against the golden grammar + well-formedness predicate; generated lookup sequences (numbers related to the previous one, exclusive and concurrent runs) against the same oracle", "5 (C09)"),
 "C10": ("model-based histories of type declarations / typed values / literal consumers against the width model R3 (complete grid + proptest; histories of up to 10^6 declarations, chains, vocabulary prefixes), parse-independence metamorphic check", "5 (C10)"),
 "C11": ("stateful model-based testing of Decoder request scripts against model R5 (proptest, shrinking)", "5 (C11)"),
 "C12": ("stateful model-based testing of arbitrary Builder call histories against model R4 with observed selection and invariants after every call (proptest, shrinking); runs of 10^5 identical structural calls against the structural rule", "5 (C12)"),
 "C13": ("stateful model-based testing of id allocation and type deduplication against model R4; sweep of every type method, alone and with its id referenced by every decoration / name / typed declaration before the repeated request", "5 (C13)"),
 "C14": ("protocol conformance: scripted consumer answering stop/error at every callback position, callback log compared with the reference parser's event list", "5 (C14)"),
 "C15": ("generated dr::Module values (all present/absent combinations; content-rich modules holding a random half of all sweep instructions) compared with an own field-order traversal and the assembled words", "5 (C15)"),
 "C16": ("complete enumeration 787 opcodes x 12 predicates against hand-written three-valued specification lists; every block-level Builder method called with a block open in every builder state of a generated family (fresh, after rejected calls, pinned versions, aliased arguments, vocabulary preloads by covering codes)", "5 (C16)"),
 "C17": ("differential between reflection, parser and golden grammar over every parameterised enumerant / mask subset, under every header version and registered generator id and for every shorter parameter list; id rewriting and payload conversion round trips over every operand variant", "5 (C17)"),
 "C18": ("generated modules inside the supported subset; Debug-tree of the lifted module compared positionally with the data representation", "5 (C18)"),
 "C19": ("stateful model-based testing of Storage against a Vec model over three equality regimes, up to 1.4*10^5 stored values (proptest, shrinking)", "5 (C19)"),
 "C20": ("differential of the spawned rspirv-dis process against the in-process library over generated, mutated, structurally varied, textual and raw files", "5 (C20)"),
}
LEVEL_TEXT = {
 "C08": "Exploration, exhaustive in the thorough tier (all 2^32 words x 60 types); quick enumerates 0..2^17 and every boundary. Finite domain, so complete enumeration is the right level.",
 "C09": "Exploration, exhaustive: the 16-bit opcode space, every table entry and 2^17 extended-instruction numbers are enumerated completely in both tiers.",
 "C16": "Exploration, exhaustive: 787 opcodes x 12 predicates and every block-level Builder method are enumerated completely.",
}
DEFAULT_LEVEL = "Exploration: generated-input search against an explicit oracle with shrinking; finite sub-domains (sweeps) are enumerated completely in every run, the rest is sampled with measured class coverage. A universally quantified property over unbounded inputs cannot be settled by sampling; this gives falsification power, not proof."
NOTES = {
 "C01": "trusted: reference parser R1, layout model R2, golden grammar snapshot",
 "C02": "trusted: generator G-inst (encodings by construction), golden grammar snapshot",
 "C03": "trusted: reference parser R1, golden grammar snapshot; don't-care regions documented in DESIGN.md",
 "C04": "trusted: catch_unwind / ASan; termination by watchdog",
 "C05": "trusted: layout model R2 and the hand-written class lists (refclass.rs)",
 "C06": "trusted: builder model R4, generated call sites, golden grammar; one open known finding (F1)",
 "C07": "trusted: text reader R6, width model R3, golden names",
 "C08": "assumes the golden snapshot = materialisation of the pinned Khronos grammar (JSON not available offline); cross-checked by golden/verify.py",
 "C09": "same assumption as C08",
 "C10": "trusted: width model R3 inside R1",
 "C11": "trusted: decoder model R5",
 "C12": "trusted: builder model R4",
 "C13": "trusted: builder model R4",
 "C14": "trusted: reference parser R1 (event list)",
 "C15": "trusted: own traversal written from the field list",
 "C16": "trusted: refclass.rs lists typed from the specification",
 "C17": "trusted: golden parameter lists; Khronos parameter quantifiers not comparable offline",
 "C18": "trusted: Debug-syntax reader; pinned list of opcodes in the supported subset (golden/lift_subset.json)",
 "C19": "trusted: Vec model",
 "C20": "trusted: in-process library call as the reference text; OS process interface",
}
import os
built = set(os.environ.get("BUILT", "").split(",")) if os.environ.get("BUILT") else None
checks = []
na = []
for i in ids:
    if built is not None and i not in built:
        na.append({"property_id": i, "reason": "check under construction in this session (design in DESIGN.md section 5); will be claimed once its harness is committed"})
        continue
    tech, ref = C[i]
    checks.append({
        "property_id": i,
        "quick_cmd": f"./check.sh {i} --tier quick",
        "thorough_cmd": f"./check.sh {i} --tier thorough",
        "evidence_file": f"/verif/evidence/{i}.json",
        "replay_cmd_template": f"./check.sh {i} --replay {{path}}",
        "engine": "vharness",
        "level_claimed": {"category": "exploration", "text": LEVEL_TEXT.get(i, DEFAULT_LEVEL), "design_ref": "DESIGN.md section " + ref},
        "level_note": NOTES[i],
        "technique": "property-based testing: " + tech,
    })
m = {
 "version": 1,
 "setup_cmd": "cd /verif && ./setup.sh",
 "hooks": {
   "guard": "rspirv_verif",
   "enable": "no hooks are needed: every observation point is public API (guard declared, unused); checks build /repo's working tree as a cargo path dependency",
   "baseline_off_cmd": "cd /repo && cargo test --workspace --no-fail-fast --offline",
   "source_commits": [],
   "add_only": True
 },
 "engines": [
   {"name": "vharness", "path": "/verif/harness", "serves_properties": ids, "kind_free_text": "Rust crate: proptest-driven choice-stream generators with shrinking, exhaustive enumerations, reference models R1-R7, evidence writer; depends on /repo/rspirv and /repo/spirv by path"},
   {"name": "fuzz", "path": "/verif/fuzz", "serves_properties": ["C01","C03","C04","C11"], "kind_free_text": "cargo-fuzz / libFuzzer targets (ASan) calling the same oracles; run by the thorough tier of C04"}
 ],
 "checks": checks,
 "not_applicable": na,
 "notes": "All properties are decided by generated-input search against explicit oracles (see DESIGN.md). Genuine defects found were repaired by 'fix:' commits in /repo (known_findings.json lists them as fixed) except F1 (open known finding, C06)."
}
json.dump(m, open('/verif/MANIFEST.json', 'w'), indent=1)
print(len(checks), "checks,", len(na), "not yet claimed")
