#![no_main]
use libfuzzer_sys::fuzz_target;

fuzz_target!(|data: &[u8]| {
    vharness::fuzzing::run("decoder", data);
});
