//! Engine: stats, failures, known findings, drivers (proptest-based random
//! search with shrinking, exhaustive enumeration), replay files, evidence.

use proptest::strategy::Strategy;
use proptest::test_runner::{Config, RngAlgorithm, RngSeed, TestCaseError, TestError, TestRunner};
use serde_json::{json, Value};
use std::cell::RefCell;
use std::collections::{BTreeMap, BTreeSet, HashSet};
use std::panic::{self, AssertUnwindSafe};
use std::path::PathBuf;
use std::sync::atomic::{AtomicBool, Ordering};
use std::sync::Mutex;
use std::time::Instant;

// ---------------------------------------------------------------------------
// Failures

#[derive(Clone, Debug)]
pub struct Fail {
    /// Which clause of the property's oracle was contradicted.
    pub clause: String,
    /// Discriminator: what distinguishes this root cause (opcode, kind, panic site ...).
    pub disc: String,
    /// Human-readable explanation.
    pub msg: String,
    /// Decoded rendering of the failing case.
    pub decoded: String,
}

impl Fail {
    pub fn new(clause: &str, disc: impl Into<String>, msg: impl Into<String>) -> Fail {
        Fail {
            clause: clause.to_string(),
            disc: disc.into(),
            msg: msg.into(),
            decoded: String::new(),
        }
    }
    pub fn with_decoded(mut self, d: impl Into<String>) -> Fail {
        self.decoded = d.into();
        self
    }
    pub fn signature(&self) -> String {
        format!("{}|{}", self.clause, self.disc)
    }
}

pub type R = Result<(), Fail>;

#[macro_export]
macro_rules! ensure {
    ($cond:expr, $clause:expr, $disc:expr, $($fmt:tt)+) => {
        if !($cond) {
            return Err($crate::engine::Fail::new($clause, $disc, format!($($fmt)+)));
        }
    };
}

// ---------------------------------------------------------------------------
// Panic capture

thread_local! {
    static LAST_PANIC: RefCell<Option<(String, String)>> = RefCell::new(None);
    static QUIET: RefCell<bool> = RefCell::new(false);
}

pub fn install_panic_hook() {
    let default = panic::take_hook();
    panic::set_hook(Box::new(move |info| {
        let msg = if let Some(s) = info.payload().downcast_ref::<&str>() {
            s.to_string()
        } else if let Some(s) = info.payload().downcast_ref::<String>() {
            s.clone()
        } else {
            "<non-string panic>".to_string()
        };
        let loc = info
            .location()
            .map(|l| l.file().to_string())
            .unwrap_or_default();
        let quiet = QUIET.with(|q| *q.borrow());
        LAST_PANIC.with(|p| *p.borrow_mut() = Some((msg, loc)));
        if !quiet {
            default(info);
        }
    }));
}

/// Strip line numbers / variable numbers from a panic message so that the
/// signature identifies the root cause, not the particular input.
pub fn normalise_panic(msg: &str) -> String {
    let mut out = String::new();
    let mut last_digit = false;
    for c in msg.chars() {
        if c.is_ascii_digit() {
            if !last_digit {
                out.push('#');
            }
            last_digit = true;
        } else {
            last_digit = false;
            out.push(c);
        }
    }
    if out.len() > 120 {
        let mut end = 120;
        while !out.is_char_boundary(end) {
            end -= 1;
        }
        out.truncate(end);
    }
    out
}

/// Runs `f`, converting a panic into `Err((message, file))`.
pub fn catch<T>(f: impl FnOnce() -> T) -> Result<T, (String, String)> {
    QUIET.with(|q| *q.borrow_mut() = true);
    LAST_PANIC.with(|p| *p.borrow_mut() = None);
    let r = panic::catch_unwind(AssertUnwindSafe(f));
    QUIET.with(|q| *q.borrow_mut() = false);
    match r {
        Ok(v) => Ok(v),
        Err(_) => {
            let (m, l) = LAST_PANIC
                .with(|p| p.borrow_mut().take())
                .unwrap_or_else(|| ("<unknown panic>".into(), String::new()));
            // keep only the path inside the repository
            let l = match l.find("rspirv/") {
                Some(i) => l[i..].to_string(),
                None => l,
            };
            Err((m, l))
        }
    }
}

/// catch + convert into a Fail with clause `panic`.
pub fn no_panic<T>(what: &str, f: impl FnOnce() -> T) -> Result<T, Fail> {
    catch(f).map_err(|(m, l)| {
        Fail::new(
            "panic",
            format!("{}@{}:{}", what, l, normalise_panic(&m)),
            format!("{} panicked at {}: {}", what, l, m),
        )
    })
}

// ---------------------------------------------------------------------------
// Stats

#[derive(Default, Clone)]
pub struct Stats {
    pub evaluations: u64,
    pub nontrivial: HashSet<u64>,
    pub counters: BTreeMap<String, u64>,
    pub sets: BTreeMap<String, BTreeSet<String>>,
    pub samples: Vec<String>,
    pub excluded_known: BTreeMap<String, (u64, String)>,
    pub sample_cap: usize,
}

impl Stats {
    pub fn new() -> Stats {
        Stats {
            sample_cap: 4,
            ..Default::default()
        }
    }
    pub fn count(&mut self, k: &str) {
        *self.counters.entry(k.to_string()).or_insert(0) += 1;
    }
    pub fn add(&mut self, k: &str, n: u64) {
        *self.counters.entry(k.to_string()).or_insert(0) += n;
    }
    pub fn set_insert(&mut self, set: &str, v: impl Into<String>) {
        self.sets.entry(set.to_string()).or_default().insert(v.into());
    }
    /// Records a non-trivial case by its canonical hash.
    pub fn nontrivial(&mut self, h: u64) {
        // memory bound for very long runs: beyond the cap the count is a lower bound
        if self.nontrivial.len() < 3_000_000 {
            self.nontrivial.insert(h);
        } else {
            *self.counters.entry("nontrivial_beyond_distinct_cap".to_string()).or_insert(0) += 1;
        }
    }
    pub fn want_sample(&self) -> bool {
        self.samples.len() < self.sample_cap
    }
    pub fn sample(&mut self, s: impl FnOnce() -> String) {
        if self.samples.len() < self.sample_cap {
            let mut t = s();
            if t.len() > 1500 {
                let mut end = 1500;
                while !t.is_char_boundary(end) {
                    end -= 1;
                }
                t.truncate(end);
                t.push_str(" ...");
            }
            self.samples.push(t);
        }
    }
    pub fn merge(&mut self, o: Stats) {
        self.evaluations += o.evaluations;
        self.nontrivial.extend(o.nontrivial);
        for (k, v) in o.counters {
            *self.counters.entry(k).or_insert(0) += v;
        }
        for (k, v) in o.sets {
            self.sets.entry(k).or_default().extend(v);
        }
        for s in o.samples {
            if self.samples.len() < 6 {
                self.samples.push(s);
            }
        }
        for (k, (n, ex)) in o.excluded_known {
            let e = self.excluded_known.entry(k).or_insert((0, ex));
            e.0 += n;
        }
    }
}

/// truncates a string at a char boundary
pub fn clip(s: &mut String, max: usize) {
    if s.len() > max {
        let mut end = max;
        while !s.is_char_boundary(end) {
            end -= 1;
        }
        s.truncate(end);
    }
}

pub fn hash64(bytes: &[u8]) -> u64 {
    // FNV-1a 64
    let mut h: u64 = 0xcbf29ce484222325;
    for b in bytes {
        h ^= *b as u64;
        h = h.wrapping_mul(0x100000001b3);
    }
    h
}
pub fn hash_words(ws: &[u32]) -> u64 {
    let mut h: u64 = 0xcbf29ce484222325;
    for w in ws {
        for b in w.to_le_bytes() {
            h ^= b as u64;
            h = h.wrapping_mul(0x100000001b3);
        }
    }
    h
}
pub fn hash_str(s: &str) -> u64 {
    hash64(s.as_bytes())
}

// ---------------------------------------------------------------------------
// Sub-checks and context

pub type SubFn = fn(&[u8], &mut Stats) -> R;

#[derive(Clone, Copy)]
pub struct Sub {
    pub name: &'static str,
    pub f: SubFn,
}

#[derive(Clone, Debug)]
pub struct KnownFinding {
    pub property: String,
    pub signature: String,
    pub status: String, // "open" | "fixed"
    pub what: String,
    pub commit: String,
}

pub struct Ctx {
    pub property: String,
    pub tier: String,
    pub seed: u64,
    pub threads: usize,
    pub root: PathBuf,
    pub known: Vec<KnownFinding>,
    pub start: Instant,
    pub total: Mutex<Stats>,
    pub per_sub: Mutex<BTreeMap<String, Value>>,
    pub violations: Mutex<Vec<(String, Fail, PathBuf)>>,
    pub exhaustive: AtomicBool,
    pub notes: Mutex<Vec<String>>,
}

pub fn verif_root() -> PathBuf {
    if let Ok(r) = std::env::var("VERIF_ROOT") {
        return PathBuf::from(r);
    }
    let p = PathBuf::from(env!("CARGO_MANIFEST_DIR"));
    p.parent().map(|p| p.to_path_buf()).unwrap_or(p)
}

impl Ctx {
    pub fn new(property: &str, tier: &str) -> Ctx {
        let seed = std::env::var("VERIF_SEED")
            .ok()
            .and_then(|s| s.trim().parse::<i128>().ok())
            .map(|v| v as u64)
            .unwrap_or(0);
        let threads = std::env::var("VERIF_THREADS")
            .ok()
            .and_then(|s| s.parse::<usize>().ok())
            .unwrap_or_else(|| {
                std::thread::available_parallelism()
                    .map(|n| n.get())
                    .unwrap_or(4)
                    .min(16)
            })
            .max(1);
        let root = verif_root();
        let known = load_known(&root, property);
        Ctx {
            property: property.to_string(),
            tier: tier.to_string(),
            seed,
            threads,
            root,
            known,
            start: Instant::now(),
            total: Mutex::new(Stats::new()),
            per_sub: Mutex::new(BTreeMap::new()),
            violations: Mutex::new(vec![]),
            exhaustive: AtomicBool::new(false),
            notes: Mutex::new(vec![]),
        }
    }
    pub fn quick(&self) -> bool {
        self.tier != "thorough"
    }
    /// pick a budget by tier
    pub fn n(&self, quick: u64, thorough: u64) -> u64 {
        let scale = std::env::var("VERIF_SCALE")
            .ok()
            .and_then(|s| s.parse::<f64>().ok())
            .unwrap_or(1.0);
        // quick budgets in the check modules are base units; the quick tier runs 8 units
        // (fixed work, seconds to tens of seconds per property on 16 cores)
        let b = if self.quick() { quick.saturating_mul(8).min(thorough.max(quick)) } else { thorough };
        ((b as f64) * scale).ceil() as u64
    }
    pub fn is_open_known(&self, sig: &str) -> bool {
        self.known
            .iter()
            .any(|k| k.status == "open" && k.signature == sig)
    }
    pub fn note(&self, s: impl Into<String>) {
        self.notes.lock().unwrap().push(s.into());
    }
    pub fn failed(&self) -> bool {
        !self.violations.lock().unwrap().is_empty()
    }
}

fn load_known(root: &PathBuf, property: &str) -> Vec<KnownFinding> {
    let p = root.join("known_findings.json");
    let Ok(txt) = std::fs::read_to_string(&p) else {
        return vec![];
    };
    let Ok(v) = serde_json::from_str::<Value>(&txt) else {
        eprintln!("cannot parse {}", p.display());
        std::process::exit(2);
    };
    let mut out = vec![];
    if let Some(arr) = v.get("findings").and_then(|a| a.as_array()) {
        for e in arr {
            let g = |k: &str| e.get(k).and_then(|x| x.as_str()).unwrap_or("").to_string();
            let props: Vec<String> = match e.get("properties").and_then(|x| x.as_array()) {
                Some(a) => a
                    .iter()
                    .filter_map(|x| x.as_str().map(|s| s.to_string()))
                    .collect(),
                None => vec![g("property")],
            };
            if props.iter().any(|p| p == property) {
                for sig in e
                    .get("signatures")
                    .and_then(|x| x.as_array())
                    .cloned()
                    .unwrap_or_default()
                {
                    out.push(KnownFinding {
                        property: property.to_string(),
                        signature: sig.as_str().unwrap_or("").to_string(),
                        status: g("status"),
                        what: g("what"),
                        commit: g("commit"),
                    });
                }
            }
        }
    }
    out
}

fn hex(b: &[u8]) -> String {
    let mut s = String::with_capacity(b.len() * 2);
    for x in b {
        s.push_str(&format!("{:02x}", x));
    }
    s
}
pub fn unhex(s: &str) -> Vec<u8> {
    let s: Vec<u8> = s.bytes().filter(|c| c.is_ascii_hexdigit()).collect();
    s.chunks(2)
        .filter(|c| c.len() == 2)
        .map(|c| u8::from_str_radix(std::str::from_utf8(c).unwrap(), 16).unwrap())
        .collect()
}

/// Writes a replay file and registers the violation (or the known finding).
pub fn report(ctx: &Ctx, sub: &Sub, input: &[u8], fail: &Fail) {
    let sig = fail.signature();
    let dir = ctx.root.join("replays").join("found").join(&ctx.property);
    let _ = std::fs::create_dir_all(&dir);
    let fname = format!("{}-{:016x}.json", sub.name, hash_str(&sig) ^ hash64(input));
    let path = dir.join(fname);
    let v = json!({
        "property": ctx.property,
        "sub": sub.name,
        "input_hex": hex(input),
        "signature": sig,
        "clause": fail.clause,
        "message": fail.msg,
        "decoded": fail.decoded,
        "seed": ctx.seed,
        "tier": ctx.tier,
    });
    let _ = std::fs::write(&path, serde_json::to_string_pretty(&v).unwrap());
    let mut shown = fail.msg.clone();
    if shown.len() > 1500 {
        clip(&mut shown, 1500);
        shown.push_str(" ... (full text in the replay file)");
    }
    println!("  failure in {}: [{}] {}", sub.name, sig, shown);
    if !fail.decoded.is_empty() {
        for l in fail.decoded.lines().take(40) {
            let mut l = l.to_string();
            if l.len() > 400 {
                clip(&mut l, 400);
                l.push_str(" ...");
            }
            println!("    | {}", l);
        }
    }
    ctx.violations
        .lock()
        .unwrap()
        .push((sub.name.to_string(), fail.clone(), path));
}

// ---------------------------------------------------------------------------
// Drivers

fn sub_seed(ctx: &Ctx, sub: &Sub, shard: usize) -> u64 {
    ctx.seed
        .wrapping_mul(0x9E37_79B9_7F4A_7C15)
        .wrapping_add(hash_str(sub.name))
        .wrapping_add((shard as u64).wrapping_mul(0xD1B5_4A32_D192_ED03))
}

fn run_one(ctx: &Ctx, sub: &Sub, input: &[u8], st: &mut Stats) -> R {
    st.evaluations += 1;
    crate::model::set_ambient_generator_for(input);
    let r = match catch(|| (sub.f)(input, st)) {
        Ok(r) => r,
        Err((m, l)) => Err(Fail::new(
            "harness-or-unguarded-panic",
            format!("{}:{}", l, normalise_panic(&m)),
            format!("panic outside a guarded call at {}: {}", l, m),
        )),
    };
    match r {
        Ok(()) => Ok(()),
        Err(f) => {
            let sig = f.signature();
            if ctx.is_open_known(&sig) {
                let e = st
                    .excluded_known
                    .entry(sig)
                    .or_insert((0, f.msg.clone()));
                e.0 += 1;
                Ok(())
            } else {
                Err(f)
            }
        }
    }
}

fn record_sub(ctx: &Ctx, sub: &Sub, st: &Stats, mode: &str, extra: Value) {
    let mut m = ctx.per_sub.lock().unwrap();
    let e = m.entry(sub.name.to_string()).or_insert(json!({
        "evaluations": 0u64, "distinct_nontrivial": 0u64, "mode": mode
    }));
    e["evaluations"] = json!(e["evaluations"].as_u64().unwrap_or(0) + st.evaluations);
    e["distinct_nontrivial"] =
        json!(e["distinct_nontrivial"].as_u64().unwrap_or(0) + st.nontrivial.len() as u64);
    if let Some(o) = extra.as_object() {
        for (k, v) in o {
            e[k] = v.clone();
        }
    }
}

/// Random search: proptest generates (and shrinks) a byte stream per case.
pub fn drive_random(ctx: &Ctx, sub: &Sub, cases: u64, max_len: usize) {
    drive_random_with(ctx, sub, cases, max_len, 20_000)
}

/// `drive_random` for sub-checks whose single case costs tens of milliseconds (modules of 10^5
/// instructions, histories of 10^5 calls): the same search, shrinking bounded to a few dozen steps.
pub fn drive_random_costly(ctx: &Ctx, sub: &Sub, cases: u64, max_len: usize) {
    drive_random_with(ctx, sub, cases, max_len, 48)
}

pub fn drive_random_with(ctx: &Ctx, sub: &Sub, cases: u64, max_len: usize, shrink_iters: u32) {
    if cases == 0 {
        return;
    }
    let t0 = Instant::now();
    let threads = ctx.threads.min(cases as usize).max(1);
    let per = cases / threads as u64;
    let extra = cases % threads as u64;
    let stop = AtomicBool::new(false);
    let results: Vec<(Stats, Option<(Vec<u8>, Fail)>)> = std::thread::scope(|s| {
        let handles: Vec<_> = (0..threads)
            .map(|i| {
                let stop = &stop;
                s.spawn(move || {
                    let n = per + if (i as u64) < extra { 1 } else { 0 };
                    let mut cfg = Config::default();
                    cfg.cases = n as u32;
                    cfg.failure_persistence = None;
                    cfg.rng_seed = RngSeed::Fixed(sub_seed(ctx, sub, i));
                    cfg.rng_algorithm = RngAlgorithm::ChaCha;
                    cfg.max_shrink_iters = shrink_iters;
                    cfg.max_shrink_time = 0;
                    cfg.verbose = 0;
                    cfg.max_global_rejects = 0;
                    cfg.source_file = None;
                    let mut runner = TestRunner::new(cfg);
                    let stats = RefCell::new(Stats::new());
                    let first: RefCell<Option<Fail>> = RefCell::new(None);
                    // sizes: mostly up to max_len, with a bias towards shorter streams
                    let strat = (0usize..4).prop_flat_map(move |k| {
                        let m = match k {
                            0 => (max_len / 8).max(2),
                            1 => (max_len / 2).max(2),
                            _ => max_len.max(2),
                        };
                        proptest::collection::vec(proptest::num::u8::ANY, 0..m)
                    });
                    let res = runner.run(&strat, |bytes| {
                        let shrinking = first.borrow().is_some();
                        if shrinking {
                            let mut scratch = Stats::new();
                            return match run_one(ctx, sub, &bytes, &mut scratch) {
                                Err(f)
                                    if f.signature()
                                        == first.borrow().as_ref().unwrap().signature() =>
                                {
                                    Err(TestCaseError::fail(f.signature()))
                                }
                                _ => Ok(()),
                            };
                        }
                        if stop.load(Ordering::Relaxed) {
                            return Ok(());
                        }
                        let mut st = stats.borrow_mut();
                        match run_one(ctx, sub, &bytes, &mut st) {
                            Ok(()) => Ok(()),
                            Err(f) => {
                                stop.store(true, Ordering::Relaxed);
                                let sig = f.signature();
                                *first.borrow_mut() = Some(f);
                                Err(TestCaseError::fail(sig))
                            }
                        }
                    });
                    let fail = match res {
                        Ok(()) => None,
                        Err(TestError::Fail(_, minimal)) => {
                            let mut scratch = Stats::new();
                            let f = match run_one(ctx, sub, &minimal, &mut scratch) {
                                Err(f) => f,
                                Ok(()) => first.borrow().clone().unwrap(),
                            };
                            Some((minimal, f))
                        }
                        Err(TestError::Abort(r)) => {
                            eprintln!("proptest aborted in {}: {}", sub.name, r);
                            std::process::exit(2);
                        }
                    };
                    (stats.into_inner(), fail)
                })
            })
            .collect();
        handles.into_iter().map(|h| h.join().unwrap()).collect()
    });
    let mut merged = Stats::new();
    let mut reported = BTreeSet::new();
    for (st, fail) in results {
        merged.merge(st);
        if let Some((input, f)) = fail {
            if reported.insert(f.signature()) {
                report(ctx, sub, &input, &f);
            }
        }
    }
    record_sub(
        ctx,
        sub,
        &merged,
        "random (proptest byte-stream, shrinking)",
        json!({"max_stream_len": max_len, "wall_s": t0.elapsed().as_secs_f64()}),
    );
    println!(
        "  {:<28} random  cases={:<9} nontrivial={:<8} {:.1}s",
        sub.name,
        merged.evaluations,
        merged.nontrivial.len(),
        t0.elapsed().as_secs_f64()
    );
    ctx.total.lock().unwrap().merge(merged);
}

/// Exhaustive enumeration: input = index as 8 LE bytes, for index in 0..n.
pub fn drive_enum(ctx: &Ctx, sub: &Sub, n: u64) {
    drive_enum_range(ctx, sub, 0, n)
}

pub fn drive_enum_range(ctx: &Ctx, sub: &Sub, lo: u64, hi: u64) {
    if hi <= lo {
        return;
    }
    let t0 = Instant::now();
    let n = hi - lo;
    let threads = ctx.threads.min(n as usize).max(1);
    let stop = AtomicBool::new(false);
    let chunk = (n + threads as u64 - 1) / threads as u64;
    let results: Vec<(Stats, Option<(Vec<u8>, Fail)>)> = std::thread::scope(|s| {
        let handles: Vec<_> = (0..threads)
            .map(|i| {
                let stop = &stop;
                s.spawn(move || {
                    let mut st = Stats::new();
                    let a = lo + chunk * i as u64;
                    let b = (a + chunk).min(hi);
                    let mut fail = None;
                    let mut k = a;
                    while k < b {
                        if stop.load(Ordering::Relaxed) {
                            break;
                        }
                        let input = k.to_le_bytes();
                        if let Err(f) = run_one(ctx, sub, &input, &mut st) {
                            stop.store(true, Ordering::Relaxed);
                            fail = Some((input.to_vec(), f));
                            break;
                        }
                        k += 1;
                    }
                    (st, fail)
                })
            })
            .collect();
        handles.into_iter().map(|h| h.join().unwrap()).collect()
    });
    let mut merged = Stats::new();
    let mut reported = BTreeSet::new();
    for (st, fail) in results {
        merged.merge(st);
        if let Some((input, f)) = fail {
            if reported.insert(f.signature()) {
                report(ctx, sub, &input, &f);
            }
        }
    }
    record_sub(
        ctx,
        sub,
        &merged,
        "enumeration (index)",
        json!({"range": [lo, hi], "wall_s": t0.elapsed().as_secs_f64()}),
    );
    println!(
        "  {:<28} enum    cases={:<9} nontrivial={:<8} {:.1}s",
        sub.name,
        merged.evaluations,
        merged.nontrivial.len(),
        t0.elapsed().as_secs_f64()
    );
    ctx.total.lock().unwrap().merge(merged);
}

pub fn idx(input: &[u8]) -> u64 {
    let mut b = [0u8; 8];
    let n = input.len().min(8);
    b[..n].copy_from_slice(&input[..n]);
    u64::from_le_bytes(b)
}

/// Runs a list of explicit inputs (regression replays, corpus files).
pub fn drive_inputs(ctx: &Ctx, sub: &Sub, inputs: &[Vec<u8>], label: &str) {
    if inputs.is_empty() {
        return;
    }
    let t0 = Instant::now();
    let mut st = Stats::new();
    for inp in inputs {
        if let Err(f) = run_one(ctx, sub, inp, &mut st) {
            report(ctx, sub, inp, &f);
            break;
        }
    }
    record_sub(
        ctx,
        sub,
        &st,
        label,
        json!({"wall_s": t0.elapsed().as_secs_f64()}),
    );
    println!(
        "  {:<28} {:<7} cases={:<9} nontrivial={:<8} {:.1}s",
        sub.name,
        label,
        st.evaluations,
        st.nontrivial.len(),
        t0.elapsed().as_secs_f64()
    );
    ctx.total.lock().unwrap().merge(st);
}

// ---------------------------------------------------------------------------
// Replay

pub fn replay_file(ctx: &Ctx, subs: &[Sub], path: &str) -> i32 {
    let txt = match std::fs::read_to_string(path) {
        Ok(t) => t,
        Err(e) => {
            eprintln!("cannot read {}: {}", path, e);
            return 2;
        }
    };
    let v: Value = match serde_json::from_str(&txt) {
        Ok(v) => v,
        Err(e) => {
            eprintln!("cannot parse {}: {}", path, e);
            return 2;
        }
    };
    let subname = v["sub"].as_str().unwrap_or("");
    let input = unhex(v["input_hex"].as_str().unwrap_or(""));
    let Some(sub) = subs.iter().find(|s| s.name == subname) else {
        eprintln!("unknown sub-check {:?} for {}", subname, ctx.property);
        return 2;
    };
    let mut st = Stats::new();
    st.evaluations += 1;
    let r = match catch(|| (sub.f)(&input, &mut st)) {
        Ok(r) => r,
        Err((m, l)) => Err(Fail::new(
            "harness-or-unguarded-panic",
            format!("{}:{}", l, normalise_panic(&m)),
            format!("panic at {}: {}", l, m),
        )),
    };
    match r {
        Ok(()) => {
            println!("replay {}: property held", path);
            0
        }
        Err(f) => {
            println!("replay {}: [{}] {}", path, f.signature(), f.msg);
            for l in f.decoded.lines().take(60) {
                println!("    | {}", l);
            }
            if ctx.is_open_known(&f.signature()) {
                println!(
                    "KNOWN-FINDING: property={} {}",
                    ctx.property,
                    f.signature()
                );
                0
            } else {
                println!("VIOLATION property={} replay={}", ctx.property, path);
                1
            }
        }
    }
}

/// Runs every committed regression replay for this property (strict: the
/// property must hold, or the signature must be an open known finding).
pub fn run_regress(ctx: &Ctx, subs: &[Sub]) {
    let dir = ctx.root.join("replays").join("regress").join(&ctx.property);
    let Ok(rd) = std::fs::read_dir(&dir) else {
        return;
    };
    let mut files: Vec<PathBuf> = rd.filter_map(|e| e.ok().map(|e| e.path())).collect();
    files.sort();
    let mut n = 0;
    for p in files {
        if p.extension().and_then(|e| e.to_str()) != Some("json") {
            continue;
        }
        let Ok(txt) = std::fs::read_to_string(&p) else { continue };
        let Ok(v) = serde_json::from_str::<Value>(&txt) else { continue };
        let subname = v["sub"].as_str().unwrap_or("");
        let Some(sub) = subs.iter().find(|s| s.name == subname) else {
            eprintln!("regress file {} names unknown sub {}", p.display(), subname);
            continue;
        };
        let input = unhex(v["input_hex"].as_str().unwrap_or(""));
        let mut st = Stats::new();
        n += 1;
        if let Err(f) = run_one(ctx, sub, &input, &mut st) {
            println!("  regression replay {} fails", p.display());
            report(ctx, sub, &input, &f);
        }
        let mut tot = ctx.total.lock().unwrap();
        tot.add("regress_replays", 1);
        tot.evaluations += 1;
        for (k, v) in st.excluded_known {
            let e = tot.excluded_known.entry(k).or_insert((0, v.1));
            e.0 += v.0;
        }
    }
    if n > 0 {
        println!("  regression replays: {}", n);
    }
}

// ---------------------------------------------------------------------------
// Evidence + exit

pub struct Finish<'a> {
    pub rule: &'a str,
    pub assumptions: Vec<String>,
    pub trusted_base: Vec<String>,
}

pub fn finish(ctx: &Ctx, fin: Finish) -> i32 {
    let total = ctx.total.lock().unwrap().clone();
    let violations = ctx.violations.lock().unwrap();
    let wall = ctx.start.elapsed().as_secs_f64();
    let mut counters = serde_json::Map::new();
    for (k, v) in &total.counters {
        counters.insert(k.clone(), json!(v));
    }
    let mut sets = serde_json::Map::new();
    for (k, v) in &total.sets {
        let items: Vec<&String> = v.iter().collect();
        if items.len() <= 40 {
            sets.insert(k.clone(), json!({"count": items.len(), "items": items}));
        } else {
            sets.insert(
                k.clone(),
                json!({"count": items.len(), "first_items": items[..40].to_vec()}),
            );
        }
    }
    let mut excl = serde_json::Map::new();
    for (k, (n, ex)) in &total.excluded_known {
        excl.insert(k.clone(), json!({"count": n, "example": ex}));
    }
    let samples: Vec<Value> = if total.samples.is_empty() {
        vec![json!("(no sample recorded)")]
    } else {
        total.samples.iter().map(|s| json!(s)).collect()
    };
    let per_sub = ctx.per_sub.lock().unwrap().clone();
    let ev = json!({
        "property_id": ctx.property,
        "tier": if ctx.quick() { "quick" } else { "thorough" },
        "seed": (ctx.seed & 0x7fff_ffff_ffff_ffff) as i64,
        "level": "exploration",
        "coverage": {
            "evaluations": total.evaluations,
            "distinct_nontrivial": total.nontrivial.len(),
            "rule": fin.rule,
            "samples": samples,
            "exhaustive": ctx.exhaustive.load(Ordering::Relaxed),
            "counters": counters,
            "classes": sets,
            "sub_checks": per_sub,
            "excluded_known": excl,
            "trusted_base": fin.trusted_base,
            "notes": *ctx.notes.lock().unwrap(),
            "threads": ctx.threads,
        },
        "assumptions": fin.assumptions,
        "wall_s": wall,
        "violations": violations.len(),
    });
    let evdir = ctx.root.join("evidence");
    let _ = std::fs::create_dir_all(&evdir);
    let evpath = evdir.join(format!("{}.json", ctx.property));
    if let Err(e) = std::fs::write(&evpath, serde_json::to_string_pretty(&ev).unwrap()) {
        eprintln!("cannot write evidence {}: {}", evpath.display(), e);
        return 2;
    }
    // known findings: every open one is announced
    let mut announced = BTreeSet::new();
    for k in &ctx.known {
        if k.status == "open" && announced.insert(k.what.clone()) {
            let n: u64 = ctx
                .known
                .iter()
                .filter(|x| x.what == k.what)
                .map(|x| total.excluded_known.get(&x.signature).map(|e| e.0).unwrap_or(0))
                .sum();
            println!(
                "KNOWN-FINDING: property={} {} (met {} times in this run)",
                ctx.property, k.what, n
            );
        }
    }
    println!(
        "{} {}: evaluations={} distinct_nontrivial={} wall={:.1}s violations={}",
        ctx.property,
        ctx.tier,
        total.evaluations,
        total.nontrivial.len(),
        wall,
        violations.len()
    );
    if violations.is_empty() {
        0
    } else {
        for (_, _, path) in violations.iter() {
            println!(
                "VIOLATION property={} replay={}",
                ctx.property,
                path.display()
            );
        }
        1
    }
}
