//! Entry points shared by the libFuzzer targets (/verif/fuzz) and the replay
//! sub-checks named `fuzz-<target>`: the same oracles as the property checks.
//! A failure panics (libFuzzer stores the input as an artifact); open known
//! findings are tolerated so that campaigns do not rediscover them forever.

use crate::checks;
use crate::engine::*;
use std::sync::OnceLock;

fn known() -> &'static Vec<String> {
    static K: OnceLock<Vec<String>> = OnceLock::new();
    K.get_or_init(|| {
        let mut v = vec![];
        for p in ["C01", "C03", "C04", "C05", "C06", "C07", "C11", "C12", "C13", "C14"] {
            let ctx = Ctx::new(p, "quick");
            for k in &ctx.known {
                if k.status == "open" {
                    v.push(k.signature.clone());
                }
            }
        }
        v
    })
}

/// (property, result) pairs of every oracle applicable to this target's input
pub fn oracles(target: &str, data: &[u8]) -> Vec<(&'static str, R)> {
    let mut st = Stats::new();
    let none = || String::new();
    match target {
        "bytes" => vec![
            ("C04", checks::c04::exercise(data, &mut st, &none)),
            ("C03", checks::c03::check_bytes(data, &mut st, &none).map(|_| ())),
            ("C01", checks::c01::check_bytes(data, &mut st, &none)),
        ],
        "modules" => {
            // the stream is decoded exactly as the `modules` sub-checks do
            let f = |subs: &[Sub], name: &str| -> R {
                let s = subs.iter().find(|s| s.name == name).unwrap();
                (s.f)(data, &mut Stats::new())
            };
            vec![
                ("C03", f(checks::c03::SUBS, "modules")),
                ("C04", f(checks::c04::SUBS, "modules")),
                ("C01", f(checks::c01::SUBS, "modules")),
                ("C07", f(checks::c07::SUBS, "modules")),
                ("C14", f(checks::c14::SUBS, "random-positions")),
                ("C05", f(checks::c05::SUBS, "modules")),
            ]
        }
        "decoder" => {
            let s = checks::c11::SUBS.iter().find(|s| s.name == "scripts").unwrap();
            vec![("C11", (s.f)(data, &mut st))]
        }
        "builder" => {
            let a = checks::builder::C12_SUBS.iter().find(|s| s.name == "histories").unwrap();
            let b = checks::builder::C06_SUBS.iter().find(|s| s.name == "histories").unwrap();
            let c = checks::builder::C06_SUBS.iter().find(|s| s.name == "parked-histories").unwrap();
            let d = checks::builder::C13_SUBS.iter().find(|s| s.name == "histories").unwrap();
            vec![
                ("C12", (a.f)(data, &mut st)),
                ("C06", (b.f)(data, &mut Stats::new()).and_then(|_| (c.f)(data, &mut Stats::new()))),
                ("C13", (d.f)(data, &mut Stats::new())),
            ]
        }
        _ => vec![],
    }
}

pub fn run(target: &str, data: &[u8]) {
    static HOOK: OnceLock<()> = OnceLock::new();
    HOOK.get_or_init(install_panic_hook);
    for (prop, r) in oracles(target, data) {
        if let Err(f) = r {
            if known().contains(&f.signature()) {
                continue;
            }
            eprintln!("VIOLATION-CANDIDATE property={} [{}] {}", prop, f.signature(), f.msg);
            panic!("property {} violated: {}", prop, f.signature());
        }
    }
}

/// replay sub-check body for artifacts of a fuzz target, restricted to one property
pub fn replay(target: &str, prop: &str, data: &[u8]) -> R {
    for (p, r) in oracles(target, data) {
        if p == prop {
            r?;
        }
    }
    Ok(())
}

// ---------------------------------------------------------------------------
// replay sub-checks and campaign driver

macro_rules! fuzz_sub {
    ($fname:ident, $target:expr, $prop:expr) => {
        pub fn $fname(input: &[u8], st: &mut Stats) -> R {
            let _ = st;
            replay($target, $prop, input)
        }
    };
}
fuzz_sub!(bytes_c01, "bytes", "C01");
fuzz_sub!(bytes_c03, "bytes", "C03");
fuzz_sub!(bytes_c04, "bytes", "C04");
fuzz_sub!(modules_c01, "modules", "C01");
fuzz_sub!(modules_c03, "modules", "C03");
fuzz_sub!(modules_c04, "modules", "C04");
fuzz_sub!(modules_c07, "modules", "C07");
fuzz_sub!(modules_c14, "modules", "C14");
fuzz_sub!(modules_c05, "modules", "C05");
fuzz_sub!(builder_c13, "builder", "C13");
fuzz_sub!(decoder_c11, "decoder", "C11");
fuzz_sub!(builder_c12, "builder", "C12");
fuzz_sub!(builder_c06, "builder", "C06");

/// the replay sub-checks a property contributes for fuzz artifacts
pub fn subs_for(prop: &str) -> Vec<Sub> {
    let mut v = vec![];
    let mut add = |name: &'static str, f: SubFn| v.push(Sub { name, f });
    match prop {
        "C01" => {
            add("fuzz-bytes", bytes_c01);
            add("fuzz-modules", modules_c01);
        }
        "C03" => {
            add("fuzz-bytes", bytes_c03);
            add("fuzz-modules", modules_c03);
        }
        "C04" => {
            add("fuzz-bytes", bytes_c04);
            add("fuzz-modules", modules_c04);
        }
        "C07" => add("fuzz-modules", modules_c07),
        "C05" => add("fuzz-modules", modules_c05),
        "C13" => add("fuzz-builder", builder_c13),
        "C14" => add("fuzz-modules", modules_c14),
        "C11" => add("fuzz-decoder", decoder_c11),
        "C12" => add("fuzz-builder", builder_c12),
        "C06" => add("fuzz-builder", builder_c06),
        _ => {}
    }
    v
}

/// Runs a libFuzzer campaign of `runs` executions for `target` (thorough tier) and
/// replays every artifact through this property's oracle.
pub fn drive_fuzz(ctx: &Ctx, target: &'static str, runs: u64) {
    use std::process::Command;
    let t0 = std::time::Instant::now();
    let root = &ctx.root;
    let corpus = root.join("target").join("fuzz-corpus").join(format!("{}-{}-{}", target, ctx.property, ctx.seed));
    let _ = std::fs::remove_dir_all(&corpus);
    if std::fs::create_dir_all(&corpus).is_err() {
        eprintln!("cannot create {}", corpus.display());
        std::process::exit(2);
    }
    // seed corpus: generated inputs (valid modules for `bytes`, pseudo-random streams otherwise)
    for k in 0..64u64 {
        let data: Vec<u8> = if target == "bytes" {
            let s = crate::sweep::stream_for(k ^ ctx.seed.wrapping_mul(77), 600);
            let mut cs = crate::cs::Cs::new(&s);
            let m = crate::layout::gen_module(&mut cs, crate::layout::ModMode::Ordered, 20);
            crate::model::words_to_bytes(&m.words())
        } else {
            crate::sweep::stream_for(k ^ ctx.seed.wrapping_mul(131), 200 + (k as usize % 5) * 200)
        };
        let _ = std::fs::write(corpus.join(format!("seed-{}", k)), data);
    }
    let artifacts = root.join("fuzz").join("artifacts").join(target);
    let before: std::collections::BTreeSet<_> = std::fs::read_dir(&artifacts).map(|d| d.filter_map(|e| e.ok().map(|e| e.path())).collect()).unwrap_or_default();
    // 8 parallel libFuzzer jobs share the corpus; each executes runs/8 inputs
    let jobs = 8u64;
    let per_job = (runs / jobs).max(1);
    let out = Command::new("cargo")
        .current_dir(root.join("harness"))
        .env("CARGO_NET_OFFLINE", "true")
        .env("VERIF_ROOT", root)
        .args(["+nightly", "fuzz", "run", "--fuzz-dir"])
        .arg(root.join("fuzz"))
        .arg(target)
        .arg(&corpus)
        .arg("--")
        .arg(format!("-runs={}", per_job))
        .arg(format!("-jobs={}", jobs))
        .arg(format!("-workers={}", jobs))
        .arg(format!("-seed={}", (ctx.seed % 0x7fff_ffff).max(1)))
        .args(["-len_control=0", "-max_len=4096", "-timeout=30", "-rss_limit_mb=4096", "-print_final_stats=1"])
        .output();
    let out = match out {
        Ok(o) => o,
        Err(e) => {
            eprintln!("cannot run cargo fuzz: {}", e);
            std::process::exit(2);
        }
    };
    let log = String::from_utf8_lossy(&out.stderr).to_string();
    if log.contains("error: could not compile") || log.contains("error[E") {
        eprintln!("{}", log);
        eprintln!("fuzz target build failed (infrastructure, not a violation)");
        std::process::exit(2);
    }
    // per-job logs fuzz-<n>.log are written to the working directory of the fuzzer
    let mut done = 0u64;
    let mut job_logs = String::new();
    for j in 0..jobs {
        let lp = root.join("harness").join(format!("fuzz-{}.log", j));
        if let Ok(t) = std::fs::read_to_string(&lp) {
            done += t
                .lines()
                .find_map(|l| l.strip_prefix("stat::number_of_executed_units:").map(|x| x.trim().parse::<u64>().unwrap_or(0)))
                .unwrap_or(0);
            job_logs.push_str(&t.lines().rev().take(15).collect::<Vec<_>>().into_iter().rev().collect::<Vec<_>>().join("\n"));
            let _ = std::fs::remove_file(&lp);
        }
    }
    let log = format!("{}\n{}", log, job_logs);
    let after: std::collections::BTreeSet<_> = std::fs::read_dir(&artifacts).map(|d| d.filter_map(|e| e.ok().map(|e| e.path())).collect()).unwrap_or_default();
    let new: Vec<_> = after.difference(&before).cloned().collect();
    let subs = subs_for(&ctx.property);
    let subname = format!("fuzz-{}", target);
    let mut st = Stats::new();
    st.evaluations = done;
    st.add(&format!("libfuzzer_{}_executions", target), done);
    let mut timeouts = 0;
    for a in &new {
        let name = a.file_name().and_then(|n| n.to_str()).unwrap_or("").to_string();
        if name.starts_with("timeout-") || name.starts_with("oom-") || name.starts_with("slow-unit-") {
            timeouts += 1;
            continue;
        }
        let Ok(data) = std::fs::read(a) else { continue };
        if let Some(sub) = subs.iter().find(|s| s.name == subname) {
            let r = match catch(|| (sub.f)(&data, &mut Stats::new())) {
                Ok(r) => r,
                Err((m, l)) => Err(Fail::new("harness-or-unguarded-panic", format!("{}:{}", l, normalise_panic(&m)), format!("panic outside a guarded call at {}: {}", l, m))),
            };
            if let Err(f) = r {
                if !ctx.is_open_known(&f.signature()) {
                    report(ctx, sub, &data, &f);
                }
            }
        }
    }
    if timeouts > 0 {
        eprintln!("libFuzzer reported {} timeout/oom artefacts for {} (inconclusive)", timeouts, target);
        std::process::exit(2);
    }
    if !out.status.success() && new.is_empty() {
        eprintln!("{}", log.lines().rev().take(30).collect::<Vec<_>>().into_iter().rev().collect::<Vec<_>>().join("\n"));
        eprintln!("libFuzzer run failed without artefact (infrastructure)");
        std::process::exit(2);
    }
    println!(
        "  {:<28} libfuzz executions={:<9} artefacts={:<3} {:.1}s",
        format!("fuzz-{}", target),
        done,
        new.len(),
        t0.elapsed().as_secs_f64()
    );
    ctx.per_sub.lock().unwrap().insert(
        subname,
        serde_json::json!({"mode": "libFuzzer campaign (coverage-guided, ASan)", "evaluations": done, "new_artifacts": new.len(), "wall_s": t0.elapsed().as_secs_f64()}),
    );
    ctx.total.lock().unwrap().merge(st);
    let _ = std::fs::remove_dir_all(&corpus);
}
