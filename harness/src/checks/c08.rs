//! C08 — spirv enums and bit-masks map numbers and names exactly as declared.

use crate::cs::Cs;
use crate::engine::*;
use crate::golden::{golden, GEnum};
use crate::kinds::{EnumInfo, ENUMS};
use rspirv::binary::Decoder;

fn declared(ge: &GEnum, n: u32) -> bool {
    if ge.is_mask {
        n & !ge.all_bits == 0
    } else {
        ge.value_set.contains(&n)
    }
}

fn near_boundary(ge: &GEnum, n: u32) -> bool {
    if ge.is_mask {
        // a word with at most one undeclared bit set, or all declared
        let extra = n & !ge.all_bits;
        extra.count_ones() <= 1
    } else {
        let d = ge.value_set.contains(&n);
        let lo = n.checked_sub(1).map(|x| ge.value_set.contains(&x)).unwrap_or(false);
        let hi = n.checked_add(1).map(|x| ge.value_set.contains(&x)).unwrap_or(false);
        d != lo || d != hi
    }
}

/// full oracle for one (type, word)
fn check_word(ei: usize, e: &EnumInfo, ge: &GEnum, n: u32, st: &mut Stats) -> R {
    let want = declared(ge, n);
    let got = (e.accepts)(n);
    if got != want {
        return Err(Fail::new(
            if got { "accepts-undeclared" } else { "rejects-declared" },
            e.name.to_string(),
            format!("{}: conversion of {} ({:#x}) {} but the number is {}declared", e.name, n, n, if got { "yields a value" } else { "yields nothing" }, if want { "" } else { "not " }),
        ));
    }
    if want {
        let back = (e.roundtrip)(n);
        if back != Some(n) {
            return Err(Fail::new("roundtrip", e.name.to_string(), format!("{}: {} converts back to {:?}", e.name, n, back)));
        }
        if !ge.is_mask {
            let name = (e.debug)(n).unwrap_or_default();
            let gname = &ge.enumerant(n).unwrap().name;
            if &name != gname {
                return Err(Fail::new("debug-name", e.name.to_string(), format!("{}: value {} prints as {} but is declared as {}", e.name, n, name, gname)));
            }
            if let Some(fs) = e.from_str {
                if fs(&name) != Some(n) {
                    return Err(Fail::new("name-parses-back", e.name.to_string(), format!("{}: name {} parses to {:?}, not {}", e.name, name, fs(&name), n)));
                }
            }
        }
    }
    if let Some(dec) = e.decode {
        let bytes = n.to_le_bytes();
        let mut d = Decoder::new(&bytes);
        let r = no_panic("typed decoder request", || dec(&mut d))?;
        match (want, r) {
            (true, Ok(v)) if v == n => {}
            (false, Err(err)) => {
                let dbg = format!("{:?}", err);
                if !dbg.starts_with(&format!("{}Unknown(0, {})", e.name, n)) {
                    return Err(Fail::new("decoder-unknown-report", e.name.to_string(), format!("{}: undeclared {} reported as {}", e.name, n, dbg)));
                }
            }
            (w, r) => {
                return Err(Fail::new("decoder-agrees", e.name.to_string(), format!("{}: decoder on {} gives {:?} (declared: {})", e.name, n, r, w)));
            }
        }
    }
    if near_boundary(ge, n) {
        st.nontrivial(((ei as u64) << 32) | n as u64);
    }
    Ok(())
}

/// fast oracle for the exhaustive sweep: acceptance and numeric round trip only
#[inline]
fn check_fast(e: &EnumInfo, ge: &GEnum, ranges: &[(u32, u32)], n: u32) -> bool {
    let want = if ge.is_mask {
        n & !ge.all_bits == 0
    } else {
        // ranges are sorted; few of them
        ranges.iter().any(|(lo, hi)| n >= *lo && n <= *hi)
    };
    let got = (e.accepts)(n);
    got == want && (!want || (e.roundtrip)(n) == Some(n))
}

fn ranges_of(ge: &GEnum) -> Vec<(u32, u32)> {
    let mut v: Vec<(u32, u32)> = vec![];
    for x in &ge.value_set {
        match v.last_mut() {
            Some((_, hi)) if *hi != u32::MAX && *hi + 1 == *x => *hi = *x,
            _ => v.push((*x, *x)),
        }
    }
    v
}

fn probes(ge: &GEnum) -> Vec<u32> {
    let mut v: Vec<u32> = vec![0x7fff_ffff, 0xffff_ffff, 0x8000_0000, 0xffff_fffe];
    for b in 0..32 {
        let p = 1u32 << b;
        v.extend([p, p.wrapping_sub(1), p.wrapping_add(1)]);
    }
    if ge.is_mask {
        for b in &ge.bits {
            v.push(b.bit);
            v.push(ge.all_bits & !b.bit);
        }
        v.push(ge.all_bits);
        v.push(!ge.all_bits);
        for c in &ge.consts {
            v.push(c.1);
        }
    } else {
        for x in &ge.value_set {
            for d in [0i64, -1, 1, -2, 2] {
                let y = *x as i64 + d;
                if (0..=u32::MAX as i64).contains(&y) {
                    v.push(y as u32);
                }
            }
        }
    }
    v.sort();
    v.dedup();
    v
}

/// index = type index: all words 0..=2^17, boundary probes, names and aliases
fn sub_types(input: &[u8], st: &mut Stats) -> R {
    let i = idx(input) as usize;
    let Some(e) = ENUMS.get(i) else { return Ok(()) };
    let g = golden();
    let Some(ge) = g.enums.get(e.name) else {
        return Err(Fail::new("golden", e.name.to_string(), "type missing in the golden snapshot".to_string()));
    };
    for n in 0..=(1u32 << 17) {
        check_word(i, e, ge, n, st)?;
    }
    st.evaluations += 1 << 17;
    for n in probes(ge) {
        check_word(i, e, ge, n, st)?;
        st.evaluations += 1;
    }
    // names
    if ge.is_mask {
        let names = (e.mask_names.unwrap())();
        let want: Vec<(String, u32)> = ge.consts.clone();
        if names != want {
            return Err(Fail::new("mask-constants", e.name.to_string(), format!("{}: named constants {:?}, declared {:?}", e.name, names, want)));
        }
        if (e.mask_all.unwrap())() != ge.all_bits {
            return Err(Fail::new("mask-all", e.name.to_string(), format!("{}: all() = {:#x}, declared bits {:#x}", e.name, (e.mask_all.unwrap())(), ge.all_bits)));
        }
        for (nm, bits) in &ge.consts {
            if (e.mask_from_name.unwrap())(nm) != Some(*bits) {
                return Err(Fail::new("mask-name", e.name.to_string(), format!("{}::{} != {:#x}", e.name, nm, bits)));
            }
            st.evaluations += 1;
        }
        st.add("mask_constants_checked", ge.consts.len() as u64);
    } else if let Some(fs) = e.from_str {
        for en in &ge.values {
            if fs(&en.name) != Some(en.value) {
                return Err(Fail::new("name-parses-back", e.name.to_string(), format!("{}: {} parses to {:?}", e.name, en.name, fs(&en.name))));
            }
            st.evaluations += 1;
        }
        for (alias, target) in &ge.aliases {
            let tv = ge.values.iter().find(|v| &v.name == target).map(|v| v.value);
            if tv.is_none() || fs(alias) != tv {
                return Err(Fail::new("alias-parses", format!("{}::{}", e.name, alias), format!("{}: alias {} parses to {:?}, aliased value {} = {:?}", e.name, alias, fs(alias), target, tv)));
            }
            st.evaluations += 1;
        }
        st.add("aliases_checked", ge.aliases.len() as u64);
        // the FromStr table of the source snapshot: every entry behaves as recorded
        for (s, target) in &ge.from_str {
            let tv = ge.values.iter().find(|v| &v.name == target).map(|v| v.value);
            if fs(s) != tv {
                return Err(Fail::new("fromstr-table", format!("{}::{}", e.name, s), format!("{}: {:?} parses to {:?}, snapshot says {}", e.name, s, fs(s), target)));
            }
        }
        // (what strings other than declared names and aliases parse to is not stated by the property: not checked)
    }
    st.evaluations -= 1;
    st.set_insert("types", e.name);
    st.sample(|| format!("{}: {} declared values, probes e.g. {:?}", e.name, if ge.is_mask { ge.bits.len() } else { ge.values.len() }, &probes(ge)[..8.min(probes(ge).len())]));
    Ok(())
}

/// random words (proptest): 64 (type, word) pairs per case
fn sub_random(input: &[u8], st: &mut Stats) -> R {
    let mut cs = Cs::new(input);
    let g = golden();
    for _ in 0..64 {
        if cs.exhausted() {
            break;
        }
        let i = cs.below(ENUMS.len());
        let e = &ENUMS[i];
        let ge = g.enums.get(e.name).unwrap();
        let n = match cs.below(4) {
            0 if !ge.is_mask && !ge.values.is_empty() => {
                let v = ge.values[cs.below(ge.values.len())].value;
                v.wrapping_add(cs.below(5) as u32).wrapping_sub(2)
            }
            1 if ge.is_mask => cs.u32() & (ge.all_bits | (1 << cs.below(32))),
            _ => cs.u32(),
        };
        check_word(i, e, ge, n, st)?;
        st.evaluations += 1;
    }
    st.evaluations = st.evaluations.saturating_sub(1);
    Ok(())
}

/// thorough: index = (type, 2^24-word chunk): all 2^32 words per type
fn sub_exhaustive(input: &[u8], st: &mut Stats) -> R {
    let i = idx(input);
    let ti = (i / 256) as usize;
    let chunk = (i % 256) as u32;
    let Some(e) = ENUMS.get(ti) else { return Ok(()) };
    let g = golden();
    let ge = g.enums.get(e.name).unwrap();
    let ranges = ranges_of(ge);
    let lo = chunk << 24;
    for k in 0..(1u32 << 24) {
        let n = lo | k;
        if !check_fast(e, ge, &ranges, n) {
            // report through the full oracle for a proper message
            check_word(ti, e, ge, n, st)?;
            return Err(Fail::new("exhaustive", e.name.to_string(), format!("{}: word {} fails the fast oracle", e.name, n)));
        }
    }
    st.evaluations += (1 << 24) - 1;
    Ok(())
}

include!(concat!(env!("OUT_DIR"), "/declared_aliases.rs"));

/// `declared-aliases`: the alias constants the working tree's `spirv` crate declares (read from its
/// sources at build time - a declaration cannot be enumerated through the API): each is the value it
/// aliases and its name parses to that value
fn sub_declared_aliases(input: &[u8], st: &mut Stats) -> R {
    let k = idx(input) as usize;
    let Some((ty, alias, target, vals, parse)) = DECLARED_ALIASES.get(k) else { return Ok(()) };
    let (a, b) = no_panic("alias constant", || vals())?;
    let f = |clause: &str, msg: String| Fail::new(clause, format!("{}::{}", ty, alias), msg);
    if a != b {
        return Err(f("alias-value", format!("{}::{} = {} but {}::{} = {}", ty, alias, a, ty, target, b)));
    }
    let got = no_panic("from_str(alias)", || parse(alias))?;
    if got != Some(b) {
        return Err(f("alias-parses", format!("{}: the declared alias {} parses to {:?}, the value it aliases ({}) is {}", ty, alias, got, target, b)));
    }
    let gt = no_panic("from_str(target)", || parse(target))?;
    if gt != Some(b) {
        return Err(f("name-parses-back", format!("{}: {} parses to {:?}, its value is {}", ty, target, gt, b)));
    }
    st.nontrivial(k as u64);
    Ok(())
}

pub const SUBS: &[Sub] = &[
    Sub { name: "types", f: sub_types },
    Sub { name: "random-words", f: sub_random },
    Sub { name: "exhaustive", f: sub_exhaustive },
    Sub { name: "declared-aliases", f: sub_declared_aliases },
];

pub fn run(ctx: &Ctx) {
    run_regress(ctx, SUBS);
    drive_enum(ctx, &SUBS[0], ENUMS.len() as u64);
    drive_random(ctx, &SUBS[1], ctx.n(20_000, 200_000), 400);
    drive_enum(ctx, &SUBS[3], DECLARED_ALIASES.len() as u64);
    if !ctx.quick() {
        drive_enum(ctx, &SUBS[2], ENUMS.len() as u64 * 256);
        ctx.exhaustive.store(true, std::sync::atomic::Ordering::Relaxed);
        ctx.note("thorough tier: all 2^32 words of each of the 60 types were enumerated (acceptance + numeric round trip)");
    }
}

pub fn finish(ctx: &Ctx) -> i32 {
    crate::engine::finish(
        ctx,
        Finish {
            rule: "for each of the 45 enumerations and 15 bit-mask types: all words 0..=2^17, every declared value +-1/+-2, every power of two +-1, 0x7fffffff, 0x80000000, 0xffffffff, mask complements; random words (biased to declared values +-2 and declared bits plus one stray bit); thorough tier: ALL 2^32 words per type. Oracle: conversion yields a value iff the number is a golden declared value (checked without touching an undeclared value), value converts back to the same number, Debug name = declared name, FromStr(name) = value, every alias parses to the value it aliases, undeclared names rejected, masks accept iff all set bits are declared, named constants = declared, typed decoder request returns the same value or <Kind>Unknown(0, word). non-trivial = probe at or adjacent to a boundary of the declared set (masks: at most one undeclared bit); distinct = (type, word). Added in rounds 18-19: declared-aliases: the alias constants declared in the working tree's spirv sources (read at build time) equal and parse to the value they alias.",
            assumptions: vec![
                "declared values/names/aliases = the golden snapshot of the pinned tree (api.json from the public API by a complete 2^32 sweep, source.json from the source text), cross-checked between enum declaration, from_u32 ranges, FromStr tables, alias constants and ~900 hand-typed specification anchors (golden/verify.py); the Khronos JSON itself is not available offline".into(),
            ],
            trusted_base: vec!["golden/api.json".into(), "golden/source.json".into(), "golden/spec_anchors.py".into()],
        },
    )
}
