//! C04 — parsing, loading, assembling and disassembling never panic.

use crate::checks::c11;
use crate::cs::Cs;
use crate::engine::*;
use crate::golden::golden;
use crate::layout::*;
use crate::model::*;
use crate::rs::*;
use crate::sweep;
use rspirv::binary::{Assemble, Decoder, Disassemble};

/// Everything C04 demands of one byte string.
pub fn exercise(bytes: &[u8], st: &mut Stats, decoded: &dyn Fn() -> String) -> R {
    let wrap = |f: Fail| -> Fail {
        let d = format!(
            "{}\nbytes({}): {}{}",
            decoded(),
            bytes.len(),
            show_words(&bytes_to_words(bytes)),
            if bytes.len() % 4 != 0 {
                format!(" + {:02x?}", &bytes[bytes.len() / 4 * 4..])
            } else {
                String::new()
            }
        );
        f.with_decoded(d)
    };
    let (c, r) = parse_bytes_collect(bytes).map_err(wrap)?;
    if !c.insts.is_empty() || (c.headers.len() == 1 && r.is_err()) {
        st.nontrivial(hash64(bytes));
    }
    match &r {
        Ok(()) => st.count("parse_ok"),
        Err(e) => st.count(&format!("parse_{}", state_name(e))),
    }
    if bytes.len() % 4 == 0 {
        let words = bytes_to_words(bytes);
        let _ = parse_words_collect(&words).map_err(wrap)?;
    }
    let m = load_bytes(bytes).map_err(wrap)?;
    match m {
        Ok(module) => {
            st.count("loaded");
            let asm = no_panic("Module::assemble", || module.assemble()).map_err(wrap)?;
            let _ = asm;
            no_panic("Module::disassemble", || module.disassemble()).map_err(wrap)?;
            for i in module.all_inst_iter() {
                no_panic("Instruction::disassemble", || i.disassemble()).map_err(wrap)?;
                no_panic("Instruction::assemble", || i.assemble()).map_err(wrap)?;
                no_panic("Display/Debug for Instruction", || (format!("{:?}", i), i.operands.iter().map(|o| format!("{}", o)).collect::<Vec<_>>())).map_err(wrap)?;
            }
            // the same traits on the sub-structures of the accepted module
            for f in &module.functions {
                no_panic("Function::assemble", || f.assemble()).map_err(wrap)?;
                no_panic("Function::disassemble", || f.disassemble()).map_err(wrap)?;
                for b in &f.blocks {
                    no_panic("Block::assemble", || b.assemble()).map_err(wrap)?;
                    no_panic("Block::disassemble", || b.disassemble()).map_err(wrap)?;
                }
            }
            if let Some(h) = &module.header {
                no_panic("ModuleHeader::assemble/disassemble", || (h.assemble(), h.disassemble())).map_err(wrap)?;
            }
        }
        Err(e) => {
            // the error value is printable (rspirv-dis prints it)
            no_panic("Display for ParseState", || format!("{}", e)).map_err(wrap)?;
        }
    }
    Ok(())
}

/// `modules` with extreme ids (0 / 0x7fffffff / 0x80000000 / 0xffffffff), extreme header words and
/// occasionally instructions of thousands of words
fn sub_edge_ids(input: &[u8], st: &mut Stats) -> R {
    with_edge_ids(|| sub_modules(input, st))
}

fn sub_modules(input: &[u8], st: &mut Stats) -> R {
    let mut cs = Cs::new(input);
    let mode = match cs.below(4) {
        0 => ModMode::Ordered,
        1 => ModMode::Interleaved,
        _ => ModMode::Wild,
    };
    let m = gen_module(&mut cs, mode, 24);
    let (bytes, kinds) = if cs.below(4) != 0 {
        mutate(&mut cs, &m)
    } else {
        (words_to_bytes(&m.words()), vec![])
    };
    for k in &kinds {
        st.count(&format!("mutation_{}", k));
    }
    exercise(&bytes, st, &|| format!("{}mutations: {:?}", m.render(), kinds))?;
    st.sample(|| format!("module of {} instructions, mutations {:?}", m.plans.len(), kinds));
    Ok(())
}

/// generated modules under `layout::mutate2`: special words at instruction boundaries, modules back
/// to back, a text split inside a character over two instructions, ids around 2^16, swapped /
/// repeated instructions; now and then followed by a byte-level fault as well
fn sub_structural(input: &[u8], st: &mut Stats) -> R {
    let mut cs = Cs::new(input);
    let mode = match cs.below(4) {
        0 => ModMode::Ordered,
        1 => ModMode::Interleaved,
        _ => ModMode::Wild,
    };
    let m = gen_module(&mut cs, mode, 24);
    let (mut bytes, kinds) = crate::layout::mutate2(&mut cs, &m);
    if cs.below(4) == 0 && !bytes.is_empty() {
        let at = cs.below(bytes.len());
        match cs.below(3) {
            0 => bytes.truncate(at),
            1 => bytes[at] ^= 1 << cs.below(8),
            _ => bytes[at] = cs.u8(),
        }
    }
    for k in &kinds {
        st.count(&format!("structural_{}", k));
    }
    exercise(&bytes, st, &|| format!("{}structural edits: {:?}", m.render(), kinds))
}

/// `cli-files`: the statement's last observation point - the process exit status of rspirv-dis - on
/// text files (a module written out as numbers in the usual spellings, its disassembly, JSON, UTF-16,
/// base64-looking text), on structural variations of modules and on raw bytes; the oracle is C20's
/// (no panic message, status 0, stdout = the library's answer)
fn sub_cli_files(input: &[u8], st: &mut Stats) -> R {
    let k = input.first().copied().unwrap_or(0) % 4;
    let rest = if input.is_empty() { input } else { &input[1..] };
    match k {
        0 | 1 => crate::checks::c20::sub_text_files(rest, st),
        2 => crate::checks::c20::sub_structural(rest, st),
        _ => {
            let mut cs = Cs::new(rest);
            let n = cs.below(96);
            let b: Vec<u8> = (0..n).map(|_| match cs.below(4) { 0 => cs.u8(), 1 => b'0' + cs.below(10) as u8, 2 => b"x,X \n"[cs.below(5)], _ => b'a' + cs.below(6) as u8 }).collect();
            crate::checks::c20::check_file(&b, st, &|| "digits, hex letters and separators".into())
        }
    }
}

/// `ext-inst-vocabulary`: OpExtInst with every instruction number around the table boundaries (0, 1,
/// the last, one past it, 2^16, 2^31 ...) on an import of every extended instruction set name of the
/// vocabulary (GLSL, OpenCL, the SPV_AMD_* sets, DebugInfo, NonSemantic.*, near misses), parsed,
/// loaded, assembled and disassembled in-process
fn sub_ext_vocabulary(input: &[u8], st: &mut Stats) -> R {
    let k = idx(input) as usize;
    let sets = crate::vocab::EXT_SETS;
    let nn = crate::checks::c20::ext_numbers_len();
    if k >= nn * sets.len() {
        return Ok(());
    }
    let (n, set) = (crate::checks::c20::ext_number_at(k / sets.len()), sets[k % sets.len()]);
    let w = crate::checks::c20::ext_number_module(set, n);
    st.nontrivial(k as u64);
    exercise(&words_to_bytes(&w), st, &|| format!("OpExtInst number {} on an import of {:?}", n, set))
}

/// header + pseudo-instructions: declared opcodes with arbitrary operand words.
fn sub_junk(input: &[u8], st: &mut Stats) -> R {
    let mut cs = Cs::new(input);
    let g = golden();
    let mut w = header_words((1, cs.below(7) as u8), cs.lit32());
    let n = cs.below(8);
    for _ in 0..n {
        let gi = match cs.below(10) {
            0 => gi_by_name("SpecConstantOp"),
            1 => gi_by_name("Constant"),
            2 => gi_by_name("Switch"),
            3 => gi_by_name("TypeInt"),
            4 => gi_by_name("TypeFloat"),
            5 => gi_by_name("String"),
            _ => &g.core[cs.below(g.core.len())],
        };
        let nops = cs.below(9);
        let declared = match cs.below(6) {
            0 => cs.below(12),
            _ => nops + 1,
        };
        w.push(((declared as u32) << 16) | gi.opcode);
        for _ in 0..nops {
            let v = match cs.below(8) {
                0 => cs.below(8) as u32,
                1 => cs.below(64) as u32,
                2 => cs.below(400) as u32,
                3 => cs.u16() as u32,
                4 => cs.lit32(),
                5 => 0x0000_6161 | ((cs.u8() as u32) << 16),
                6 => g.core[cs.below(g.core.len())].opcode,
                _ => cs.u32(),
            };
            w.push(v);
        }
    }
    let mut bytes = words_to_bytes(&w);
    if cs.below(8) == 0 {
        let k = cs.below(4);
        bytes.truncate(bytes.len().saturating_sub(k));
    }
    exercise(&bytes, st, &|| "junk instructions".to_string())
}

fn sub_raw(input: &[u8], st: &mut Stats) -> R {
    let mut bytes = vec![];
    if input.first().copied().unwrap_or(0) >= 64 {
        bytes.extend_from_slice(&words_to_bytes(&[MAGIC]));
        bytes.extend_from_slice(input.get(1..).unwrap_or(&[]));
    } else {
        bytes.extend_from_slice(input);
    }
    exercise(&bytes, st, &|| "raw bytes".to_string())
}

/// Every opcode embedded in OpSpecConstantOp with 0..=4 trailing words.
fn sub_embedded(input: &[u8], st: &mut Stats) -> R {
    let i = idx(input);
    let g = golden();
    let gi = &g.core[(i / 5) as usize % g.core.len()];
    let extra = (i % 5) as usize;
    let stream = sweep::stream_for(i, 64);
    let mut cs = Cs::new(&stream);
    let mut w = header_words((1, 3), 100);
    // a 64-bit type so that embedded context-dependent literals would be wide
    w.extend([(4 << 16) | OP_TYPE_INT, 1, 64, 0]);
    let mut inst = vec![0u32, 1, 2, gi.opcode];
    for _ in 0..extra {
        inst.push(match cs.below(4) {
            0 => 1,
            1 => 0,
            2 => cs.below(64) as u32,
            _ => cs.lit32(),
        });
    }
    inst[0] = ((inst.len() as u32) << 16) | OP_SPEC_CONSTANT_OP;
    w.extend(inst);
    let bytes = words_to_bytes(&w);
    exercise(&bytes, st, &|| format!("OpSpecConstantOp embedding Op{} with {} trailing words", gi.opname, extra))
}

fn sub_decoder(input: &[u8], st: &mut Stats) -> R {
    let mut cs = Cs::new(input);
    let s = c11::gen_script(&mut cs);
    let ty = c11::typed();
    let dec = || s.render();
    let shifted = crate::rs::Shifted::new(&s.buf);
    let mut d = Decoder::new(shifted.bytes());
    let mut limit = false;
    let mut string = false;
    for r in &s.reqs {
        let res = match r {
            c11::Req::Word => no_panic("Decoder::word", || d.word().is_ok()),
            c11::Req::Words(n) => no_panic("Decoder::words", || d.words(*n).is_ok()),
            c11::Req::Bit32 => no_panic("Decoder::bit32", || d.bit32().is_ok()),
            c11::Req::Bit64 => no_panic("Decoder::bit64", || d.bit64().is_ok()),
            c11::Req::Id => no_panic("Decoder::id", || d.id().is_ok()),
            c11::Req::ExtInst => no_panic("Decoder::ext_inst_integer", || d.ext_inst_integer().is_ok()),
            c11::Req::Str => {
                string = true;
                no_panic("Decoder::string", || d.string().is_ok())
            }
            c11::Req::Typed(i) => {
                let e = ty[*i];
                no_panic(&format!("Decoder::{}", e.name), || (e.decode.unwrap())(&mut d).is_ok())
            }
            c11::Req::SetLimit(n) => {
                limit = true;
                no_panic("Decoder::set_limit", || {
                    d.set_limit(*n);
                    true
                })
            }
            c11::Req::ClearLimit => no_panic("Decoder::clear_limit", || {
                d.clear_limit();
                true
            }),
            c11::Req::Query => no_panic("Decoder queries", || {
                let _ = (d.offset(), d.has_limit(), d.limit_reached());
                true
            }),
        };
        res.map_err(|f| f.with_decoded(dec()))?;
    }
    if limit && string {
        st.nontrivial(hash_str(&s.render()));
    }
    Ok(())
}

/// every sweep instruction with the nearest undeclared enumerant / undeclared mask bit /
/// missing / surplus word: parse, load and Display of every error kind
fn sub_negative(input: &[u8], st: &mut Stats) -> R {
    let i = idx(input);
    let cases = sweep::cases();
    let Some(case) = cases.get(i as usize) else { return Ok(()) };
    let Some((prelude, p)) = sweep::build(case, i * 8 + 3) else { return Ok(()) };
    let g = golden();
    let mut head = header_words((1, 2), 300);
    for q in &prelude {
        head.extend(q.words());
    }
    let w = p.words();
    let mut variants: Vec<Vec<u32>> = vec![w.clone()];
    if w.len() > 1 {
        let mut v = w.clone();
        v.pop();
        v[0] = ((v.len() as u32) << 16) | p.opcode;
        variants.push(v);
    }
    if let Some((k, val)) = case.force.last() {
        if let Some(ge) = g.enums.get(&format!("{:?}", k)) {
            if let Some(pos) = w.iter().enumerate().skip(1).find(|(_, x)| **x == *val).map(|(i, _)| i) {
                let mut v = w.clone();
                if ge.is_mask {
                    if let Some(b) = (0..32).map(|b| 1u32 << b).find(|b| ge.all_bits & b == 0) {
                        v[pos] |= b;
                    }
                } else {
                    let mut x = val.wrapping_add(1);
                    while ge.value_set.contains(&x) {
                        x = x.wrapping_add(1);
                    }
                    v[pos] = x;
                }
                variants.push(v);
            }
        }
    }
    for v in variants {
        let mut bin = head.clone();
        bin.extend(&v);
        let bytes = words_to_bytes(&bin);
        st.evaluations += 1;
        exercise(&bytes, st, &|| format!("negative variant of {}", show_inst(&p.inst())))?;
    }
    st.evaluations -= 1;
    Ok(())
}

/// one Loader object used for two parses in a row (the first usually fails), then fed a few
/// instructions by hand: whatever it answers, it must not panic
fn sub_reused_loader(input: &[u8], st: &mut Stats) -> R {
    use rspirv::binary::Consumer;
    let mut cs = Cs::new(input);
    let mut one = |cs: &mut Cs| -> (Vec<u8>, String) {
        let mode = match cs.below(3) {
            0 => ModMode::Ordered,
            1 => ModMode::Interleaved,
            _ => ModMode::Wild,
        };
        let m = gen_module(cs, mode, 24);
        let (bytes, kinds) = if cs.below(4) != 0 { mutate(cs, &m) } else { (words_to_bytes(&m.words()), vec![]) };
        (bytes, format!("{}mutations {:?}", m.render(), kinds))
    };
    let (a, da) = one(&mut cs);
    let (b, db) = one(&mut cs);
    let dec = || format!("first parse:\n{}\nsecond parse:\n{}", da, db);
    let mut ld = rspirv::dr::Loader::new();
    let ra = no_panic("parse_bytes with a Loader", || rspirv::binary::parse_bytes(crate::rs::Shifted::new(&a).bytes(), &mut ld).is_ok()).map_err(|f| f.with_decoded(dec()))?;
    let rb = no_panic("parse_bytes with the same Loader again", || rspirv::binary::parse_bytes(crate::rs::Shifted::new(&b).bytes(), &mut ld).is_ok()).map_err(|f| f.with_decoded(dec()))?;
    // by hand: the instructions of the second binary once more
    if let Ok((c, _)) = parse_bytes_collect(&b) {
        no_panic("Loader fed through Consumer methods after earlier parses", || {
            for i in c.insts.iter().take(40) {
                let _ = ld.consume_instruction(i.clone());
            }
            let _ = ld.finalize();
        })
        .map_err(|f| f.with_decoded(dec()))?;
    }
    no_panic("Loader::module after reuse", || {
        let m = ld.module();
        let _ = m.assemble();
    })
    .map_err(|f| f.with_decoded(dec()))?;
    st.count(if ra { "first_parse_ok" } else { "first_parse_failed" });
    st.count(if rb { "second_parse_ok" } else { "second_parse_failed" });
    if !ra {
        st.nontrivial(hash64(&a) ^ hash64(&b).rotate_left(9));
    }
    Ok(())
}

/// type declarations, typed values and literal consumers over a tiny id pool: forward
/// references, ids declared twice with different widths, consumers before their types
fn sub_type_chaos(input: &[u8], st: &mut Stats) -> R {
    let mut cs = Cs::new(input);
    let (w, desc) = type_chaos_words(&mut cs);
    let bytes = words_to_bytes(&w);
    exercise(&bytes, st, &|| desc.join("\n"))
}

/// the words of a type-chaos module and a description of its instructions
pub fn type_chaos_words(cs: &mut Cs) -> (Vec<u32>, Vec<String>) {
    let mut w = header_words((1, 4), 16);
    let n = 2 + cs.below(10);
    let mut desc = vec![];
    for _ in 0..n {
        let id = 1 + cs.below(4) as u32;
        let ty = 1 + cs.below(4) as u32;
        match cs.below(8) {
            0 | 1 => {
                let width = [8u32, 16, 32, 64, 64, 24, 128, 0, 1, 33, 63, 65, 0x7fff_ffff, 0x8000_0000, 0xffff_ffe0, 0xffff_ffe1, 0xffff_fff0, 0xffff_ffff][cs.below(18)];
                w.extend([(4 << 16) | OP_TYPE_INT, id, width, cs.below(2) as u32]);
                desc.push(format!("%{} = OpTypeInt {}", id, width));
            }
            2 => {
                let width = [16u32, 32, 64, 64, 8, 0, 1, 31, 65, 128, 0x7fff_ffff, 0x8000_0000, 0xffff_ffe1, 0xffff_fff0, 0xffff_ffff][cs.below(15)];
                w.extend([(3 << 16) | OP_TYPE_FLOAT, id, width]);
                desc.push(format!("%{} = OpTypeFloat {}", id, width));
            }
            3 | 4 => {
                let nl = 1 + cs.below(2);
                let op = if cs.below(3) == 0 { OP_SPEC_CONSTANT } else { OP_CONSTANT };
                let mut i = vec![op, ty, id];
                for _ in 0..nl {
                    i.push(cs.lit32());
                }
                i[0] |= (i.len() as u32) << 16;
                w.extend(&i);
                desc.push(format!("%{} = OpConstant %{} ({} words)", id, ty, nl));
            }
            5 => {
                w.extend([(3 << 16) | 1, ty, id]);
                desc.push(format!("%{} = OpUndef %{}", id, ty));
            }
            6 => {
                // OpSwitch inside a function block
                let ncase = cs.below(3);
                let wide = cs.bool();
                let mut i = vec![OP_SWITCH, id, 9];
                for _ in 0..ncase {
                    i.push(cs.lit32());
                    if wide {
                        i.push(cs.lit32());
                    }
                    i.push(9);
                }
                i[0] |= (i.len() as u32) << 16;
                w.extend(W_FUNCTION);
                w.extend(W_LABEL);
                w.extend(&i);
                w.extend(W_FUNCTION_END);
                desc.push(format!("OpSwitch %{} ({} cases, wide={})", id, ncase, wide));
            }
            _ => {
                w.extend([(3 << 16) | 71, id, 0]);
                desc.push(format!("OpDecorate %{} RelaxedPrecision", id));
            }
        }
    }
    (w, desc)
}

pub const SUBS: &[Sub] = &[
    Sub { name: "type-chaos", f: sub_type_chaos },
    Sub { name: "negative-sweep", f: sub_negative },
    Sub { name: "embedded", f: sub_embedded },
    Sub { name: "modules", f: sub_modules },
    Sub { name: "junk", f: sub_junk },
    Sub { name: "raw", f: sub_raw },
    Sub { name: "decoder", f: sub_decoder },
    Sub { name: "edge-ids", f: sub_edge_ids },
    Sub { name: "reused-loader", f: sub_reused_loader },
    Sub { name: "structural-variations", f: sub_structural },
    Sub { name: "cli-files", f: sub_cli_files },
    Sub { name: "ext-inst-vocabulary", f: sub_ext_vocabulary },
];

pub fn run(ctx: &Ctx) {
    run_regress(ctx, SUBS);
    drive_random(ctx, &SUBS[0], ctx.n(50_000, 20_000_000), 200);
    drive_enum(ctx, &SUBS[1], sweep::cases().len() as u64);
    drive_enum(ctx, &SUBS[2], golden().core.len() as u64 * 5);
    drive_random(ctx, &SUBS[3], ctx.n(30_000, 15_000_000), 1200);
    drive_random(ctx, &SUBS[4], ctx.n(100_000, 50_000_000), 400);
    drive_random(ctx, &SUBS[5], ctx.n(50_000, 20_000_000), 200);
    drive_random(ctx, &SUBS[6], ctx.n(100_000, 50_000_000), 300);
    drive_random(ctx, &SUBS[7], ctx.n(10_000, 5_000_000), 4000);
    drive_random(ctx, &SUBS[8], ctx.n(10_000, 5_000_000), 2400);
    drive_random(ctx, &SUBS[9], ctx.n(30_000, 10_000_000), 1200);
    drive_random_with(ctx, &SUBS[10], ctx.n(600, 150_000), 1000, 250);
    crate::checks::c20::cleanup();
    drive_enum(ctx, &SUBS[11], (crate::checks::c20::ext_numbers_len() * crate::vocab::EXT_SETS.len()) as u64);
    if !ctx.quick() && !ctx.failed() {
        crate::fuzzing::drive_fuzz(ctx, "bytes", 1_000_000);
        crate::fuzzing::drive_fuzz(ctx, "modules", 300_000);
    }
}

pub fn finish(ctx: &Ctx) -> i32 {
    crate::engine::finish(
        ctx,
        Finish {
            rule: "cases: (a) every core opcode embedded in OpSpecConstantOp with 0-4 trailing words; (b) generated modules (ordered / interleaved / wild), 3 in 4 with 1-3 stacked byte-level faults; (c) header + pseudo-instructions (declared opcodes, arbitrary word counts and operand words biased towards small declared values); (d) raw bytes with and without magic; (e') one Loader used for two parses in a row and then fed by hand; (e) decoder request scripts with limits from 0 to usize::MAX on buffers of any length. Oracle: catch_unwind around parse_bytes, parse_words, load_bytes, and for accepted modules assemble/disassemble of the module and of every instruction, and around every decoder request; overflow checks and debug assertions are enabled in the harness build. non-trivial = input that gets past the header (>= 1 instruction delivered, or a fault inside an instruction) / decoder script with a limit change and a string request; distinct = hash of the input. Added in rounds 18-19: structural-variations, cli-files (text files, structural variations and digit strings through the rspirv-dis binary) and ext-inst-vocabulary (every boundary number on every extended instruction set name of the registry).",
            assumptions: vec!["termination: every case returned (a hang would trip the watchdog, exit 2)".into()],
            trusted_base: vec!["std::panic::catch_unwind".into(), "proptest".into()],
        },
    )
}
