//! C19 — Storage tokens are stable handles to the appended values.

use crate::cs::Cs;
use crate::engine::*;
use rspirv::sr::storage::{Storage, Token};

#[derive(Clone, Debug, Default)]
struct Keyed {
    key: u8,
    payload: u32,
}
impl PartialEq for Keyed {
    fn eq(&self, o: &Keyed) -> bool {
        self.key == o.key
    }
}

trait Val: Clone + PartialEq + std::fmt::Debug + Default {
    /// `wide` = 0: the small default alphabet; otherwise values from an alphabet of `wide` elements
    fn gen(cs: &mut Cs, serial: u32, wide: usize) -> Self;
    fn same(&self, o: &Self) -> bool;
}
impl Val for u8 {
    fn gen(cs: &mut Cs, _s: u32, wide: usize) -> u8 {
        cs.below(if wide == 0 { 6 } else { wide.min(256) }) as u8
    }
    fn same(&self, o: &u8) -> bool {
        self == o
    }
}
impl Val for f64 {
    fn gen(cs: &mut Cs, _s: u32, wide: usize) -> f64 {
        if wide != 0 && cs.below(4) != 0 {
            return cs.below(wide) as f64;
        }
        match cs.below(6) {
            0 => f64::NAN,
            1 => 0.0,
            2 => -0.0,
            3 => 1.5,
            4 => f64::INFINITY,
            _ => cs.below(4) as f64,
        }
    }
    fn same(&self, o: &f64) -> bool {
        self.to_bits() == o.to_bits()
    }
}
impl Val for Keyed {
    fn gen(cs: &mut Cs, s: u32, wide: usize) -> Keyed {
        Keyed {
            key: cs.below(if wide == 0 { 5 } else { wide.min(256) }) as u8,
            payload: s,
        }
    }
    fn same(&self, o: &Keyed) -> bool {
        self.key == o.key && self.payload == o.payload
    }
}

fn run_ops<T: Val>(cs: &mut Cs, st: &mut Stats, tyname: &str) -> R {
    let n = cs.below(201);
    run_ops_n::<T>(cs, st, tyname, n, 0, 1)
}

/// `n` operations over an alphabet (`wide`, 0 = default); every token is looked up again every
/// `sweep` steps and at the end (the newest token after every step)
fn run_ops_n<T: Val>(cs: &mut Cs, st: &mut Stats, tyname: &str, n: usize, wide: usize, sweep: usize) -> R {
    // both constructors
    let mut s: Storage<T> = if n % 2 == 0 { Storage::new() } else { Storage::default() };
    let mut model: Vec<T> = vec![];
    let mut tokens: Vec<Token<T>> = vec![];
    let mut log = vec![];
    let mut fetched_existing = 0;
    for step in 0..n {
        let v = T::gen(cs, step as u32, wide);
        let fetch = cs.bool();
        let t = if fetch {
            no_panic("Storage::fetch_or_append", || s.fetch_or_append(v.clone()))?
        } else {
            no_panic("Storage::append", || s.append(v.clone()))?
        };
        log.push(format!("{}({:?}) -> {}", if fetch { "fetch_or_append" } else { "append" }, v, t.index()));
        let fail = |clause: &str, msg: String| Fail::new(clause, tyname.to_string(), msg).with_decoded(log.join("\n"));
        let first_equal = if fetch { model.iter().position(|m| *m == v) } else { None };
        match first_equal {
            Some(i) => {
                fetched_existing += 1;
                if t.index() as usize != i {
                    return Err(fail("fetch-first-equal", format!("fetch_or_append returned token {} but the first equal stored value has index {}", t.index(), i)));
                }
            }
            None => {
                if t.index() as usize != model.len() {
                    return Err(fail("dense-index", format!("appended value got index {} but {} values were stored before", t.index(), model.len())));
                }
                if tokens.iter().any(|o| o.index() == t.index()) {
                    return Err(fail("fresh-token", format!("token {} was returned before", t.index())));
                }
                model.push(v.clone());
                tokens.push(t);
            }
        }
        // every token ever returned still yields its value
        let from = if step % sweep == 0 || step + 1 == n { 0 } else { tokens.len().saturating_sub(1) };
        for (i, tk) in tokens.iter().enumerate().skip(from) {
            let got = no_panic("Storage index", || s[*tk].clone())?;
            if !got.same(&model[i]) {
                return Err(fail("stable-lookup", format!("lookup through token {} yields {:?}, appended value was {:?}", i, got, model[i])));
            }
        }
    }
    st.count(&format!("sequences_{}", tyname));
    if model.len() > 512 {
        st.count("sequences_storing_more_than_512_values");
    }
    if fetched_existing > 0 && n >= 4 {
        st.nontrivial(hash_str(&log.join(";")) ^ hash_str(tyname));
    }
    st.sample(|| format!("{}: {}", tyname, log.iter().take(12).cloned().collect::<Vec<_>>().join("; ")));
    Ok(())
}

fn sub_sequences(input: &[u8], st: &mut Stats) -> R {
    let mut cs = Cs::new(input);
    match cs.below(3) {
        0 => run_ops::<u8>(&mut cs, st, "u8"),
        1 => run_ops::<f64>(&mut cs, st, "f64-with-NaN"),
        _ => run_ops::<Keyed>(&mut cs, st, "key-equality"),
    }
}

/// medium and long sequences (300-3000 operations) over alphabets of 6 / 64 / 250 values, so that
/// equal values lie hundreds of positions apart
fn sub_long(input: &[u8], st: &mut Stats) -> R {
    let mut cs = Cs::new(input);
    let n = 300 + cs.below(2700);
    let wide = [6usize, 64, 250][cs.below(3)];
    match cs.below(3) {
        0 => run_ops_n::<u8>(&mut cs, st, "u8", n, wide, 97),
        1 => run_ops_n::<f64>(&mut cs, st, "f64-with-NaN", n, wide, 97),
        _ => run_ops_n::<Keyed>(&mut cs, st, "key-equality", n, wide, 97),
    }
}

pub const SUBS: &[Sub] = &[Sub { name: "sequences", f: sub_sequences }, Sub { name: "long-sequences", f: sub_long }];

pub fn run(ctx: &Ctx) {
    run_regress(ctx, SUBS);
    drive_random(ctx, &SUBS[0], ctx.n(40_000, 20_000_000), 700);
    drive_random(ctx, &SUBS[1], ctx.n(1_000, 400_000), 12_000);
}

pub fn finish(ctx: &Ctx) -> i32 {
    crate::engine::finish(
        ctx,
        Finish {
            rule: "sequences of 0-200 (and, in `long-sequences`, 300-3000 over alphabets of 6 / 64 / 250 values) append / fetch_or_append operations over three value types: u8 (many repeats), f64 with NaN (unequal to itself) and a key/payload struct whose equality compares the key only (so 'first equal' is observable through the payload). Oracle: Vec model: append returns index = previous length, a token never returned before; lookup through every token ever returned yields the modelled value after every step (bitwise / payload-wise); fetch_or_append returns the token of the first stored equal value, else appends. non-trivial = sequence of >= 4 operations in which fetch_or_append found an existing value; distinct = hash of the operation log.",
            assumptions: vec![],
            trusted_base: vec!["Vec model".into(), "proptest".into()],
        },
    )
}
