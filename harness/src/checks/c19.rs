//! C19 — Storage tokens are stable handles to the appended values.

use crate::cs::Cs;
use crate::engine::*;
use rspirv::sr::storage::{Storage, Token};

#[derive(Clone, Debug, Default)]
struct Keyed {
    key: u8,
    payload: u32,
}
impl PartialEq for Keyed {
    fn eq(&self, o: &Keyed) -> bool {
        self.key == o.key
    }
}

trait Val: Clone + PartialEq + std::fmt::Debug + Default {
    /// `wide` = 0: the small default alphabet; otherwise values from an alphabet of `wide` elements
    fn gen(cs: &mut Cs, serial: u32, wide: usize) -> Self;
    fn same(&self, o: &Self) -> bool;
}
impl Val for u8 {
    fn gen(cs: &mut Cs, _s: u32, wide: usize) -> u8 {
        cs.below(if wide == 0 { 6 } else { wide.min(256) }) as u8
    }
    fn same(&self, o: &u8) -> bool {
        self == o
    }
}
impl Val for f64 {
    fn gen(cs: &mut Cs, _s: u32, wide: usize) -> f64 {
        if wide != 0 && cs.below(4) != 0 {
            return cs.below(wide) as f64;
        }
        match cs.below(6) {
            0 => f64::NAN,
            1 => 0.0,
            2 => -0.0,
            3 => 1.5,
            4 => f64::INFINITY,
            _ => cs.below(4) as f64,
        }
    }
    fn same(&self, o: &f64) -> bool {
        self.to_bits() == o.to_bits()
    }
}
impl Val for Keyed {
    fn gen(cs: &mut Cs, s: u32, wide: usize) -> Keyed {
        Keyed {
            key: cs.below(if wide == 0 { 5 } else { wide.min(256) }) as u8,
            payload: s,
        }
    }
    fn same(&self, o: &Keyed) -> bool {
        self.key == o.key && self.payload == o.payload
    }
}

fn run_ops<T: Val>(cs: &mut Cs, st: &mut Stats, tyname: &str) -> R {
    let n = cs.below(201);
    run_ops_n::<T>(cs, st, tyname, n, 0, 1)
}

/// `n` operations over an alphabet (`wide`, 0 = default); every token is looked up again every
/// `sweep` steps and at the end (the newest token after every step)
fn run_ops_n<T: Val>(cs: &mut Cs, st: &mut Stats, tyname: &str, n: usize, wide: usize, sweep: usize) -> R {
    // both constructors
    let mut s: Storage<T> = if n % 2 == 0 { Storage::new() } else { Storage::default() };
    let mut model: Vec<T> = vec![];
    let mut tokens: Vec<Token<T>> = vec![];
    let mut log = vec![];
    let mut fetched_existing = 0;
    for step in 0..n {
        let v = T::gen(cs, step as u32, wide);
        let fetch = cs.bool();
        let t = if fetch {
            no_panic("Storage::fetch_or_append", || s.fetch_or_append(v.clone()))?
        } else {
            no_panic("Storage::append", || s.append(v.clone()))?
        };
        log.push(format!("{}({:?}) -> {}", if fetch { "fetch_or_append" } else { "append" }, v, t.index()));
        let fail = |clause: &str, msg: String| Fail::new(clause, tyname.to_string(), msg).with_decoded(log.join("\n"));
        let first_equal = if fetch { model.iter().position(|m| *m == v) } else { None };
        match first_equal {
            Some(i) => {
                fetched_existing += 1;
                if t.index() as usize != i {
                    return Err(fail("fetch-first-equal", format!("fetch_or_append returned token {} but the first equal stored value has index {}", t.index(), i)));
                }
            }
            None => {
                if t.index() as usize != model.len() {
                    return Err(fail("dense-index", format!("appended value got index {} but {} values were stored before", t.index(), model.len())));
                }
                if tokens.iter().any(|o| o.index() == t.index()) {
                    return Err(fail("fresh-token", format!("token {} was returned before", t.index())));
                }
                model.push(v.clone());
                tokens.push(t);
            }
        }
        // every token ever returned still yields its value
        let from = if step % sweep == 0 || step + 1 == n { 0 } else { tokens.len().saturating_sub(1) };
        for (i, tk) in tokens.iter().enumerate().skip(from) {
            let got = no_panic("Storage index", || s[*tk].clone())?;
            if !got.same(&model[i]) {
                return Err(fail("stable-lookup", format!("lookup through token {} yields {:?}, appended value was {:?}", i, got, model[i])));
            }
        }
    }
    st.count(&format!("sequences_{}", tyname));
    if model.len() > 512 {
        st.count("sequences_storing_more_than_512_values");
    }
    if fetched_existing > 0 && n >= 4 {
        st.nontrivial(hash_str(&log.join(";")) ^ hash_str(tyname));
    }
    st.sample(|| format!("{}: {}", tyname, log.iter().take(12).cloned().collect::<Vec<_>>().join("; ")));
    Ok(())
}

fn sub_sequences(input: &[u8], st: &mut Stats) -> R {
    let mut cs = Cs::new(input);
    match cs.below(3) {
        0 => run_ops::<u8>(&mut cs, st, "u8"),
        1 => run_ops::<f64>(&mut cs, st, "f64-with-NaN"),
        _ => run_ops::<Keyed>(&mut cs, st, "key-equality"),
    }
}

/// medium and long sequences (300-3000 operations) over alphabets of 6 / 64 / 250 values, so that
/// equal values lie hundreds of positions apart
fn sub_long(input: &[u8], st: &mut Stats) -> R {
    let mut cs = Cs::new(input);
    let n = 300 + cs.below(2700);
    let wide = [6usize, 64, 250][cs.below(3)];
    match cs.below(3) {
        0 => run_ops_n::<u8>(&mut cs, st, "u8", n, wide, 97),
        1 => run_ops_n::<f64>(&mut cs, st, "f64-with-NaN", n, wide, 97),
        _ => run_ops_n::<Keyed>(&mut cs, st, "key-equality", n, wide, 97),
    }
}

#[derive(Clone, Debug, Default)]
struct Keyed32 {
    key: u32,
    payload: u32,
}
impl PartialEq for Keyed32 {
    fn eq(&self, o: &Keyed32) -> bool {
        self.key == o.key
    }
}

/// `huge-sequences`: 65 530 - 140 000 plain appends (keys cycling with a period below, around or
/// above 2^16, so that equal values lie up to more than 2^16 positions apart), then 60 - 200 mixed
/// operations probing old, recent and fresh keys, then one lookup through every token. The statement
/// has no size in it.
fn sub_huge(input: &[u8], st: &mut Stats) -> R {
    let mut cs = Cs::new(input);
    // one case in twenty-four stores more than 2^24 values (a token is one word: an implementation
    // may pack something else into it)
    let mega = cs.below(24) == 0;
    let n0 = if mega { (1 << 24) + 3 + cs.below(60) } else { cs.big_count() };
    let period = if mega { 251 } else { match cs.below(5) {
        0 => 250,
        1 => 65_536,
        2 => 65_535 + cs.below(3),
        3 => 66_000 + cs.below(4_000),
        _ => 1_000 + cs.below(64_000),
    } } as u32;
    let mut s: Storage<Keyed32> = Storage::new();
    let mut model: Vec<Keyed32> = Vec::with_capacity(n0 + 256);
    let mut first_of: std::collections::HashMap<u32, usize> = Default::default();
    let mut tokens: Vec<Token<Keyed32>> = Vec::with_capacity(n0 + 256);
    let what = format!("{} appends of keys i mod {}", n0, period);
    for i in 0..n0 {
        let v = Keyed32 { key: i as u32 % period, payload: i as u32 };
        let t = no_panic("Storage::append", || s.append(v.clone()))?;
        if t.index() as usize != i {
            return Err(Fail::new("dense-index", "huge", format!("append #{} returned index {}", i, t.index())).with_decoded(what));
        }
        first_of.entry(v.key).or_insert(i);
        model.push(v);
        tokens.push(t);
    }
    let mut log = vec![what];
    let probes = 60 + cs.below(141);
    let mut fetched_far = 0;
    for step in 0..probes {
        let key = match cs.below(8) {
            0 => 0,
            1 => cs.below(4) as u32,
            2 => period - 1 - cs.below(3).min(period as usize - 1) as u32,
            3 => (n0 as u32 - 1 - cs.below(4) as u32) % period,
            4 => (65_535 + cs.below(3) as u32) % period,
            5 => period + cs.below(4) as u32, // not stored by the bulk phase
            6 => cs.below(period as usize) as u32,
            _ => 1_000_000 + cs.below(3) as u32,
        };
        let v = Keyed32 { key, payload: (n0 + step) as u32 };
        let fetch = cs.below(4) != 0;
        let t = if fetch { no_panic("Storage::fetch_or_append", || s.fetch_or_append(v.clone()))? } else { no_panic("Storage::append", || s.append(v.clone()))? };
        log.push(format!("{}(key {}) -> {}", if fetch { "fetch_or_append" } else { "append" }, key, t.index()));
        let fail = |clause: &str, msg: String| Fail::new(clause, "huge".to_string(), msg).with_decoded(log.join("\n"));
        match (fetch, first_of.get(&key).copied()) {
            (true, Some(i)) => {
                if t.index() as usize != i {
                    return Err(fail("fetch-first-equal", format!("fetch_or_append returned token {} but the first equal stored value has index {} ({} values stored)", t.index(), i, model.len())));
                }
                if model.iter().skip(i + 65_536).any(|m| m.key == key) {
                    fetched_far += 1;
                }
            }
            _ => {
                if t.index() as usize != model.len() {
                    return Err(fail("dense-index", format!("appended value got index {} but {} values were stored before", t.index(), model.len())));
                }
                first_of.entry(key).or_insert(model.len());
                model.push(v);
                tokens.push(t);
            }
        }
        for i in [0usize, 1, 65_534, 65_535, 65_536, 65_537, 131_071, 131_072, (1 << 24) - 1, 1 << 24, (1 << 24) + 1, tokens.len() - 1] {
            if let Some(tk) = tokens.get(i) {
                let got = no_panic("Storage index", || s[*tk].clone())?;
                if got.key != model[i].key || got.payload != model[i].payload {
                    return Err(fail("stable-lookup", format!("lookup through token {} yields {:?}, appended value was {:?}", i, got, model[i])));
                }
            }
        }
    }
    for (i, tk) in tokens.iter().enumerate() {
        let got = no_panic("Storage index", || s[*tk].clone())?;
        if tk.index() as usize != i || got.key != model[i].key || got.payload != model[i].payload {
            return Err(Fail::new("stable-lookup", "huge", format!("lookup through token {} (index {}) yields {:?}, appended value was {:?}", i, tk.index(), got, model[i])).with_decoded(log.join("\n")));
        }
    }
    st.count("huge_sequences");
    if fetched_far > 0 {
        st.count("huge_sequences_fetching_a_value_stored_again_2^16_later");
        st.nontrivial(hash_str(&log.join(";")));
    }
    Ok(())
}

pub const SUBS: &[Sub] = &[Sub { name: "sequences", f: sub_sequences }, Sub { name: "long-sequences", f: sub_long }, Sub { name: "huge-sequences", f: sub_huge }];

pub fn run(ctx: &Ctx) {
    run_regress(ctx, SUBS);
    drive_random(ctx, &SUBS[0], ctx.n(40_000, 20_000_000), 700);
    drive_random(ctx, &SUBS[1], ctx.n(1_000, 400_000), 12_000);
    drive_random_costly(ctx, &SUBS[2], ctx.n(12, 3_000), 600);
}

pub fn finish(ctx: &Ctx) -> i32 {
    crate::engine::finish(
        ctx,
        Finish {
            rule: "sequences of 0-200 (and, in `long-sequences`, 300-3000 over alphabets of 6 / 64 / 250 values) append / fetch_or_append operations over three value types: u8 (many repeats), f64 with NaN (unequal to itself) and a key/payload struct whose equality compares the key only (so 'first equal' is observable through the payload). Oracle: Vec model: append returns index = previous length, a token never returned before; lookup through every token ever returned yields the modelled value after every step (bitwise / payload-wise); fetch_or_append returns the token of the first stored equal value, else appends. non-trivial = sequence of >= 4 operations in which fetch_or_append found an existing value; distinct = hash of the operation log. Added in rounds 18-19: huge-sequences (65 530 - 1 048 581 values, one case in 24 above 2^24).",
            assumptions: vec![],
            trusted_base: vec!["Vec model".into(), "proptest".into()],
        },
    )
}
