//! C19 — Storage tokens are stable handles to the appended values.

use crate::cs::Cs;
use crate::engine::*;
use rspirv::sr::storage::{Storage, Token};

#[derive(Clone, Debug)]
struct Keyed {
    key: u8,
    payload: u32,
}
impl PartialEq for Keyed {
    fn eq(&self, o: &Keyed) -> bool {
        self.key == o.key
    }
}

trait Val: Clone + PartialEq + std::fmt::Debug {
    fn gen(cs: &mut Cs, serial: u32) -> Self;
    fn same(&self, o: &Self) -> bool;
}
impl Val for u8 {
    fn gen(cs: &mut Cs, _s: u32) -> u8 {
        cs.below(6) as u8
    }
    fn same(&self, o: &u8) -> bool {
        self == o
    }
}
impl Val for f64 {
    fn gen(cs: &mut Cs, _s: u32) -> f64 {
        match cs.below(6) {
            0 => f64::NAN,
            1 => 0.0,
            2 => -0.0,
            3 => 1.5,
            4 => f64::INFINITY,
            _ => cs.below(4) as f64,
        }
    }
    fn same(&self, o: &f64) -> bool {
        self.to_bits() == o.to_bits()
    }
}
impl Val for Keyed {
    fn gen(cs: &mut Cs, s: u32) -> Keyed {
        Keyed {
            key: cs.below(5) as u8,
            payload: s,
        }
    }
    fn same(&self, o: &Keyed) -> bool {
        self.key == o.key && self.payload == o.payload
    }
}

fn run_ops<T: Val>(cs: &mut Cs, st: &mut Stats, tyname: &str) -> R {
    let mut s: Storage<T> = Storage::new();
    let mut model: Vec<T> = vec![];
    let mut tokens: Vec<Token<T>> = vec![];
    let n = cs.below(201);
    let mut log = vec![];
    let mut fetched_existing = 0;
    for step in 0..n {
        let v = T::gen(cs, step as u32);
        let fetch = cs.bool();
        let t = if fetch {
            no_panic("Storage::fetch_or_append", || s.fetch_or_append(v.clone()))?
        } else {
            no_panic("Storage::append", || s.append(v.clone()))?
        };
        log.push(format!("{}({:?}) -> {}", if fetch { "fetch_or_append" } else { "append" }, v, t.index()));
        let fail = |clause: &str, msg: String| Fail::new(clause, tyname.to_string(), msg).with_decoded(log.join("\n"));
        let first_equal = if fetch { model.iter().position(|m| *m == v) } else { None };
        match first_equal {
            Some(i) => {
                fetched_existing += 1;
                if t.index() as usize != i {
                    return Err(fail("fetch-first-equal", format!("fetch_or_append returned token {} but the first equal stored value has index {}", t.index(), i)));
                }
            }
            None => {
                if t.index() as usize != model.len() {
                    return Err(fail("dense-index", format!("appended value got index {} but {} values were stored before", t.index(), model.len())));
                }
                if tokens.iter().any(|o| o.index() == t.index()) {
                    return Err(fail("fresh-token", format!("token {} was returned before", t.index())));
                }
                model.push(v.clone());
                tokens.push(t);
            }
        }
        // every token ever returned still yields its value
        for (i, tk) in tokens.iter().enumerate() {
            let got = no_panic("Storage index", || s[*tk].clone())?;
            if !got.same(&model[i]) {
                return Err(fail("stable-lookup", format!("lookup through token {} yields {:?}, appended value was {:?}", i, got, model[i])));
            }
        }
    }
    st.count(&format!("sequences_{}", tyname));
    if fetched_existing > 0 && n >= 4 {
        st.nontrivial(hash_str(&log.join(";")) ^ hash_str(tyname));
    }
    st.sample(|| format!("{}: {}", tyname, log.iter().take(12).cloned().collect::<Vec<_>>().join("; ")));
    Ok(())
}

fn sub_sequences(input: &[u8], st: &mut Stats) -> R {
    let mut cs = Cs::new(input);
    match cs.below(3) {
        0 => run_ops::<u8>(&mut cs, st, "u8"),
        1 => run_ops::<f64>(&mut cs, st, "f64-with-NaN"),
        _ => run_ops::<Keyed>(&mut cs, st, "key-equality"),
    }
}

pub const SUBS: &[Sub] = &[Sub { name: "sequences", f: sub_sequences }];

pub fn run(ctx: &Ctx) {
    run_regress(ctx, SUBS);
    drive_random(ctx, &SUBS[0], ctx.n(40_000, 20_000_000), 700);
}

pub fn finish(ctx: &Ctx) -> i32 {
    crate::engine::finish(
        ctx,
        Finish {
            rule: "sequences of 0-200 append / fetch_or_append operations over three value types: u8 (many repeats), f64 with NaN (unequal to itself) and a key/payload struct whose equality compares the key only (so 'first equal' is observable through the payload). Oracle: Vec model: append returns index = previous length, a token never returned before; lookup through every token ever returned yields the modelled value after every step (bitwise / payload-wise); fetch_or_append returns the token of the first stored equal value, else appends. non-trivial = sequence of >= 4 operations in which fetch_or_append found an existing value; distinct = hash of the operation log.",
            assumptions: vec![],
            trusted_base: vec!["Vec model".into(), "proptest".into()],
        },
    )
}
