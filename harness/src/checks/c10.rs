//! C10 — context-dependent literal widths follow the types declared earlier.

use crate::checks::c03;
use crate::cs::Cs;
use crate::engine::*;
use crate::model::*;
use crate::rs::*;
use rspirv::binary::Assemble;
use rspirv::dr::Operand;

#[derive(Clone, Debug)]
enum Item {
    TypeInt { id: u32, width: u32, sign: u32 },
    TypeFloat { id: u32, width: u32, enc: bool },
    /// result-producing instruction with result type (propagates the type)
    Value { op: u32, ty: u32, id: u32, extra: Vec<u32> },
    /// OpConstant / OpSpecConstant with `lit.len()` literal words
    Const { spec: bool, ty: u32, id: u32, lit: Vec<u32> },
    /// OpSwitch sel default (lit label)*
    Switch { sel: u32, default: u32, cases: Vec<(Vec<u32>, u32)> },
    Other(Vec<u32>),
}

impl Item {
    fn words(&self) -> Vec<u32> {
        let body: Vec<u32> = match self {
            Item::TypeInt { id, width, sign } => vec![OP_TYPE_INT, *id, *width, *sign],
            Item::TypeFloat { id, width, enc } => {
                let mut v = vec![OP_TYPE_FLOAT, *id, *width];
                if *enc {
                    v.push(0x7fff_ffff); // FPEncoding (only declared enumerant)
                }
                v
            }
            Item::Value { op, ty, id, extra } => {
                let mut v = vec![*op, *ty, *id];
                v.extend(extra);
                v
            }
            Item::Const { spec, ty, id, lit } => {
                let mut v = vec![if *spec { OP_SPEC_CONSTANT } else { OP_CONSTANT }, *ty, *id];
                v.extend(lit);
                v
            }
            Item::Switch { sel, default, cases } => {
                let mut v = vec![OP_SWITCH, *sel, *default];
                for (l, t) in cases {
                    v.extend(l);
                    v.push(*t);
                }
                v
            }
            Item::Other(w) => return w.clone(),
        };
        let mut w = body;
        w[0] |= (w.len() as u32) << 16;
        w
    }
}

struct History {
    items: Vec<Item>,
}

impl History {
    fn words(&self) -> Vec<u32> {
        let mut w = header_words((1, 5), 4096);
        for i in &self.items {
            w.extend(i.words());
        }
        w
    }
    fn render(&self) -> String {
        self.items.iter().map(|i| format!("{:?}", i)).collect::<Vec<_>>().join("\n")
    }
}

fn gen_history(cs: &mut Cs) -> History {
    let n = 2 + cs.below(14);
    gen_history_n(cs, n)
}

/// a history of `n` items (the independence check makes the first of its two histories large
/// now and then: dozens of tracked ids)
fn gen_history_n(cs: &mut Cs, n: usize) -> History {
    let mut items = vec![];
    let next = std::cell::Cell::new(1u32);
    let fresh = || {
        let v = next.get();
        next.set(v + 1);
        v
    };
    let mut types: Vec<u32> = vec![];
    let mut values: Vec<u32> = vec![];
    for _ in 0..n {
        match cs.below(12) {
            0 | 1 => {
                let id = fresh();
                let width = match cs.below(10) {
                    0 => 8,
                    1 => 16,
                    2 | 3 => 32,
                    4 | 5 => 64,
                    6 => 1,
                    7 => 24,
                    8 => 128,
                    _ => [48u32, 0, 65, 63][cs.below(4)],
                };
                items.push(Item::TypeInt { id, width, sign: cs.below(2) as u32 });
                types.push(id);
            }
            2 => {
                let id = fresh();
                let width = match cs.below(8) {
                    0 | 1 => 16,
                    2 | 3 => 32,
                    4 | 5 => 64,
                    6 => 8,
                    _ => 128,
                };
                items.push(Item::TypeFloat { id, width, enc: cs.below(4) == 0 });
                types.push(id);
            }
            3 | 4 => {
                // a value whose result type is a declared type, an earlier value (chain) or unknown
                let ty = if !types.is_empty() && cs.below(4) != 0 {
                    types[cs.below(types.len())]
                } else if !values.is_empty() && cs.bool() {
                    values[cs.below(values.len())]
                } else {
                    900 + cs.below(4) as u32
                };
                let id = fresh();
                let (op, extra) = match cs.below(4) {
                    0 => (1u32, vec![]),                 // OpUndef
                    1 => (59, vec![7]),                  // OpVariable Function
                    2 => (61, vec![cs.below(30) as u32]), // OpLoad
                    _ => (128, vec![cs.below(30) as u32, cs.below(30) as u32]), // OpIAdd
                };
                items.push(Item::Value { op, ty, id, extra });
                values.push(id);
            }
            5..=7 => {
                let ty = if !types.is_empty() && cs.below(6) != 0 {
                    types[cs.below(types.len())]
                } else if !values.is_empty() && cs.bool() {
                    values[cs.below(values.len())]
                } else {
                    // a type declared later or never
                    next.get() + cs.below(3) as u32
                };
                let id = fresh();
                let nl = 1 + cs.below(2);
                let lit: Vec<u32> = (0..nl).map(|_| cs.lit32()).collect();
                items.push(Item::Const { spec: cs.below(3) == 0, ty, id, lit });
                values.push(id);
            }
            8 | 9 => {
                let sel = if !values.is_empty() && cs.below(6) != 0 {
                    values[cs.below(values.len())]
                } else if !types.is_empty() && cs.bool() {
                    types[cs.below(types.len())]
                } else {
                    950
                };
                let ncases = cs.below(5);
                let wide = cs.bool();
                let cases = (0..ncases)
                    .map(|_| {
                        let l: Vec<u32> = if wide { vec![cs.lit32(), cs.lit32()] } else { vec![cs.lit32()] };
                        (l, cs.below(40) as u32)
                    })
                    .collect();
                items.push(Item::Switch { sel, default: cs.below(40) as u32, cases });
            }
            10 => items.push(Item::Other(vec![0x0001_0000])),
            _ => {
                // OpName of something: unrelated string instruction
                let mut w = vec![5u32, cs.below(20) as u32];
                w.extend(str_words(&cs.string()));
                w[0] |= (w.len() as u32) << 16;
                items.push(Item::Other(w));
            }
        }
    }
    History { items }
}

fn outcome(words: &[u32]) -> Result<String, Fail> {
    let (c, r) = parse_words_collect(words)?;
    Ok(format!("{:?} / {:?}", c.insts, r.map_err(|e| format!("{:?}", e))))
}

fn check_history(h: &History, st: &mut Stats) -> R {
    let words = h.words();
    let bytes = words_to_bytes(&words);
    let dec = || h.render();
    // R1 (which embeds R3) against the parser: verdict, delivered operands, error class and location
    c03::check_bytes(&bytes, st, &dec)?;
    // explicit width clauses on what was delivered
    let rp = ref_parse(&bytes);
    let (c, _r) = parse_words_collect(&words)?;
    let mut tc = TyCtx::new();
    let mut decl_at: std::collections::HashMap<u32, usize> = Default::default();
    let mut via_propagation: std::collections::HashSet<u32> = Default::default();
    let mut interesting = false;
    for (k, (ri, di)) in rp.insts.iter().zip(&c.insts).enumerate() {
        let opw = &bytes_to_words(&bytes[ri.start + 4..ri.start + ri.wc * 4])[(ri.rtype.is_some() as usize + ri.rid.is_some() as usize)..];
        let f = |clause: &str, msg: String| Fail::new(clause, ri.opname.clone(), msg).with_decoded(dec());
        match ri.opname.as_str() {
            "Constant" | "SpecConstant" => {
                let t = ri.rtype.unwrap();
                let want = tc.lit_words(t);
                let got = match di.operands.first() {
                    Some(Operand::LiteralBit32(v)) => (1usize, *v as u64),
                    Some(Operand::LiteralBit64(v)) => (2usize, *v),
                    o => return Err(f("literal-variant", format!("literal delivered as {:?}", o))),
                };
                if want != LitW::Words(got.0) {
                    return Err(f("literal-width", format!("Op{} of type %{} ({:?}): {} literal words consumed, the declarations demand {:?}", ri.opname, t, tc.map.get(&t), got.0, want)));
                }
                let expect_val = if got.0 == 1 { opw[0] as u64 } else { (opw[0] as u64) | ((opw[1] as u64) << 32) };
                if got.1 != expect_val {
                    return Err(f("literal-value", format!("literal words {:x?} delivered as {:#x} (low word first expected)", &opw[..got.0], got.1)));
                }
                st.count(&format!("consumer_{}_{:?}", ri.opname, tc.map.get(&t).map(|x| format!("{:?}", x)).unwrap_or_else(|| "unknown".into())));
                if let Some(d) = decl_at.get(&t) {
                    if k - d >= 2 || via_propagation.contains(&t) {
                        interesting = true;
                    }
                }
            }
            "Switch" => {
                let sel = opw[0];
                let want = tc.lit_words(sel);
                let lits: Vec<&Operand> = di.operands.iter().skip(2).step_by(2).collect();
                for l in &lits {
                    let n = match l {
                        Operand::LiteralBit32(_) => 1,
                        Operand::LiteralBit64(_) => 2,
                        o => return Err(f("literal-variant", format!("case literal delivered as {:?}", o))),
                    };
                    if want != LitW::Words(n) {
                        return Err(f("literal-width", format!("OpSwitch selector %{} ({:?}): case literal of {} words, the declarations demand {:?}", sel, tc.map.get(&sel), n, want)));
                    }
                }
                if !lits.is_empty() {
                    st.count(&format!("consumer_Switch_{}", tc.map.get(&sel).map(|x| format!("{:?}", x)).unwrap_or_else(|| "unknown".into())));
                    if via_propagation.contains(&sel) {
                        interesting = true;
                    }
                }
            }
            _ => {}
        }
        // the assembler emits the same number of words
        let asm = no_panic("Instruction::assemble", || di.assemble())?;
        if asm.len() != ri.wc {
            return Err(f("assemble-word-count", format!("parsed Op{} occupied {} words, assemble emits {}", ri.opname, ri.wc, asm.len())));
        }
        if asm.is_empty() || (asm[0] >> 16) as usize != asm.len() {
            return Err(f("assemble-word-count", format!("Op{}: assemble() emits {} words but declares {} in its first word", ri.opname, asm.len(), asm.first().map(|w| w >> 16).unwrap_or(0))));
        }
        let mut into = vec![];
        no_panic("Instruction::assemble_into", || di.assemble_into(&mut into))?;
        if into != asm {
            return Err(f("assemble-word-count", format!("Op{}: assemble() and assemble_into() differ: {:x?} vs {:x?}", ri.opname, asm, into)));
        }
        let before = ri.rid.map(|r| tc.map.contains_key(&r)).unwrap_or(false);
        tc.track(&ri.opname, ri.rtype, ri.rid, opw);
        if let Some(r) = ri.rid {
            if tc.map.contains_key(&r) && !before {
                decl_at.insert(r, k);
                if ri.opname != "TypeInt" && ri.opname != "TypeFloat" {
                    via_propagation.insert(r);
                }
            }
        }
    }
    if interesting {
        st.nontrivial(hash_words(&words));
    }
    st.sample(|| h.render());
    Ok(())
}

fn sub_histories(input: &[u8], st: &mut Stats) -> R {
    let mut cs = Cs::new(input);
    let h = gen_history(&mut cs);
    check_history(&h, st)
}

/// histories behind a module head that declares a coded half of everything tools know by name
/// (every capability, every extension name, every extended instruction set) and with texts of that
/// vocabulary in OpExtension / OpSourceExtension / OpName / OpString between the declarations: a
/// literal's width is decided by the type declarations alone
fn sub_vocabulary(input: &[u8], st: &mut Stats) -> R {
    let mut cs = Cs::new(input);
    let mut h = gen_history(&mut cs);
    let code = cs.below(64);
    let pre = crate::layout::vocabulary_prefix(code);
    // split the prefix into instructions
    let mut at = 0;
    let mut items = vec![];
    while at < pre.len() {
        let wc = (pre[at] >> 16) as usize;
        items.push(Item::Other(pre[at..at + wc].to_vec()));
        at += wc;
    }
    let texts = crate::vocab::texts();
    for _ in 0..cs.below(4) {
        let t = &texts[cs.below(texts.len())];
        let op = [10u32, 4, 5, 7, 330][cs.below(5)];
        let mut w = vec![op];
        if op == 5 || op == 7 {
            w.push(3000 + cs.below(8) as u32);
        }
        w.extend(str_words(t));
        w[0] |= (w.len() as u32) << 16;
        let pos = cs.below(h.items.len() + 1);
        h.items.insert(pos, Item::Other(w));
    }
    items.extend(h.items);
    h.items = items;
    st.count("vocabulary_histories");
    check_history(&h, st)
}

/// histories with a bijective renaming that sends one to three ids to the extreme values
/// 0 / 0x7fffffff / 0x80000000 / 0xffffffff (a type id or selector may legally be any word)
fn sub_edge_ids(input: &[u8], st: &mut Stats) -> R {
    let mut cs = Cs::new(input);
    let mut h = gen_history(&mut cs);
    let mut defined: Vec<u32> = vec![];
    for i in &h.items {
        match i {
            Item::TypeInt { id, .. } | Item::TypeFloat { id, .. } | Item::Value { id, .. } | Item::Const { id, .. } => defined.push(*id),
            _ => {}
        }
    }
    if defined.is_empty() {
        return Ok(());
    }
    const EDGE: [u32; 18] = [0, u32::MAX, 0x8000_0000, 0x7fff_ffff, 65_535, 65_536, 65_537, 131_071, 131_072, 0x00ff_ffff, 0x0100_0000, 0x0040_0000, 999_999, 1_000_000, 1_000_001, 100_000, 10_000_000, 1_000_000_000];
    let mut map: Vec<(u32, u32)> = vec![];
    let n = 1 + cs.below(3);
    for _ in 0..n {
        let from = defined[cs.below(defined.len())];
        let to = EDGE[cs.below(EDGE.len())];
        if !map.iter().any(|(f, t)| *f == from || *t == to) {
            map.push((from, to));
        }
    }
    let r = |x: &mut u32| {
        if let Some((_, t)) = map.iter().find(|(f, _)| *f == *x) {
            *x = *t;
        }
    };
    for i in h.items.iter_mut() {
        match i {
            Item::TypeInt { id, .. } | Item::TypeFloat { id, .. } => r(id),
            Item::Value { ty, id, .. } | Item::Const { ty, id, .. } => {
                r(ty);
                r(id);
            }
            Item::Switch { sel, .. } => r(sel),
            Item::Other(_) => {}
        }
    }
    for (_, t) in &map {
        st.count(&format!("edge_id_{:#x}", t));
    }
    check_history(&h, st)
}

/// histories in which type ids are declared more than once (invalid SPIR-V, but "any binary"):
/// (1) the parser must follow one consistent reading - the latest preceding declaration or
/// the first one - for the whole binary; (2) metamorphic: inserting an unrelated value
/// definition (not a type declaration, not the defining instruction of any selector) changes
/// no consumer's outcome.
fn sub_redeclared(input: &[u8], st: &mut Stats) -> R {
    let mut cs = Cs::new(input);
    let mut h = gen_history(&mut cs);
    let type_pos: Vec<usize> = h.items.iter().enumerate().filter(|(_, i)| matches!(i, Item::TypeInt { .. } | Item::TypeFloat { .. })).map(|(k, _)| k).collect();
    let mut redeclared = 0;
    if type_pos.len() >= 2 {
        let n = 1 + cs.below(2);
        for _ in 0..n {
            let a = type_pos[cs.below(type_pos.len())];
            let b = type_pos[cs.below(type_pos.len())];
            if a == b {
                continue;
            }
            let target = match &h.items[a] {
                Item::TypeInt { id, .. } | Item::TypeFloat { id, .. } => *id,
                _ => unreachable!(),
            };
            match &mut h.items[b] {
                Item::TypeInt { id, .. } | Item::TypeFloat { id, .. } => *id = target,
                _ => unreachable!(),
            }
            redeclared += 1;
        }
    }
    // extra declarations of an existing type id with another width, next to value definitions
    if !type_pos.is_empty() && cs.bool() {
        let a = type_pos[cs.below(type_pos.len())];
        let target = match &h.items[a] {
            Item::TypeInt { id, .. } | Item::TypeFloat { id, .. } => *id,
            _ => unreachable!(),
        };
        let at = cs.below(h.items.len() + 1);
        let width = [8u32, 16, 32, 64, 64, 128][cs.below(6)];
        h.items.insert(at, if cs.bool() { Item::TypeInt { id: target, width, sign: 0 } } else { Item::TypeFloat { id: target, width: width.max(16), enc: false } });
        redeclared += 1;
    }
    if redeclared > 0 {
        st.count("histories_with_redeclared_type_id");
    }
    let words = h.words();
    let bytes = words_to_bytes(&words);
    let dec = || h.render();
    // (1) one consistent reading
    let latest = c03::check_bytes(&bytes, &mut Stats::new(), &dec);
    match latest {
        Ok(_) => {
            c03::check_bytes(&bytes, st, &dec)?;
        }
        Err(f) => {
            let first = with_first_wins(|| c03::check_bytes(&bytes, &mut Stats::new(), &dec));
            if first.is_err() {
                return Err(f);
            }
            st.count("consistent_with_first_declaration_wins_only");
        }
    }
    // (2) insertion of an unrelated value definition
    let base = outcome_consumers(&words)?;
    let at = cs.below(h.items.len() + 1);
    let ty = match cs.below(3) {
        0 => 3000 + cs.below(4) as u32,
        _ => h.items.iter().filter_map(|i| match i {
            Item::TypeInt { id, .. } | Item::TypeFloat { id, .. } => Some(*id),
            _ => None,
        }).nth(cs.below(4)).unwrap_or(3000),
    };
    let mut h2 = History { items: h.items.clone() };
    h2.items.insert(at, Item::Value { op: 1, ty, id: 4000, extra: vec![] });
    let with = outcome_consumers(&h2.words())?;
    if base != with {
        return Err(Fail::new(
            "unrelated-instruction-changes-width",
            "Undef",
            format!("inserting `%4000 = OpUndef %{}` at position {} changes what the literal consumers deliver: {:?} vs {:?}", ty, at, base, with),
        )
        .with_decoded(h.render()));
    }
    if redeclared > 0 {
        st.nontrivial(hash_words(&words));
    }
    Ok(())
}

/// what the parser delivers for the literal consumers (and how the parse ends, without position)
fn outcome_consumers(words: &[u32]) -> Result<(Vec<String>, String), Fail> {
    let (c, r) = parse_words_collect(words)?;
    let v = c
        .insts
        .iter()
        .filter(|i| matches!(i.class.opname, "Constant" | "SpecConstant" | "Switch"))
        .map(show_inst)
        .collect();
    let end = match r {
        Ok(()) => "ok".to_string(),
        Err(e) => state_name(&e),
    };
    Ok((v, end))
}

/// histories with function and block delimiters scattered through them: consumers sit in later
/// functions, types and typed values are declared at module scope or inside earlier function
/// bodies (the statement knows no scopes: only what precedes in the binary counts)
fn sub_structured(input: &[u8], st: &mut Stats) -> R {
    let mut cs = Cs::new(input);
    let mut h = gen_history(&mut cs);
    let tys: Vec<u32> = h.items.iter().filter_map(|i| match i {
        Item::TypeInt { id, .. } | Item::TypeFloat { id, .. } => Some(*id),
        _ => None,
    }).collect();
    let n = 1 + cs.below(6);
    for k in 0..n {
        let ty = if !tys.is_empty() && cs.bool() { tys[cs.below(tys.len())] } else { 2900 + cs.below(4) as u32 };
        let it = match cs.below(7) {
            0 | 1 => Item::Value { op: 54, ty, id: 5000 + k as u32, extra: vec![0, 2999] }, // OpFunction
            2 | 3 => Item::Other(vec![0x0001_0038]),                                        // OpFunctionEnd
            4 => Item::Other(vec![0x0002_00f8, 5100 + k as u32]),                           // OpLabel
            5 => Item::Other(vec![0x0001_00fd]),                                            // OpReturn
            _ => Item::Value { op: 55, ty, id: 5200 + k as u32, extra: vec![] },            // OpFunctionParameter
        };
        let at = cs.below(h.items.len() + 1);
        h.items.insert(at, it);
    }
    st.count("structured_histories");
    check_history(&h, st)
}

/// A history in which the *counts* the tracker keeps cross 2^16 (and 2^17): a run of 65 530 - 135 000
/// declarations - pairwise different scalar type shapes, types of one shape, typed values, or
/// untracked instructions - placed before, between or after a dense probe: supported types declared
/// before and after the run, typed values at module scope, as function parameters and inside a
/// function body, and then every consumer (OpConstant, OpSpecConstant, OpSwitch in a later function)
/// of every one of them, each encoded with the width its declaration demands. "For all binaries"
/// includes the large ones; nothing in the statement lets the answer depend on how much was declared.
pub fn gen_bulk(cs: &mut Cs) -> (Vec<u32>, String) {
    let n = cs.big_count();
    let kind = cs.below(6);
    let bulk_base: u32 = [1_000u32, 20_000, 65_000, 200_000, 0x0100_0000][cs.below(5)];
    let next = std::cell::Cell::new(1u32);
    let fresh = || {
        let v = next.get();
        next.set(v + 1);
        v
    };
    // (type id, literal words) of supported types
    let mut tys: Vec<(u32, usize)> = vec![];
    let decl = |items: &mut Vec<Item>, tys: &mut Vec<(u32, usize)>, cs: &mut Cs, k: usize| {
        for _ in 0..k {
            let id = fresh();
            match cs.below(7) {
                0 | 1 => { items.push(Item::TypeInt { id, width: 32, sign: cs.below(2) as u32 }); tys.push((id, 1)); }
                2 | 3 => { items.push(Item::TypeInt { id, width: 64, sign: cs.below(2) as u32 }); tys.push((id, 2)); }
                4 => { items.push(Item::TypeFloat { id, width: 64, enc: false }); tys.push((id, 2)); }
                5 => { items.push(Item::TypeFloat { id, width: [16u32, 32][cs.below(2)], enc: false }); tys.push((id, 1)); }
                _ => { items.push(Item::TypeInt { id, width: [8u32, 16][cs.below(2)], sign: 0 }); tys.push((id, 1)); }
            }
        }
    };
    let chain_width: std::cell::Cell<Option<usize>> = std::cell::Cell::new(None);
    let bulk = |items: &mut Vec<Item>, tys: &[(u32, usize)], cs: &mut Cs| {
        let t0 = tys.first().map(|t| t.0).unwrap_or(900);
        let t1e = tys.get(cs.below(tys.len().max(1))).copied();
        let t1 = t1e.map(|t| t.0).unwrap_or(901);
        chain_width.set(t1e.map(|t| t.1));
        for i in 0..n as u32 {
            let id = bulk_base + i;
            items.push(match kind {
                0 => Item::TypeInt { id, width: 100 + i, sign: 0 },
                1 => Item::TypeInt { id, width: 32, sign: 1 },
                2 => Item::Value { op: 1, ty: if i % 2 == 0 { t0 } else { t1 }, id, extra: vec![] },
                3 => if i % 3 == 0 { Item::TypeFloat { id, width: 200 + i, enc: false } } else { Item::Value { op: 1, ty: t1, id, extra: vec![] } },
                // a chain: every value is typed by the previous one (propagation depth = run length)
                5 => Item::Value { op: 1, ty: if i == 0 { t1 } else { id - 1 }, id, extra: vec![] },
                _ => Item::Other(vec![0x0001_0000]),
            });
        }
    };
    let mut items: Vec<Item> = vec![];
    let place = cs.below(5);
    if place == 0 {
        bulk(&mut items, &tys, cs);
    }
    let k = 1 + cs.below(3);
    decl(&mut items, &mut tys, cs, k);
    if place == 1 {
        bulk(&mut items, &tys, cs);
    }
    let k = 1 + cs.below(3);
    decl(&mut items, &mut tys, cs, k);
    // typed values at module scope
    let mut vals: Vec<(u32, usize)> = vec![];
    for &(t, w) in &tys.clone() {
        if cs.bool() {
            let id = fresh();
            items.push(Item::Value { op: 1, ty: t, id, extra: vec![] });
            vals.push((id, w));
        }
    }
    if place == 2 {
        bulk(&mut items, &tys, cs);
    }
    // a function: parameters and body values of every type
    let fid = fresh();
    items.push(Item::Value { op: 54, ty: tys[cs.below(tys.len())].0, id: fid, extra: vec![0, 2999] });
    for &(t, w) in &tys.clone() {
        if cs.bool() {
            let id = fresh();
            items.push(Item::Value { op: 55, ty: t, id, extra: vec![] });
            vals.push((id, w));
        }
    }
    items.push(Item::Other(vec![0x0002_00f8, fresh()]));
    for &(t, w) in &tys.clone() {
        let id = fresh();
        let op = [(1u32, vec![]), (61, vec![7]), (128, vec![3, 4])][cs.below(3)].clone();
        items.push(Item::Value { op: op.0, ty: t, id, extra: op.1 });
        vals.push((id, w));
    }
    if place == 3 {
        bulk(&mut items, &tys, cs);
    }
    // a value typed by a value (propagation chain)
    if let Some(&(v, w)) = vals.get(cs.below(vals.len().max(1))) {
        let id = fresh();
        items.push(Item::Value { op: 1, ty: v, id, extra: vec![] });
        vals.push((id, w));
    }
    items.push(Item::Other(vec![0x0001_00fd]));
    items.push(Item::Other(vec![0x0001_0038]));
    if place == 4 {
        bulk(&mut items, &tys, cs);
    }
    if kind == 5 {
        // the end of the chain and a few links inside it are consumed as well; their width is the
        // width of the type the chain started from (t1 at the time the run was placed)
        if let Some(w) = chain_width.get() {
            for k in [n as u32 - 1, n as u32 / 2, 1, 65_535, 65_536] {
                if (k as usize) < n {
                    vals.push((bulk_base + k, w));
                }
            }
        }
    }
    // consumers: constants of every type and of a few values, then switches in a later function
    let lit = |cs: &mut Cs, w: usize| -> Vec<u32> { (0..w).map(|_| cs.lit32()).collect() };
    for &(t, w) in &tys.clone() {
        let id = fresh();
        items.push(Item::Const { spec: cs.below(3) == 0, ty: t, id, lit: lit(cs, w) });
        vals.push((id, w));
    }
    for _ in 0..cs.below(4) {
        let (v, w) = vals[cs.below(vals.len())];
        let id = fresh();
        items.push(Item::Const { spec: cs.bool(), ty: v, id, lit: lit(cs, w) });
    }
    items.push(Item::Value { op: 54, ty: tys[0].0, id: fresh(), extra: vec![0, 2999] });
    items.push(Item::Other(vec![0x0002_00f8, fresh()]));
    for &(v, w) in &vals.clone() {
        if cs.below(3) != 0 {
            let nc = 1 + cs.below(3);
            let cases = (0..nc).map(|_| (lit(cs, w), cs.below(40) as u32)).collect();
            items.push(Item::Switch { sel: v, default: cs.below(40) as u32, cases });
        }
    }
    items.push(Item::Other(vec![0x0001_0038]));
    let h = History { items };
    let small: Vec<String> = h.items.iter().filter(|i| !matches!(i, Item::TypeInt { id, .. } | Item::TypeFloat { id, .. } | Item::Value { id, .. } if *id >= bulk_base && *id < bulk_base + n as u32) && !matches!(i, Item::Other(w) if w == &vec![0x0001_0000u32])).map(|i| format!("{:?}", i)).collect();
    let mut w = h.words();
    w[3] = 0x0200_0000;
    (w, format!("bulk run: {} items of kind {} (0 = pairwise different int widths 100+i, 1 = identical 32-bit int types, 2 = OpUndef values of the first/another declared type, 3 = mixed float types and values, 4 = OpNop, 5 = a chain of values each typed by the previous one), ids {}.., placed at stage {} (0 = first, 1 = between the type groups, 2 = after the module-scope values, 3 = inside the first function body, 4 = after the first function)\nthe other instructions in order:\n{}", n, kind, bulk_base, place, small.join("\n")))
}

fn sub_bulk(input: &[u8], st: &mut Stats) -> R {
    let mut cs = Cs::new(input);
    let (words, desc) = gen_bulk(&mut cs);
    let bytes = words_to_bytes(&words);
    let dec = || desc.clone();
    let v = c03::check_bytes(&bytes, st, &dec)?;
    if !v.accepted {
        // by construction every literal has the width its declaration demands
        st.count("bulk_histories_rejected_by_both");
        return Ok(());
    }
    st.count("bulk_histories");
    st.nontrivial(hash_words(&words[words.len().saturating_sub(400)..]) ^ words.len() as u64);
    Ok(())
}

/// the decision depends only on the current parse: B after A == B alone; A twice equal
fn sub_independence(input: &[u8], st: &mut Stats) -> R {
    let mut cs = Cs::new(input);
    let a = if cs.below(3) == 0 {
        let n = 40 + cs.below(120);
        gen_history_n(&mut cs, n)
    } else {
        gen_history(&mut cs)
    };
    let b = gen_history(&mut cs);
    let (wa, wb) = (a.words(), b.words());
    let alone = std::thread::scope(|s| s.spawn(|| outcome(&wb)).join().unwrap())?;
    let a1 = outcome(&wa)?;
    let after = outcome(&wb)?;
    let a2 = outcome(&wa)?;
    if alone != after {
        return Err(Fail::new("parse-independence", "B-after-A", "parsing B after A differs from parsing B alone in a fresh thread".to_string()).with_decoded(format!("A:\n{}\nB:\n{}", a.render(), b.render())));
    }
    if a1 != a2 {
        return Err(Fail::new("parse-independence", "A-twice", "parsing A twice gives different results".to_string()).with_decoded(a.render()));
    }
    st.nontrivial(hash_words(&wa) ^ hash_words(&wb).rotate_left(17));
    Ok(())
}

/// systematic: every (kind, width) x consumer x (1 or 2 literal words) x distance
fn sub_grid(input: &[u8], st: &mut Stats) -> R {
    let i = idx(input);
    let widths = [8u32, 16, 32, 64, 1, 24, 48, 128, 0];
    let w = widths[(i % 9) as usize];
    let is_int = (i / 9) % 2 == 0;
    let sign = ((i / 18) % 2) as u32;
    let consumer = (i / 36) % 3; // Constant, SpecConstant, Switch
    let nl = 1 + ((i / 108) % 2) as usize;
    let depth = ((i / 216) % 3) as usize;
    let gap = ((i / 648) % 3) as usize;
    let mut items = vec![];
    if is_int {
        items.push(Item::TypeInt { id: 1, width: w, sign });
    } else {
        items.push(Item::TypeFloat { id: 1, width: w, enc: sign == 1 });
    }
    for _ in 0..gap {
        items.push(Item::Other(vec![0x0001_0000]));
    }
    let mut ty = 1u32;
    for d in 0..depth {
        let id = 10 + d as u32;
        items.push(Item::Value { op: 1, ty, id, extra: vec![] });
        ty = id;
    }
    let lit: Vec<u32> = (0..nl).map(|k| 0x1111_1111u32.wrapping_mul(k as u32 + 1)).collect();
    match consumer {
        0 => items.push(Item::Const { spec: false, ty, id: 50, lit }),
        1 => items.push(Item::Const { spec: true, ty, id: 50, lit }),
        _ => {
            if depth == 0 {
                // a selector needs a value: define one
                items.push(Item::Value { op: 1, ty: 1, id: 40, extra: vec![] });
                ty = 40;
            }
            items.push(Item::Switch { sel: ty, default: 60, cases: vec![(lit.clone(), 61), (lit, 62)] });
        }
    }
    items.push(Item::Other(vec![0x0001_0000]));
    let h = History { items };
    check_history(&h, st)
}

pub const SUBS: &[Sub] = &[
    Sub { name: "grid", f: sub_grid },
    Sub { name: "histories", f: sub_histories },
    Sub { name: "independence", f: sub_independence },
    Sub { name: "edge-ids", f: sub_edge_ids },
    Sub { name: "redeclared-ids", f: sub_redeclared },
    Sub { name: "structured-histories", f: sub_structured },
    Sub { name: "bulk-histories", f: sub_bulk },
    Sub { name: "vocabulary-histories", f: sub_vocabulary },
];

pub fn run(ctx: &Ctx) {
    run_regress(ctx, SUBS);
    drive_enum(ctx, &SUBS[0], 9 * 2 * 2 * 3 * 2 * 3 * 3);
    drive_random(ctx, &SUBS[1], ctx.n(60_000, 30_000_000), 600);
    drive_random(ctx, &SUBS[2], ctx.n(2_000, 300_000), 3000);
    drive_random(ctx, &SUBS[3], ctx.n(20_000, 10_000_000), 600);
    drive_random(ctx, &SUBS[4], ctx.n(20_000, 10_000_000), 600);
    drive_random(ctx, &SUBS[5], ctx.n(20_000, 10_000_000), 640);
    drive_random_costly(ctx, &SUBS[6], ctx.n(12, 3_000), 400);
    drive_random(ctx, &SUBS[7], ctx.n(6_000, 2_000_000), 600);
}

pub fn finish(ctx: &Ctx) -> i32 {
    crate::engine::finish(
        ctx,
        Finish {
            rule: "cases: (a) complete grid: {int,float} x widths {8,16,32,64,1,24,48,128,0} x signedness x consumer {OpConstant, OpSpecConstant, OpSwitch with 2 cases} x {1,2} literal words x propagation depth 0-2 x distance 0-2; (b) random histories of 2-15 instructions interleaving OpTypeInt/OpTypeFloat (supported and unsupported widths), typed values (OpUndef/OpVariable/OpLoad/OpIAdd chains), consumers placed before/after their declarations, each encoded with 1 or 2 literal words, and unrelated instructions; ids defined once; (b') the same histories under a bijective id renaming that sends 1-3 defined ids to 0 / 0x7fffffff / 0x80000000 / 0xffffffff; (b'') histories in which type ids are declared more than once: the parser must follow one consistent reading for the whole binary (latest preceding declaration, or first), and inserting an unrelated OpUndef anywhere must not change what any consumer delivers; (b''') histories with OpFunction / OpFunctionParameter / OpLabel / OpReturn / OpFunctionEnd scattered through them (consumers in later functions, declarations at module scope or in earlier function bodies); (c) pairs (A, B) - A one time in three a large history of 40-160 instructions (dozens of tracked ids) -: B after A in the same thread vs B alone in a fresh thread, A twice. Oracle: model R3 (inside reference parser R1): words consumed / TypeUnsupported / accept-or-reject of each consumer, delivered variant LiteralBit32 vs LiteralBit64 with value = low | high<<32, assemble emits the input's word count, outcomes independent of earlier parses. non-trivial = consumer whose type was declared >= 2 instructions earlier or reaches it through >= 1 propagation step (independence: every pair); distinct = hash of the words. Added in rounds 18-19: edge-ids at powers of two and ten; bulk-histories (up to 10^6 declarations, chains of values typed by values) and vocabulary-histories (module head declaring a coded half of every capability / extension / set).",
            assumptions: vec!["ids are defined once except in `redeclared-ids`, where the statement leaves open which declaration decides and both consistent readings are accepted".into()],
            trusted_base: vec!["width model R3".into(), "reference parser R1".into()],
        },
    )
}
