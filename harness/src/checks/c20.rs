//! C20 — rspirv-dis prints the library disassembly or an error and never crashes.

use crate::cs::Cs;
use crate::engine::*;
use crate::layout::*;
use crate::model::*;
use rspirv::binary::Disassemble;
use std::path::PathBuf;
use std::process::Command;

fn dis_binary() -> PathBuf {
    if let Ok(p) = std::env::var("VERIF_DIS_BIN") {
        return PathBuf::from(p);
    }
    verif_root().join("target/dis/release/rspirv-dis")
}

fn tmp_dir() -> PathBuf {
    verif_root().join("target/c20-tmp").join(format!("{}", std::process::id()))
}

fn tmp_file() -> PathBuf {
    let dir = tmp_dir();
    let _ = std::fs::create_dir_all(&dir);
    let tid = format!("{:?}", std::thread::current().id());
    let tid: String = tid.chars().filter(|c| c.is_ascii_digit()).collect();
    dir.join(format!("in-{}-{}.spv", std::process::id(), tid))
}

pub fn check_file(bytes: &[u8], st: &mut Stats, what: &dyn Fn() -> String) -> R {
    let bin = dis_binary();
    if !bin.exists() {
        eprintln!("rspirv-dis binary missing at {} (run ./check.sh C20)", bin.display());
        std::process::exit(2);
    }
    let path = tmp_file();
    if let Err(e) = std::fs::write(&path, bytes) {
        eprintln!("cannot write {}: {}", path.display(), e);
        std::process::exit(2);
    }
    let out = match Command::new(&bin).arg(&path).output() {
        Ok(o) => o,
        Err(e) => {
            eprintln!("cannot run {}: {}", bin.display(), e);
            std::process::exit(2);
        }
    };
    let dec = || format!("{}\nfile bytes({}): {}", what(), bytes.len(), show_words(&bytes_to_words(bytes)));
    let stderr = String::from_utf8_lossy(&out.stderr).to_string();
    if !out.status.success() || stderr.contains("panicked") {
        let first = stderr.lines().find(|l| l.contains("panicked")).unwrap_or("").to_string();
        let site = first.split(" at ").nth(1).unwrap_or("").split(':').next().unwrap_or("").to_string();
        return Err(Fail::new(
            "cli-crash",
            format!("status={:?}:{}", out.status.code(), site),
            format!("rspirv-dis exited with {:?}; stderr: {}", out.status.code(), stderr.lines().take(3).collect::<Vec<_>>().join(" | ")),
        )
        .with_decoded(dec()));
    }
    // expected stdout computed in-process
    let lib = no_panic("load_bytes + disassemble", || match rspirv::dr::load_bytes(crate::rs::Shifted::new(bytes).bytes()) {
        Ok(m) => (true, format!("{}\n", m.disassemble())),
        Err(e) => (false, format!("{}\n", e)),
    })
    .map_err(|f| f.with_decoded(dec()))?;
    let stdout = String::from_utf8_lossy(&out.stdout).to_string();
    if stdout != lib.1 {
        return Err(Fail::new(
            "cli-output",
            if lib.0 { "disassembly" } else { "error-message" },
            format!("rspirv-dis printed {:?}, the library gives {:?}", truncate(&stdout), truncate(&lib.1)),
        )
        .with_decoded(dec()));
    }
    if !lib.0 && lib.1.trim_end_matches('\n').contains('\n') {
        return Err(Fail::new("error-one-line", "multi-line", format!("loading error is not a one-line message: {:?}", lib.1)).with_decoded(dec()));
    }
    if lib.0 {
        st.count("files_disassembled");
    } else {
        st.count("files_error_message");
    }
    if bytes.len() > 24 {
        st.nontrivial(hash64(bytes));
    }
    Ok(())
}

fn truncate(s: &str) -> String {
    if s.len() > 300 {
        let mut e = 300;
        while !s.is_char_boundary(e) {
            e -= 1;
        }
        format!("{}...", &s[..e])
    } else {
        s.to_string()
    }
}

fn sub_files(input: &[u8], st: &mut Stats) -> R {
    let mut cs = Cs::new(input);
    match cs.below(10) {
        0 => {
            // raw bytes
            let n = cs.below(64);
            let b: Vec<u8> = (0..n).map(|_| cs.u8()).collect();
            check_file(&b, st, &|| "raw bytes".into())
        }
        1 => {
            // short files 0..=19 bytes of a valid header
            let w = header_words((1, 0), 7);
            let mut b = words_to_bytes(&w);
            b.truncate(cs.below(20));
            check_file(&b, st, &|| "short header".into())
        }
        2 => {
            // magic + junk
            let mut b = words_to_bytes(&header_words((1, 3), 9));
            let n = cs.below(80);
            for _ in 0..n {
                b.push(match cs.below(3) {
                    0 => 0,
                    1 => cs.below(8) as u8,
                    _ => cs.u8(),
                });
            }
            check_file(&b, st, &|| "header + junk".into())
        }
        _ => {
            let mode = match cs.below(3) {
                0 => ModMode::Ordered,
                1 => ModMode::Interleaved,
                _ => ModMode::Wild,
            };
            let m = gen_module(&mut cs, mode, 30);
            let (bytes, kinds) = if cs.bool() { mutate(&mut cs, &m) } else { (words_to_bytes(&m.words()), vec![]) };
            for k in &kinds {
                st.count(&format!("mutation_{}", k));
            }
            check_file(&bytes, st, &|| format!("{}mutations {:?}", m.render(), kinds))?;
            st.sample(|| format!("module of {} instructions ({:?}), mutations {:?}, {} bytes", m.plans.len(), mode, kinds, bytes.len()));
            Ok(())
        }
    }
}

/// Success path with outputs of awkward sizes: the long line is the last one (modules without
/// functions), sits in the middle, or is followed by a function; line lengths sweep the
/// neighbourhood of every power of two from 256 to 64 Ki (stdout buffer sizes).
const SHAPE_BASES: [usize; 9] = [256, 512, 1024, 2048, 4096, 8192, 16384, 32768, 65536];
const SHAPE_OFFS: usize = 60; // length = base - 48 + off
const SHAPE_KINDS: usize = 5;
fn sub_output_shapes(input: &[u8], st: &mut Stats) -> R {
    let k = idx(input) as usize;
    if k >= SHAPE_BASES.len() * SHAPE_OFFS * SHAPE_KINDS {
        return Ok(());
    }
    let kind = k % SHAPE_KINDS;
    let r = k / SHAPE_KINDS;
    let len = SHAPE_BASES[r / SHAPE_OFFS] - 48 + r % SHAPE_OFFS;
    let mut w = header_words((1, 5), 1000);
    w.extend([0x0002_0011, 1]); // OpCapability Shader
    let with_str = |opc: u32, pre: &[u32], n: usize| -> Vec<u32> {
        let mut v = vec![opc];
        v.extend_from_slice(pre);
        let s: String = (0..n).map(|i| (b'a' + (i % 26) as u8) as char).collect();
        v.extend(str_words(&s));
        v[0] |= (v.len() as u32) << 16;
        v
    };
    match kind {
        0 => w.extend(with_str(7, &[1], len)), // %1 = OpString "..." as the last line
        1 => w.extend(with_str(330, &[], len)), // OpModuleProcessed "..." as the last line
        2 => {
            // %1 = OpTypeStruct %2 %2 ... as the last line (3 characters per member)
            let n = (len / 3).min(65000);
            let mut v = vec![30u32, 1];
            v.extend(std::iter::repeat(2).take(n));
            v[0] |= (v.len() as u32) << 16;
            w.extend(v);
        }
        3 => {
            // long line in the middle, short last line
            w.extend(with_str(7, &[1], len));
            w.extend(with_str(5, &[1], 3)); // OpName %1 "abc"
        }
        _ => {
            // long line followed by a function with a body
            w.extend(with_str(7, &[1], len));
            w.extend([0x0002_0013, 2]); // %2 = OpTypeVoid
            w.extend([0x0003_0021, 3, 2]); // %3 = OpTypeFunction %2
            w.extend([0x0005_0036, 2, 4, 0, 3, 0x0002_00f8, 5, 0x0001_00fd, 0x0001_0038]);
        }
    }
    let bytes = words_to_bytes(&w);
    let before = st.counters.get("files_disassembled").copied().unwrap_or(0);
    check_file(&bytes, st, &|| format!("output shape kind {} with a line of about {} bytes", kind, len))?;
    if st.counters.get("files_disassembled").copied().unwrap_or(0) == before {
        return Err(Fail::new("harness", "output-shape-not-loadable", format!("shape kind {} len {} is not loadable", kind, len)));
    }
    st.count(&format!("shape_kind_{}", kind));
    Ok(())
}

/// loadable-but-odd modules: type declarations, constants and switches over a tiny id pool
/// (forward references, ids declared twice, constants before their types), where the
/// disassembler's whole-module view of the types differs from the parser's
fn sub_chaos(input: &[u8], st: &mut Stats) -> R {
    let mut cs = Cs::new(input);
    let (w, desc) = crate::checks::c04::type_chaos_words(&mut cs);
    check_file(&words_to_bytes(&w), st, &|| desc.join("\n"))
}

/// OpExtInst with every instruction number around the boundaries of the two recognised tables
/// (and a few far values) on a GLSL.std.450, an OpenCL.std and an unknown import
fn ext_numbers() -> Vec<u32> {
    let mut v: Vec<u32> = (0..=96).collect();
    v.extend(139..=212);
    v.extend([255, 256, 65535, 65536, 65537, 0x7fff_ffff, 0x8000_0000, u32::MAX - 1, u32::MAX]);
    v
}
fn sub_ext_numbers(input: &[u8], st: &mut Stats) -> R {
    let k = idx(input) as usize;
    let nums = ext_numbers();
    let sets = crate::vocab::EXT_SETS;
    if k >= nums.len() * sets.len() {
        return Ok(());
    }
    let n = nums[k / sets.len()];
    let set = sets[k % sets.len()];
    let w = ext_number_module(set, n);
    check_file(&words_to_bytes(&w), st, &|| format!("OpExtInst number {} on an import of {:?}", n, set))?;
    st.count(&format!("ext_set_{}", set));
    Ok(())
}

/// a small loadable module: an import of `set` and, inside a block, OpExtInst number `n` on it
pub fn ext_number_module(set: &str, n: u32) -> Vec<u32> {
    let mut w = header_words((1, 3), 20);
    let mut imp = vec![11u32, 1];
    imp.extend(str_words(set));
    imp[0] |= (imp.len() as u32) << 16;
    w.extend(imp);
    w.extend([0x0002_0013, 2]); // %2 = OpTypeVoid
    w.extend([0x0003_0021, 3, 2]); // %3 = OpTypeFunction %2
    w.extend([0x0005_0036, 2, 4, 0, 3, 0x0002_00f8, 5]);
    w.extend([0x0007_000c, 2, 6, 1, n, 7, 8]); // %6 = OpExtInst %2 %1 n %7 %8
    w.extend([0x0001_00fd, 0x0001_0038]);
    w
}
pub fn ext_numbers_len() -> usize {
    ext_numbers().len()
}
pub fn ext_number_at(i: usize) -> u32 {
    ext_numbers()[i]
}

fn sub_fixed(input: &[u8], st: &mut Stats) -> R {
    let k = idx(input);
    let hdr = words_to_bytes(&header_words((1, 0), 0));
    let bytes: Vec<u8> = match k {
        0 => vec![],
        1 => vec![3, 2, 0x23, 7],
        2 => hdr.clone(),
        3 => {
            // OpConstant with an undeclared type (D4)
            let mut b = hdr.clone();
            b.extend(words_to_bytes(&[0x0004_002b, 0, 0, 0]));
            b
        }
        4 => {
            // OpString whose extent leaves the file (D1)
            let mut b = hdr.clone();
            b.extend(words_to_bytes(&[0x000a_0007, 1, 0x6161_6161]));
            b
        }
        5 => {
            // OpSpecConstantOp embedding OpSwitch (D2)
            let mut b = hdr.clone();
            b.extend(words_to_bytes(&[0x0004_0034, 1, 2, 251]));
            b
        }
        6 => {
            // a large file: 16384 OpNop
            let mut b = hdr.clone();
            for _ in 0..16384 {
                b.extend(words_to_bytes(&[0x0001_0000]));
            }
            b
        }
        7 => {
            // string with newline and quotes in OpSource ... error path: detached instruction carrying a string
            let mut b = hdr.clone();
            let mut w = vec![0u32, 1, 2, 3];
            w.extend(str_words("a\nb\"c"));
            w[0] = ((w.len() as u32) << 16) | 12; // OpExtInst outside a block
            b.extend(words_to_bytes(&w));
            b
        }
        _ => return Ok(()),
    };
    check_file(&bytes, st, &|| format!("fixed file #{}", k))
}

/// one file per kind of loading error (every ParseState variant, decoder errors of several
/// kinds, every structural loader error), plus the negative sweep variants by index
fn sub_error_kinds(input: &[u8], st: &mut Stats) -> R {
    let k = idx(input) as usize;
    let hdr = header_words((1, 3), 50);
    let f = |insts: &[&[u32]]| -> Vec<u8> {
        let mut w = hdr.clone();
        for i in insts {
            w.extend_from_slice(i);
        }
        words_to_bytes(&w)
    };
    const FUNC: &[u32] = &[0x0005_0036, 1, 2, 0, 3];
    const END: &[u32] = &[0x0001_0038];
    const LABEL: &[u32] = &[0x0002_00f8, 4];
    const RET: &[u32] = &[0x0001_00fd];
    const NOP: &[u32] = &[0x0001_0000];
    let crafted: Vec<Vec<u8>> = vec![
        vec![1, 2, 3],                                         // header incomplete
        words_to_bytes(&[0x1234_5678, 0, 0, 0, 0]),             // header incorrect
        words_to_bytes(&[MAGIC.swap_bytes(), 0, 0, 0, 0]),      // endianness
        f(&[&[0x0000_0000]]),                                   // zero word count
        f(&[&[0x0001_ffff]]),                                   // unknown opcode
        f(&[&[0x0002_000e, 0]]),                                // OpMemoryModel: operand expected
        f(&[&[0x0002_0000, 7]]),                                // OpNop with a surplus word
        f(&[&[0x0003_0011, 1]]),                                // extent leaves the stream
        f(&[&[0x0002_0011, 0xffff]]),                           // CapabilityUnknown
        f(&[&[0x0003_000e, 99, 0]]),                            // AddressingModelUnknown
        f(&[&[0x0003_0047, 1, 0x7777]]),                        // DecorationUnknown
        f(&[&[0x0005_0036, 1, 2, 0x8000_0000, 3]]),             // FunctionControlUnknown (mask)
        f(&[&[0x0003_0004, 0x6162_6364, 0x6566_6768]]),         // string without NUL: limit reached
        f(&[&[0x0002_0004, 0x0000_ffc3]]),                      // invalid UTF-8
        f(&[&[0x0004_0015, 1, 24, 0], &[0x0004_002b, 1, 2, 5]]), // TypeUnsupported
        f(&[&[0x0004_0034, 1, 2, 0xffff]]),                     // SpecConstantOp: unknown embedded opcode
        f(&[&[0x0004_0034, 1, 2, 0x0001_0080]]),                // SpecConstantOp: number wider than 16 bits
        f(&[&[0x0005_0034, 1, 2, 43, 7]]),                      // SpecConstantOp embedding OpConstant
        f(&[&[0x0005_0034, 1, 2, 52, 128]]),                    // SpecConstantOp embedding OpSpecConstantOp
        f(&[FUNC, FUNC]),                                       // NestedFunction
        f(&[FUNC]),                                             // UnclosedFunction
        f(&[END]),                                              // MismatchedFunctionEnd
        f(&[&[0x0003_0037, 1, 2]]),                             // DetachedFunctionParameter
        f(&[LABEL]),                                            // DetachedBlock
        f(&[FUNC, LABEL, LABEL]),                               // NestedBlock
        f(&[FUNC, LABEL, END]),                                 // UnclosedBlock
        f(&[FUNC, LABEL]),                                      // unclosed block at end of stream
        f(&[RET]),                                              // MismatchedTerminator
        f(&[NOP]),                                              // DetachedInstruction
        f(&[FUNC, &[0x0004_003b, 1, 5, 7], END]),               // variable outside a block inside a function
    ];
    let bytes: Vec<u8> = if k < crafted.len() {
        crafted[k].clone()
    } else {
        // negative variants of sweep instructions (a stride through the sweep)
        let cases = crate::sweep::cases();
        let ci = ((k - crafted.len()) * 37) % cases.len();
        let case = &cases[ci];
        let Some((prelude, p)) = crate::sweep::build(case, ci as u64 * 8 + 5) else { return Ok(()) };
        let mut w = hdr.clone();
        for q in &prelude {
            w.extend(q.words());
        }
        let mut v = p.words();
        match k % 3 {
            0 => {
                if v.len() > 1 {
                    v.pop();
                    v[0] = ((v.len() as u32) << 16) | p.opcode;
                }
            }
            1 => {
                if let Some(last) = v.last_mut() {
                    *last = 0x7fff_fff1;
                }
            }
            _ => {
                v.push(3);
                v[0] = ((v.len() as u32) << 16) | p.opcode;
            }
        }
        w.extend(v);
        words_to_bytes(&w)
    };
    let before = st.counters.get("files_error_message").copied().unwrap_or(0);
    check_file(&bytes, st, &|| format!("error-kind file #{}", k))?;
    if st.counters.get("files_error_message").copied().unwrap_or(0) > before {
        // remember which kinds of messages were seen
        if let Ok(Err(e)) = crate::engine::no_panic("load", || rspirv::dr::load_bytes(&bytes)) {
            let m = format!("{}", e);
            let key: String = m.chars().filter(|c| !c.is_ascii_digit()).take(48).collect();
            st.set_insert("error_messages", key);
        }
    }
    Ok(())
}

pub fn cleanup() {
    let _ = std::fs::remove_dir_all(tmp_dir());
}

/// generated modules under `layout::mutate2`: modules stored back to back, special words where an
/// instruction starts, a text split inside a character over two instructions, one id renamed to a
/// value around 2^16 / 2^17, swapped and repeated instructions
pub fn sub_structural(input: &[u8], st: &mut Stats) -> R {
    let mut cs = Cs::new(input);
    let mode = match cs.below(3) {
        0 => ModMode::Ordered,
        1 => ModMode::Interleaved,
        _ => ModMode::Wild,
    };
    let m = gen_module(&mut cs, mode, 30);
    let (bytes, kinds) = crate::layout::mutate2(&mut cs, &m);
    for k in &kinds {
        st.count(&format!("structural_{}", k));
    }
    check_file(&bytes, st, &|| format!("{}structural edits {:?}", m.render(), kinds))
}

/// `text-files`: what people feed a disassembler by mistake or out of habit - a module written out as
/// text: one number per word in the usual hexadecimal / decimal spellings (0x%08x, %#x - which
/// prints a zero word as a bare 0 -, %x, %08X, %u) separated by commas, blanks or newlines, with or
/// without braces, a C array, the module's own disassembly, assembly-like text, JSON, text with a
/// byte order mark, UTF-16 text, base64-looking text. "Whatever the file contains."
pub fn sub_text_files(input: &[u8], st: &mut Stats) -> R {
    let mut cs = Cs::new(input);
    let m = gen_module(&mut cs, ModMode::Ordered, 12);
    let words = m.words();
    let style = cs.below(12);
    let sep = [", ", ",", " ", "\n", ",\n", "\t", " , ", "\r\n"][cs.below(8)];
    let num = |w: u32, f: usize| -> String {
        match f {
            0 => format!("0x{:08x}", w),
            1 => format!("{:#x}", w).replace("0x0", "0x0"),
            2 => {
                // C's %#x: zero prints as a bare 0
                if w == 0 { "0".to_string() } else { format!("{:#x}", w) }
            }
            3 => format!("{:x}", w),
            4 => format!("0X{:08X}", w),
            5 => format!("{}", w),
            _ => format!("0x{:x}", w),
        }
    };
    let f = cs.below(7);
    let list: Vec<String> = words.iter().map(|w| num(*w, f)).collect();
    let text: String = match style {
        0 | 1 | 2 => list.join(sep),
        3 => format!("{{{}}}", list.join(sep)),
        4 => format!("const uint32_t code[] = {{\n  {}\n}};\n", list.join(sep)),
        5 => format!("[{}]", list.join(sep)),
        6 => no_panic("disassemble", || rspirv::dr::load_words(&words).map(|m| m.disassemble()).unwrap_or_else(|e| format!("{}", e)))?,
        7 => format!("; SPIR-V\n; Version: 1.{}\n; Bound: {}\n{}", cs.below(7), words.get(3).copied().unwrap_or(0), m.render()),
        8 => format!("{}{}", '\u{feff}', list.join(sep)),
        9 => format!("{} {}", list.first().cloned().unwrap_or_default(), cs.text(20)),
        10 => format!("{{\"magic\": \"{}\", \"words\": [{}]}}", list.first().cloned().unwrap_or_default(), list.join(", ")),
        _ => {
            const B64: &[u8] = b"ABCDEFGHIJKLMNOPQRSTUVWXYZabcdefghijklmnopqrstuvwxyz0123456789+/";
            let mut t = String::from("AwIjBw");
            for w in &words {
                for k in 0..5 {
                    t.push(B64[((w >> (6 * k)) & 63) as usize] as char);
                }
            }
            t.push_str("==");
            t
        }
    };
    let mut bytes: Vec<u8> = match cs.below(8) {
        0 => text.encode_utf16().flat_map(|u| u.to_le_bytes()).collect(),
        1 => {
            let mut b = vec![0xff, 0xfe];
            b.extend(text.encode_utf16().flat_map(|u| u.to_le_bytes()));
            b
        }
        _ => text.clone().into_bytes(),
    };
    match cs.below(8) {
        0 => {
            let at = cs.below(bytes.len() + 1);
            bytes.truncate(at);
        }
        1 => bytes.push(b'\n'),
        2 => {
            let mut b = vec![b' ', b'\n'];
            b.extend(&bytes);
            bytes = b;
        }
        _ => {}
    }
    st.count(&format!("text_style_{}", style));
    check_file(&bytes, st, &|| format!("text file (style {}, number format {}, separator {:?}): {:?}", style, f, sep, { let mut t = text.clone(); crate::engine::clip(&mut t, 400); t }))
}

pub const SUBS: &[Sub] = &[
    Sub { name: "error-kinds", f: sub_error_kinds },
    Sub { name: "fixed-files", f: sub_fixed },
    Sub { name: "files", f: sub_files },
    Sub { name: "output-shapes", f: sub_output_shapes },
    Sub { name: "chaos-files", f: sub_chaos },
    Sub { name: "ext-inst-numbers", f: sub_ext_numbers },
    Sub { name: "structural-variations", f: sub_structural },
    Sub { name: "text-files", f: sub_text_files },
];

pub fn run(ctx: &Ctx) {
    run_regress(ctx, SUBS);
    drive_enum(ctx, &SUBS[0], 30 + ctx.n(150, 10_000));
    drive_enum(ctx, &SUBS[1], 8);
    drive_random_with(ctx, &SUBS[2], ctx.n(1_500, 300_000), 1400, 250);
    drive_enum(ctx, &SUBS[3], (SHAPE_BASES.len() * SHAPE_OFFS * SHAPE_KINDS) as u64);
    drive_random_with(ctx, &SUBS[4], ctx.n(800, 200_000), 200, 250);
    drive_enum(ctx, &SUBS[5], (ext_numbers().len() * crate::vocab::EXT_SETS.len()) as u64);
    drive_random_with(ctx, &SUBS[6], ctx.n(1_500, 300_000), 1400, 250);
    drive_random_with(ctx, &SUBS[7], ctx.n(800, 200_000), 800, 250);
    cleanup();
}

pub fn finish(ctx: &Ctx) -> i32 {
    crate::engine::finish(
        ctx,
        Finish {
            rule: "files: generated modules (ordered / interleaved / wild), half of them with 1-3 stacked byte-level faults, raw random bytes, 0-19 byte prefixes of a header, header + junk, loadable modules whose disassembly has a line of every length around each power of two from 256 to 65536 bytes as the last line / in the middle / before a function (2700 files), OpExtInst with every number around the boundaries of the GLSL.std.450 / OpenCL.std tables on a GLSL, an OpenCL and an unknown import, type-chaos modules (forward references, re-declared ids, constants before their types), and fixed files (empty, 4 bytes, header only, the historical crashers, 64 KiB of OpNop). Oracle: spawn target/dis/release/rspirv-dis <file> (built from /repo's working tree): exit status 0, no panic message on stderr, stdout == disassemble() + newline if load_bytes succeeds in-process, else the Display of the loading error + newline, which must be a single line. non-trivial = file longer than 24 bytes; distinct = hash of the file. Added in rounds 18-19: structural-variations, text-files (hex dumps in every printf spelling, disassembly, JSON, UTF-16, base64) and ext-inst-numbers on every set name of the registry.",
            assumptions: vec!["the in-process library call is the reference for the text; its own correctness is C07/C03's subject".into()],
            trusted_base: vec!["OS process interface".into(), "cargo build of /repo's rspirv-dis".into()],
        },
    )
}
