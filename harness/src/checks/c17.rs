//! C17 — operand reflection agrees with the parser and the grammar.

use crate::cs::Cs;
use crate::engine::*;
use crate::golden::{golden, GEnum};
use crate::kinds::{self, ENUMS};
use crate::model::*;
use crate::rs::*;
use rspirv::binary::Assemble;
use rspirv::dr::{self, Operand};
use rspirv::grammar::OperandKind as K;

const PARAM_KINDS: &[(&str, &str)] = &[
    ("ExecutionMode", "ExecutionMode"),
    ("Decoration", "Decorate"),
    ("ImageOperands", "ImageSampleExplicitLod"),
    ("LoopControl", "LoopMerge"),
    ("MemoryAccess", "Store"),
    ("TensorAddressingOperands", "CooperativeMatrixLoadTensorNV"),
];

fn kind_word(k: K) -> Vec<u32> {
    match k {
        K::LiteralString => str_words("ab"),
        K::IdRef | K::IdScope | K::IdMemorySemantics => vec![17],
        K::LiteralInteger | K::LiteralFloat => vec![3],
        other => {
            // a parameter-free declared value of the nested enum
            let ge = genum(golden(), other).expect("nested enum kind");
            if ge.is_mask {
                vec![0]
            } else {
                vec![ge.values.iter().find(|e| e.params.is_empty()).map(|e| e.value).unwrap_or(0)]
            }
        }
    }
}

fn variant_of(k: K) -> String {
    match k {
        K::LiteralInteger | K::LiteralFloat => "LiteralBit32".into(),
        other => format!("{:?}", other),
    }
}

fn operand_variant(o: &Operand) -> String {
    let d = format!("{:?}", o);
    d.split('(').next().unwrap_or("").to_string()
}

/// instruction words carrying `value` of `kind` followed by `params` words
fn carrier(kind: &str, value: u32, params: &[u32]) -> Vec<u32> {
    let mut w: Vec<u32> = match kind {
        "ExecutionMode" => vec![16, 1, value],
        "Decoration" => vec![71, 1, value],
        "ImageOperands" => vec![88, 1, 2, 3, 4, value],
        "LoopControl" => vec![246, 1, 2, value],
        "MemoryAccess" => vec![62, 1, 2, value],
        "TensorAddressingOperands" => {
            // OpCooperativeMatrixLoadTensorNV: rtype rid pointer object tensorlayout MemoryAccess(None) TensorAddressingOperands
            let gi = crate::layout::gi_by_name("CooperativeMatrixLoadTensorNV");
            let mut v = vec![gi.opcode];
            for (k, _) in &gi.operands {
                match k {
                    K::TensorAddressingOperands => v.push(value),
                    K::MemoryAccess => v.push(0),
                    _ => v.push(9),
                }
            }
            v
        }
        _ => unreachable!(),
    };
    w.extend(params);
    w[0] |= (w.len() as u32) << 16;
    w
}

fn golden_params(ge: &GEnum, value: u32) -> Vec<K> {
    if ge.is_mask {
        let mut v = vec![];
        for b in &ge.bits {
            if value & b.bit != 0 {
                v.extend(b.params.iter().copied());
            }
        }
        v
    } else {
        ge.enumerant(value).map(|e| e.params.clone()).unwrap_or_default()
    }
}

fn sorted<T: Ord + Clone>(v: &[T]) -> Vec<T> {
    let mut v = v.to_vec();
    v.sort();
    v
}

fn check_value(kind: &str, value: u32, st: &mut Stats) -> R {
    check_value_in(kind, value, st, true)
}

/// `full` = every header context; otherwise the default one and one picked by the value
fn check_value_in(kind: &str, value: u32, st: &mut Stats, full: bool) -> R {
    let g = golden();
    let ge = g.enums.get(kind).unwrap();
    let k = kinds::kind_from_name(kind).unwrap();
    let op = enum_operand(k, value).ok_or_else(|| Fail::new("harness", kind, format!("{} {} is not declared", kind, value)))?;
    let f = |clause: &str, msg: String| Fail::new(clause, format!("{}:{:#x}", kind, value), msg);
    // reported extra operands
    let reported: Vec<K> = no_panic("Operand::additional_operands", || op.additional_operands())?.iter().map(|o| o.kind).collect();
    let gp = golden_params(ge, value);
    let rep_names: Vec<String> = reported.iter().map(|k| format!("{:?}", k)).collect();
    let gp_names: Vec<String> = gp.iter().map(|k| format!("{:?}", k)).collect();
    let same_vs_golden = if ge.is_mask { sorted(&rep_names) == sorted(&gp_names) } else { rep_names == gp_names };
    if !same_vs_golden {
        return Err(f("reflection-vs-grammar", format!("{:?} reports extra operands {:?}, the grammar lists {:?}", op, rep_names, gp_names)));
    }
    // differential with the parser: words for the grammar's parameter order
    let mut pw: Vec<u32> = vec![];
    for p in &gp {
        pw.extend(kind_word(*p));
    }
    let mut bin = header_words((1, 6), 100);
    bin.extend(carrier(kind, value, &pw));
    let (c, r) = parse_words_collect(&bin)?;
    if let Err(e) = &r {
        return Err(f("parser-consumes-reported", format!("instruction carrying {:?} with words for {:?} rejected: {}", op, gp_names, e)));
    }
    let inst = &c.insts[0];
    let pos = inst.operands.iter().position(|o| *o == op).ok_or_else(|| f("parser-consumes-reported", "value operand not delivered".into()))?;
    let delivered: Vec<String> = inst.operands[pos + 1..].iter().map(operand_variant).collect();
    let want: Vec<String> = reported.iter().map(|k| variant_of(*k)).collect();
    let ok = if ge.is_mask { sorted(&delivered) == sorted(&want) } else { delivered == want };
    if !ok {
        return Err(f("reflection-vs-parser", format!("after {:?} the parser delivers {:?}, reflection reports {:?}", op, delivered, want)));
    }
    // any number of parameter words short of the full list / one word more is rejected, and the full
    // list is consumed identically, under every version the header may declare (the statement ties the
    // consumed kinds to the value alone)
    // header contexts: eleven versions under the case's generator word, and every registered tool id
    // (0..=48, with a zero and a non-zero tool version) plus 0xffff under version 1.6. The statement
    // ties the consumed kinds to the value alone - not to the version, not to who wrote the binary.
    let mut contexts: Vec<((u8, u8), Option<u32>)> = [(1u8, 6u8), (1, 0), (1, 1), (1, 2), (1, 3), (1, 4), (1, 5), (1, 7), (2, 0), (0, 0), (255, 255)].iter().map(|v| (*v, None)).collect();
    for tool in 0..=48u32 {
        contexts.push(((1, 6), Some(tool << 16)));
        contexts.push(((1, 3), Some((tool << 16) | 0x000e)));
    }
    contexts.push(((1, 6), Some(0xffff_0000)));
    if !full {
        let pick = 1 + (crate::engine::hash64(&value.to_le_bytes()) as usize ^ kind.len()) % (contexts.len() - 1);
        contexts = vec![contexts[0], contexts[pick]];
    }
    let hw = |ver: (u8, u8), generator: Option<u32>| {
        let mut h = header_words(ver, 100);
        if let Some(g) = generator {
            h[2] = g;
        }
        h
    };
    for (ver, generator) in contexts {
        let what = format!("header version {}.{}, generator {:#x}", ver.0, ver.1, generator.unwrap_or_else(ambient_generator));
        for cut in 0..pw.len() {
            let mut b2 = hw(ver, generator);
            b2.extend(carrier(kind, value, &pw[..cut]));
            let (_, r2) = parse_words_collect(&b2)?;
            if r2.is_ok() {
                return Err(f("parser-needs-all-parameters", format!("{:?} accepted with {} of its {} parameter words ({})", op, cut, pw.len(), what)));
            }
        }
        let mut more = pw.clone();
        more.push(5);
        let mut b3 = hw(ver, generator);
        b3.extend(carrier(kind, value, &more));
        let (_, r3) = parse_words_collect(&b3)?;
        if r3.is_ok() {
            return Err(f("parser-rejects-surplus", format!("{:?} accepted with a surplus word ({})", op, what)));
        }
        let mut b4 = hw(ver, generator);
        b4.extend(carrier(kind, value, &pw));
        let (c4, r4) = parse_words_collect(&b4)?;
        let same = r4.is_ok() && c4.insts.first().map(|i| i.operands == inst.operands).unwrap_or(false);
        if !same {
            return Err(f("reflection-vs-parser", format!("{:?} with its full parameter list is consumed differently under {}: {:?} / {:?}", op, what, r4.as_ref().err().map(|e| format!("{}", e)), c4.insts.first().map(|i| i.operands.clone()))));
        }
    }
    // capabilities / extensions
    let caps: Vec<String> = no_panic("Operand::required_capabilities", || op.required_capabilities())?.iter().map(|c| format!("{:?}", c)).collect();
    let exts: Vec<String> = no_panic("Operand::required_extensions", || op.required_extensions())?.iter().map(|s| s.to_string()).collect();
    let (mut gc, mut gx): (Vec<String>, Vec<String>) = (vec![], vec![]);
    if ge.is_mask {
        for b in &ge.bits {
            if value & b.bit != 0 {
                gc.extend(b.caps.iter().cloned());
                gx.extend(b.exts.iter().cloned());
            }
        }
    } else if let Some(e) = ge.enumerant(value) {
        gc = e.caps.clone();
        gx = e.exts.clone();
    }
    let set = |v: &[String]| -> std::collections::BTreeSet<String> { v.iter().cloned().collect() };
    if set(&caps) != set(&gc) {
        return Err(f("required-capabilities", format!("{:?} requires {:?}, the grammar lists {:?}", op, caps, gc)));
    }
    if set(&exts) != set(&gx) {
        return Err(f("required-extensions", format!("{:?} requires {:?}, the grammar lists {:?}", op, exts, gx)));
    }
    if !gp.is_empty() {
        st.nontrivial(hash_str(&format!("{}:{}", kind, value)));
    }
    Ok(())
}

/// every (host instruction, parameterised kind) pair of the grammar
fn hosts() -> &'static Vec<(usize, &'static str, K)> {
    static H: std::sync::OnceLock<Vec<(usize, &'static str, K)>> = std::sync::OnceLock::new();
    H.get_or_init(|| {
        let g = golden();
        let mut v = vec![];
        for (gi_idx, gi) in g.core.iter().enumerate() {
            if gi.operands.iter().any(|(k, _)| matches!(k, K::LiteralContextDependentNumber | K::PairLiteralIntegerIdRef | K::LiteralSpecConstantOpInteger)) {
                continue;
            }
            for (kind, _) in PARAM_KINDS {
                let k = kinds::kind_from_name(kind).unwrap();
                if gi.operands.iter().any(|(ok, _)| *ok == k) {
                    v.push((gi_idx, *kind, k));
                }
            }
        }
        v
    })
}

/// words of host instruction `gi` carrying the given (value, parameter words) in its successive
/// operands of kind `k` (as many occurrences as `vals` has entries); operands before them are
/// present, optional / variadic ones after the last filled occurrence absent
fn host_words_multi(gi: &crate::golden::GInst, k: K, vals: &[(u32, Vec<u32>)]) -> Vec<u32> {
    use rspirv::grammar::OperandQuantifier as Q;
    let mut w = vec![gi.opcode];
    let mut filled = 0;
    for (ok, q) in &gi.operands {
        if *ok == k && filled < vals.len() {
            w.push(vals[filled].0);
            w.extend_from_slice(&vals[filled].1);
            filled += 1;
            continue;
        }
        match q {
            Q::One => match ok {
                K::IdResultType | K::IdResult => w.push(40 + w.len() as u32),
                other => w.extend(kind_word(*other)),
            },
            _ => {
                if filled < vals.len() {
                    w.extend(kind_word(*ok));
                }
            }
        }
    }
    w[0] |= (w.len() as u32) << 16;
    w
}

fn host_words(gi: &crate::golden::GInst, k: K, value: u32, params: &[u32]) -> Vec<u32> {
    host_words_multi(gi, k, &[(value, params.to_vec())])
}

/// the parser-side clauses through EVERY instruction of the grammar that can carry the kind
/// (OpDecorate / OpMemberDecorate / OpDecorateId / OpDecorateString ..., OpExecutionMode /
/// OpExecutionModeId, every image, memory and cooperative-matrix instruction)
fn sub_hosts(input: &[u8], st: &mut Stats) -> R {
    let i = idx(input) as usize;
    let Some((gi_idx, kind, k)) = hosts().get(i).copied() else { return Ok(()) };
    let g = golden();
    let gi = &g.core[gi_idx];
    let ge = g.enums.get(kind).unwrap();
    let vals: Vec<u32> = if ge.is_mask {
        let mut v = vec![0, ge.all_bits];
        for a in &ge.bits {
            v.push(a.bit);
        }
        // pairs with the lowest parameterised bit
        if let Some(pb) = ge.bits.iter().find(|b| !b.params.is_empty()) {
            for a in &ge.bits {
                v.push(a.bit | pb.bit);
            }
        }
        v.sort();
        v.dedup();
        v
    } else {
        ge.values.iter().map(|e| e.value).collect()
    };
    for value in &vals {
        let value = *value;
        let op = enum_operand(k, value).ok_or_else(|| Fail::new("harness", kind, format!("{} {} is not declared", kind, value)))?;
        let f = |clause: &str, msg: String| Fail::new(clause, format!("{}:{:#x}@{}", kind, value, gi.opname), msg);
        let reported: Vec<K> = no_panic("Operand::additional_operands", || op.additional_operands())?.iter().map(|o| o.kind).collect();
        let gp = golden_params(ge, value);
        let mut pw: Vec<u32> = vec![];
        for p in &gp {
            pw.extend(kind_word(*p));
        }
        let mut bin = header_words((1, 6), 100);
        bin.extend(host_words(gi, k, value, &pw));
        let (c, r) = parse_words_collect(&bin)?;
        if let Err(e) = &r {
            return Err(f("parser-consumes-reported", format!("Op{} carrying {:?} with its parameters rejected: {}", gi.opname, op, e)));
        }
        let inst = &c.insts[0];
        let pos = inst.operands.iter().position(|o| *o == op).ok_or_else(|| f("parser-consumes-reported", "value operand not delivered".into()))?;
        let delivered: Vec<String> = inst.operands[pos + 1..].iter().take(reported.len()).map(operand_variant).collect();
        let want: Vec<String> = reported.iter().map(|k| variant_of(*k)).collect();
        let ok = if ge.is_mask { sorted(&delivered) == sorted(&want) } else { delivered == want };
        if !ok {
            return Err(f("reflection-vs-parser", format!("in Op{} after {:?} the parser delivers {:?}, reflection reports {:?}", gi.opname, op, delivered, want)));
        }
        st.evaluations += 1;
    }
    st.evaluations -= 1;
    // instructions that carry the kind TWICE (OpCopyMemory / OpCopyMemorySized: target and
    // source memory access): both occurrences present, each followed by its own parameters
    if gi.operands.iter().filter(|(ok, _)| *ok == k).count() >= 2 {
        let small: Vec<u32> = vals.iter().copied().filter(|v| v.count_ones() <= 2).collect();
        for v1 in &small {
            for v2 in &small {
                let mk = |v: u32| -> Vec<u32> {
                    let mut pw = vec![];
                    for p in &golden_params(ge, v) {
                        pw.extend(kind_word(*p));
                    }
                    pw
                };
                let f = |clause: &str, msg: String| Fail::new(clause, format!("{}:{:#x}+{:#x}@{}", kind, v1, v2, gi.opname), msg);
                let mut bin = header_words((1, 6), 100);
                bin.extend(host_words_multi(gi, k, &[(*v1, mk(*v1)), (*v2, mk(*v2))]));
                let (c, r) = parse_words_collect(&bin)?;
                if let Err(e) = &r {
                    return Err(f("parser-consumes-reported", format!("Op{} carrying {} twice ({:#x}, {:#x}) with their parameters rejected: {}", gi.opname, kind, v1, v2, e)));
                }
                let inst = &c.insts[0];
                let (o1, o2) = (enum_operand(k, *v1).unwrap(), enum_operand(k, *v2).unwrap());
                let p1 = inst.operands.iter().position(|o| *o == o1).ok_or_else(|| f("parser-consumes-reported", "first value not delivered".into()))?;
                let n1 = golden_params(ge, *v1).len();
                let n2 = golden_params(ge, *v2).len();
                let got2 = inst.operands.get(p1 + 1 + n1);
                if got2 != Some(&o2) || inst.operands.len() != p1 + 2 + n1 + n2 {
                    return Err(f("reflection-vs-parser", format!("Op{}: after {:?} and its {} parameters the parser delivers {:?} (operands {:?})", gi.opname, o1, n1, got2, inst.operands.iter().map(operand_variant).collect::<Vec<_>>())));
                }
                st.evaluations += 1;
            }
        }
        st.count("hosts_with_two_occurrences");
    }
    st.set_insert("hosts", format!("{}:{}", gi.opname, kind));
    st.nontrivial(hash_str(&format!("{}:{}", gi.opname, kind)));
    Ok(())
}

/// every enumerant of ExecutionMode / Decoration; every bit, pair and all bits of the 4 masks
fn sub_values(input: &[u8], st: &mut Stats) -> R {
    let i = idx(input) as usize;
    let Some((kind, _)) = PARAM_KINDS.get(i) else { return Ok(()) };
    let g = golden();
    let ge = g.enums.get(*kind).unwrap();
    let mut vals: Vec<u32> = vec![];
    if ge.is_mask {
        vals.push(0);
        vals.push(ge.all_bits);
        for a in &ge.bits {
            vals.push(a.bit);
            for b in &ge.bits {
                if b.bit > a.bit {
                    vals.push(a.bit | b.bit);
                }
            }
        }
        // all subsets when there are few bits
        if ge.bits.len() <= 12 {
            for m in 0..(1u32 << ge.bits.len()) {
                let v = ge.bits.iter().enumerate().filter(|(j, _)| (m >> j) & 1 == 1).fold(0, |a, (_, b)| a | b.bit);
                vals.push(v);
            }
        }
    } else {
        vals.extend(ge.values.iter().map(|e| e.value));
    }
    vals.sort();
    vals.dedup();
    for v in &vals {
        check_value(kind, *v, st)?;
        st.evaluations += 1;
    }
    st.evaluations -= 1;
    st.add(&format!("values_{}", kind), vals.len() as u64);
    st.sample(|| format!("{}: {} values, e.g. {:?}", kind, vals.len(), &vals[..vals.len().min(6)]));
    Ok(())
}

fn sub_random_masks(input: &[u8], st: &mut Stats) -> R {
    let mut cs = Cs::new(input);
    let g = golden();
    for _ in 0..8 {
        // all six kinds in random order on one thread (reflection is a pure function of the value)
        let kind = ["ImageOperands", "LoopControl", "MemoryAccess", "TensorAddressingOperands", "ExecutionMode", "Decoration"][cs.below(6)];
        let ge = g.enums.get(kind).unwrap();
        let v = if ge.is_mask { cs.u32() & ge.all_bits } else { ge.values[cs.below(ge.values.len())].value };
        check_value_in(kind, v, st, false)?;
        st.evaluations += 1;
    }
    st.evaluations -= 1;
    Ok(())
}

/// id reporting / rewriting and payload conversions over every operand variant
fn sub_variants(input: &[u8], st: &mut Stats) -> R {
    let i = idx(input) as usize;
    let g = golden();
    // one representative operand per variant (plus a few values)
    let mut ops: Vec<Operand> = vec![
        Operand::IdRef(5),
        Operand::IdScope(6),
        Operand::IdMemorySemantics(7),
        Operand::LiteralBit32(8),
        Operand::LiteralBit64(0x1_0000_0009),
        Operand::LiteralExtInstInteger(10),
        Operand::LiteralSpecConstantOpInteger(spirv::Op::IAdd),
        Operand::LiteralString("str".into()),
    ];
    for e in ENUMS {
        if let Some(f) = e.operand {
            let ge = g.enums.get(e.name).unwrap();
            let vals: Vec<u32> = if ge.is_mask {
                let mut v = vec![0, ge.all_bits];
                for a in &ge.bits {
                    v.push(a.bit);
                    for b in &ge.bits {
                        if b.bit > a.bit {
                            v.push(a.bit | b.bit);
                        }
                    }
                }
                v
            } else {
                ge.values.iter().map(|v| v.value).collect()
            };
            for v in vals {
                // required capabilities / extensions of EVERY operand value equal the grammar's
                if let Some(o) = f(v) {
                    let caps: std::collections::BTreeSet<String> = no_panic("Operand::required_capabilities", || o.required_capabilities())?.iter().map(|c| format!("{:?}", c)).collect();
                    let exts: std::collections::BTreeSet<String> = no_panic("Operand::required_extensions", || o.required_extensions())?.iter().map(|s| s.to_string()).collect();
                    let (mut gc, mut gx) = (std::collections::BTreeSet::new(), std::collections::BTreeSet::new());
                    if ge.is_mask {
                        for b in &ge.bits {
                            if v & b.bit != 0 {
                                gc.extend(b.caps.iter().cloned());
                                gx.extend(b.exts.iter().cloned());
                            }
                        }
                    } else if let Some(en) = ge.enumerant(v) {
                        gc.extend(en.caps.iter().cloned());
                        gx.extend(en.exts.iter().cloned());
                    }
                    if caps != gc {
                        return Err(Fail::new("required-capabilities", format!("{}:{:#x}", e.name, v), format!("{:?} requires {:?}, the grammar lists {:?}", o, caps, gc)));
                    }
                    if exts != gx {
                        return Err(Fail::new("required-extensions", format!("{}:{:#x}", e.name, v), format!("{:?} requires {:?}, the grammar lists {:?}", o, exts, gx)));
                    }
                    // operands without parameters report none
                    if !PARAM_KINDS.iter().any(|(k, _)| *k == e.name) {
                        let extra = no_panic("Operand::additional_operands", || o.additional_operands())?;
                        let want: Vec<K> = golden_params(ge, v);
                        if extra.iter().map(|x| x.kind).collect::<Vec<_>>().len() != want.len() {
                            return Err(Fail::new("reflection-vs-grammar", format!("{}:{:#x}", e.name, v), format!("{:?} reports {} extra operands, the grammar lists {:?}", o, extra.len(), want)));
                        }
                    }
                    st.evaluations += 1;
                    if !gc.is_empty() || !gx.is_empty() {
                        st.nontrivial(hash_str(&format!("caps:{}:{}", e.name, v)));
                    }
                }
                if let Some(o) = f(v) {
                    ops.push(o);
                }
                // payload conversions
                if let Some(fu) = e.from_unwrap {
                    match no_panic("From / unwrap", || fu(v))? {
                        Some(true) => {}
                        r => return Err(Fail::new("from-unwrap", e.name.to_string(), format!("{}: converting payload {} into an operand and extracting it again gives {:?}", e.name, v, r))),
                    }
                    st.evaluations += 1;
                }
            }
        }
    }
    if i == 0 {
        // literal conversions
        let checks: Vec<(&str, bool)> = vec![
            ("u32", Operand::from(77u32) == Operand::LiteralBit32(77) && Operand::from(77u32).unwrap_literal_bit32() == 77),
            ("u64", Operand::from(77u64 << 33) == Operand::LiteralBit64(77 << 33) && Operand::from(77u64 << 33).unwrap_literal_bit64() == 77 << 33),
            ("String", Operand::from("x y".to_string()) == Operand::LiteralString("x y".into()) && Operand::from("x y".to_string()).unwrap_literal_string() == "x y"),
            ("&str", Operand::from("q") == Operand::LiteralString("q".into())),
            ("Op", Operand::from(spirv::Op::FMul) == Operand::LiteralSpecConstantOpInteger(spirv::Op::FMul) && Operand::from(spirv::Op::FMul).unwrap_literal_spec_constant_op_integer() == spirv::Op::FMul),
            ("ids", Operand::IdRef(3).unwrap_id_ref() == 3 && Operand::IdScope(4).unwrap_id_scope() == 4 && Operand::IdMemorySemantics(5).unwrap_id_memory_semantics() == 5 && Operand::LiteralExtInstInteger(6).unwrap_literal_ext_inst_integer() == 6),
        ];
        for (n, ok) in checks {
            if !ok {
                return Err(Fail::new("from-unwrap", n, format!("payload conversion for {} does not round-trip", n)));
            }
        }
    }
    for (j, o) in ops.iter().enumerate() {
        let is_id = matches!(o, Operand::IdRef(_) | Operand::IdScope(_) | Operand::IdMemorySemantics(_));
        let rep = no_panic("Operand::id_ref_any", || o.id_ref_any())?;
        if rep.is_some() != is_id {
            return Err(Fail::new("id-ref-any", operand_variant(o), format!("{:?}.id_ref_any() = {:?}", o, rep)));
        }
        // rewriting changes exactly the corresponding word of the assembled instruction
        let before_ops = vec![Operand::IdRef(1), o.clone(), Operand::LiteralBit32(2)];
        let mut inst = crate::rs::mk_inst(spirv::Op::Nop, None, None, before_ops);
        let w0 = inst.assemble();
        let newv = 0xabc0_0000 + j as u32;
        let changed = match inst.operands[1].id_ref_any_mut() {
            Some(r) => {
                *r = newv;
                true
            }
            None => false,
        };
        if changed != is_id {
            return Err(Fail::new("id-ref-any-mut", operand_variant(o), format!("{:?}.id_ref_any_mut() is_some = {}", o, changed)));
        }
        let w1 = inst.assemble();
        if w0.len() != w1.len() {
            return Err(Fail::new("id-rewrite", operand_variant(o), "rewriting an id changed the instruction length".to_string()));
        }
        let diff: Vec<usize> = (0..w0.len()).filter(|k| w0[*k] != w1[*k]).collect();
        let want: Vec<usize> = if is_id && rep != Some(newv) { vec![2] } else { vec![] };
        if diff != want || (is_id && w1[2] != newv) {
            return Err(Fail::new("id-rewrite", operand_variant(o), format!("rewriting the id of {:?} changed words {:?} (expected {:?})", o, diff, want)));
        }
        st.evaluations += 1;
        if is_id {
            st.nontrivial(hash_str(&format!("{:?}", o)));
        }
    }
    st.set_insert("operand_variants", "all");
    st.add("operands_checked", ops.len() as u64);
    Ok(())
}

/// (e) with generated payloads: every literal / id / string conversion, any Rust string (NULs, multi-byte,
/// empty, long), through `From<String>` and `From<&str>`, edge-biased numbers, every opcode.
fn sub_payloads(input: &[u8], st: &mut Stats) -> R {
    let mut cs = Cs::new(input);
    let fail = |n: &str, what: String| Fail::new("from-unwrap", n.to_string(), format!("converting a payload into an operand and extracting it again does not return the payload: {}", what));
    for _ in 0..4 {
        let s = cs.string_any();
        let a = no_panic("Operand::from(String)", || Operand::from(s.clone()))?;
        let b = no_panic("Operand::from(&str)", || Operand::from(s.as_str()))?;
        for (n, o) in [("String", &a), ("&str", &b)] {
            if *o != Operand::LiteralString(s.clone()) {
                return Err(fail(n, format!("Operand::from({:?}) = {:?}", s, o)));
            }
            let back = no_panic("unwrap_literal_string", || o.unwrap_literal_string().to_string())?;
            if back != s {
                return Err(fail(n, format!("Operand::from({:?}).unwrap_literal_string() = {:?}", s, back)));
            }
        }
        st.evaluations += 1;
        if s.contains('\0') || !s.is_ascii() {
            st.count("payload_strings_with_nul_or_multibyte");
        }
        st.nontrivial(hash_str(&s));
    }
    for _ in 0..4 {
        let v = cs.lit32();
        let w = cs.lit64();
        let o = Operand::from(v);
        if o != Operand::LiteralBit32(v) || no_panic("unwrap_literal_bit32", || o.unwrap_literal_bit32())? != v {
            return Err(fail("u32", format!("{:#x} -> {:?}", v, o)));
        }
        let o = Operand::from(w);
        if o != Operand::LiteralBit64(w) || no_panic("unwrap_literal_bit64", || o.unwrap_literal_bit64())? != w {
            return Err(fail("u64", format!("{:#x} -> {:?}", w, o)));
        }
        let ids = [
            ("IdRef", Operand::IdRef(v).unwrap_id_ref()),
            ("IdScope", Operand::IdScope(v).unwrap_id_scope()),
            ("IdMemorySemantics", Operand::IdMemorySemantics(v).unwrap_id_memory_semantics()),
            ("LiteralExtInstInteger", Operand::LiteralExtInstInteger(v).unwrap_literal_ext_inst_integer()),
        ];
        for (n, got) in ids {
            if got != v {
                return Err(fail(n, format!("{:#x} -> {:#x}", v, got)));
            }
        }
        st.evaluations += 1;
        st.nontrivial(v as u64 ^ (w << 1));
    }
    let table: Vec<spirv::Op> = rspirv::grammar::CoreInstructionTable::iter().map(|g| g.opcode).collect();
    for _ in 0..4 {
        let op = table[cs.below(table.len())];
        let o = Operand::from(op);
        if o != Operand::LiteralSpecConstantOpInteger(op) || no_panic("unwrap_literal_spec_constant_op_integer", || o.unwrap_literal_spec_constant_op_integer())? != op {
            return Err(fail("Op", format!("{:?} -> {:?}", op, o)));
        }
        st.evaluations += 1;
    }
    st.sample(|| "payloads: strings (any, incl. NUL / multi-byte) via From<String> and From<&str>, u32, u64, ids, opcodes".to_string());
    Ok(())
}

pub const SUBS: &[Sub] = &[
    Sub { name: "parameterised-values", f: sub_values },
    Sub { name: "random-mask-subsets", f: sub_random_masks },
    Sub { name: "operand-variants", f: sub_variants },
    Sub { name: "every-host-instruction", f: sub_hosts },
    Sub { name: "payload-conversions", f: sub_payloads },
];

pub fn run(ctx: &Ctx) {
    run_regress(ctx, SUBS);
    drive_enum(ctx, &SUBS[0], PARAM_KINDS.len() as u64);
    drive_random(ctx, &SUBS[1], ctx.n(20_000, 10_000_000), 64);
    drive_enum(ctx, &SUBS[2], 1);
    drive_enum(ctx, &SUBS[3], hosts().len() as u64);
    drive_random(ctx, &SUBS[4], ctx.n(40_000, 4_000_000), 400);
}

pub fn finish(ctx: &Ctx) -> i32 {
    crate::engine::finish(
        ctx,
        Finish {
            rule: "complete: every enumerant of ExecutionMode and Decoration; for ImageOperands, LoopControl, MemoryAccess, TensorAddressingOperands: 0, all bits, every single bit, every pair, all subsets when <= 12 bits, random subsets otherwise; every Operand variant (every enumerant of every kind, 0/all for masks, the literal/id/string variants); every (host instruction, parameterised kind) pair of the grammar (49: OpDecorate, OpMemberDecorate, OpDecorateId, OpDecorateString..., OpExecutionMode(Id), image / memory / cooperative-matrix instructions) x every enumerant or bit. Oracle: (a) differential inside rspirv: the instruction carrying the value followed by words for the parameter kinds parses, and the operand variants delivered after the value equal the kinds additional_operands() reports (sequence for enumerants, multiset for masks); one parameter word fewer / one word more is rejected; (b) both equal the golden parameter list; (c) required capabilities/extensions equal the golden sets of the enumerant / union over set bits; (d) id_ref_any().is_some() iff IdRef/IdScope/IdMemorySemantics; writing through id_ref_any_mut changes exactly that word of assemble(); (e) From<payload> then unwrap_* returns the payload: every enumerant / mask value, and generated u32 / u64 / id / opcode payloads and arbitrary Rust strings (NULs, multi-byte, empty, long) through From<String> and From<&str>. non-trivial = value with at least one parameter / id-carrying operand; distinct = (kind, value). Added in rounds 18-19: the parser clauses under 11 header versions and the generator word of every registered tool, for every shorter parameter list.",
            assumptions: vec!["parameter quantifiers of the Khronos JSON are not representable in the generated code and cannot be compared offline".into(), "golden parameter lists = snapshot of the pinned tree cross-checked parser-side vs reflection-side and against specification anchors".into()],
            trusted_base: vec!["golden/api.json".into(), "golden/source.json (parser-side parameters)".into()],
        },
    )
}
