//! C03 — the parser accepts exactly the grammar and reports the first
//! malformed instruction.

use crate::cs::Cs;
use crate::engine::*;
use crate::ensure;
use crate::layout::*;
use crate::model::*;
use crate::rs::*;
use crate::sweep;
use rspirv::binary::ParseState;

#[derive(Debug, PartialEq, Clone, Copy)]
pub enum Class {
    Header(HeaderFault),
    Inst(Fault),
    Other,
}

fn first_number(s: &str) -> Option<usize> {
    let i = s.find('(')?;
    let rest = &s[i + 1..];
    let end = rest
        .find(|c: char| !c.is_ascii_digit())
        .unwrap_or(rest.len());
    rest[..end].parse().ok()
}

/// (class, instruction number, byte offset)
pub fn classify(s: &ParseState) -> (Class, Option<usize>, Option<usize>) {
    match s {
        ParseState::HeaderIncomplete(_) => (Class::Header(HeaderFault::Incomplete), None, None),
        ParseState::HeaderIncorrect => (Class::Header(HeaderFault::Incorrect), None, None),
        ParseState::EndiannessUnsupported => (Class::Header(HeaderFault::Endianness), None, None),
        ParseState::WordCountZero(o, i) => (Class::Inst(Fault::WordCountZero), Some(*i), Some(*o)),
        ParseState::OpcodeUnknown(o, i, _) => {
            (Class::Inst(Fault::OpcodeUnknown), Some(*i), Some(*o))
        }
        ParseState::OperandExpected(o, i) => (Class::Inst(Fault::Missing), Some(*i), Some(*o)),
        ParseState::OperandExceeded(o, i) => (Class::Inst(Fault::Surplus), Some(*i), Some(*o)),
        ParseState::TypeUnsupported(o, i) => (Class::Inst(Fault::Undecodable), Some(*i), Some(*o)),
        ParseState::SpecConstantOpIntegerIncorrect(o, i) => {
            (Class::Inst(Fault::Undecodable), Some(*i), Some(*o))
        }
        ParseState::OperandError(e) => {
            let d = format!("{:?}", e);
            let off = first_number(&d);
            if d.starts_with("StreamExpected") || d.starts_with("LimitReached") {
                (Class::Inst(Fault::Missing), None, off)
            } else {
                (Class::Inst(Fault::Undecodable), None, off)
            }
        }
        _ => (Class::Other, None, None),
    }
}

pub struct Verdict {
    pub accepted: bool,
    pub delivered: usize,
}

/// The oracle: compares rspirv's parse of `bytes` with the reference parser. When an id is declared
/// more than once the statement does not say which declaration decides a literal's width: the
/// parser must then agree with one reading applied consistently to the whole binary (the latest
/// preceding declaration - the model's default - or the first).
pub fn check_bytes(bytes: &[u8], st: &mut Stats, decoded: &dyn Fn() -> String) -> Result<Verdict, Fail> {
    match check_bytes_one(bytes, st, decoded) {
        Ok(v) => Ok(v),
        Err(f) => {
            if !ref_parse(bytes).redefined_id {
                return Err(f);
            }
            match with_first_wins(|| check_bytes_one(bytes, &mut Stats::new(), decoded)) {
                Ok(v) => {
                    st.count("redeclared_id_consistent_with_first_declaration_only");
                    Ok(v)
                }
                Err(_) => Err(f),
            }
        }
    }
}

fn check_bytes_one(bytes: &[u8], st: &mut Stats, decoded: &dyn Fn() -> String) -> Result<Verdict, Fail> {
    let rp = ref_parse(bytes);
    let (c, r) = parse_bytes_collect(bytes).map_err(|f| f.with_decoded(decoded()))?;
    let fail = |clause: &str, disc: String, msg: String| -> Fail {
        Fail::new(clause, disc, msg).with_decoded(format!(
            "{}\nbytes({}): {}\nreference: end={:?} insts={}",
            decoded(),
            bytes.len(),
            show_words(&bytes_to_words(bytes)),
            rp.end,
            rp.insts.len()
        ))
    };
    ensure!(
        c.initialized == 1,
        "protocol",
        "initialize",
        "initialize called {} times",
        c.initialized
    );
    // header
    match &rp.header {
        Err(hf) => {
            let got = r.as_ref().err().map(classify);
            let ok = matches!(&got, Some((Class::Header(h), _, _)) if h == hf || Some(h) == rp.header_alt.as_ref());
            if !ok {
                return Err(fail(
                    "header-verdict",
                    format!("{:?}", hf),
                    format!(
                        "binary with header fault {:?}: parser answered {:?}",
                        hf,
                        r.as_ref().map_err(state_name)
                    ),
                ));
            }
            if !c.headers.is_empty() || !c.insts.is_empty() || c.finalized != 0 {
                return Err(fail(
                    "header-delivery",
                    format!("{:?}", hf),
                    "consumer was handed data although the header is faulty".into(),
                ));
            }
            st.count(&format!("verdict_header_{:?}", hf));
            return Ok(Verdict {
                accepted: false,
                delivered: 0,
            });
        }
        Ok(h) => {
            if c.headers.len() != 1 {
                return Err(fail(
                    "header-delivery",
                    "count".into(),
                    format!("header delivered {} times", c.headers.len()),
                ));
            }
            let hd = &c.headers[0];
            let (maj, min) = hd.version();
            if hd.bound != h[3]
                || maj as u32 != (h[1] >> 16) & 0xff
                || min as u32 != (h[1] >> 8) & 0xff
            {
                return Err(fail(
                    "header-content",
                    "version-or-bound".into(),
                    format!("header words {:?} delivered as {:?}", h, hd),
                ));
            }
        }
    }
    // delivered instructions = the well-formed prefix, in order, once each
    let n = rp.insts.len();
    for (i, ri) in rp.insts.iter().enumerate() {
        let want = rinst_to_dr(ri);
        let got = c.insts.get(i);
        if want.as_ref() != got || want.is_none() {
            let what = match (got, &want) {
                (None, _) => "not-delivered".to_string(),
                (Some(g), Some(w)) => {
                    if g.class.opcode != w.class.opcode {
                        "opcode".into()
                    } else if g.result_type.is_some() != w.result_type.is_some()
                        || g.result_id.is_some() != w.result_id.is_some()
                    {
                        "result-presence".into()
                    } else if g.operands.len() != w.operands.len() {
                        "operand-count".into()
                    } else {
                        "operand".into()
                    }
                }
                _ => "reference".into(),
            };
            return Err(fail(
                "delivered-instruction",
                format!("{}:{}", ri.opname, what),
                format!(
                    "instruction #{}: reference form {} but parser delivered {}",
                    i + 1,
                    want.as_ref().map(show_inst).unwrap_or_default(),
                    got.map(show_inst).unwrap_or_else(|| "nothing".into())
                ),
            ));
        }
    }
    let extra_ok = match &rp.end {
        End::Clean | End::Stray(_) => c.insts.len() == n,
        End::Fault { dont_care, .. } => c.insts.len() == n || (*dont_care && c.insts.len() == n + 1),
    };
    if !extra_ok {
        return Err(fail(
            "delivered-count",
            format!("{:?}", std::mem::discriminant(&rp.end)),
            format!(
                "parser delivered {} instructions, the well-formed prefix has {}",
                c.insts.len(),
                n
            ),
        ));
    }
    match &rp.end {
        End::Clean => {
            if let Err(e) = &r {
                let opn = String::new();
                return Err(fail(
                    "rejects-wellformed",
                    format!("{}{}", opn, state_name(e)),
                    format!("well-formed binary rejected: {}", e),
                ));
            }
            ensure!(c.finalized == 1, "protocol", "finalize", "finalize called {} times", c.finalized);
            st.count("verdict_accept");
            if n >= 5 {
                st.nontrivial(hash64(bytes));
            }
            Ok(Verdict {
                accepted: true,
                delivered: n,
            })
        }
        End::Stray(k) => {
            st.count("dontcare_stray_bytes");
            let _ = k;
            Ok(Verdict {
                accepted: r.is_ok(),
                delivered: n,
            })
        }
        End::Fault {
            index,
            start,
            wc,
            classes,
            dont_care,
        } => {
            if *dont_care {
                st.count("dontcare_embedded_context_opcode");
                return Ok(Verdict {
                    accepted: r.is_ok(),
                    delivered: n,
                });
            }
            let opname = if bytes.len() >= start + 4 {
                let w = le32(&bytes[*start..]);
                crate::golden::golden()
                    .core_by_code
                    .get(&(w & 0xffff))
                    .map(|i| crate::golden::golden().core[*i].opname.clone())
                    .unwrap_or_else(|| "?".into())
            } else {
                "?".into()
            };
            let Err(e) = &r else {
                return Err(fail(
                    "accepts-malformed",
                    format!("{}:{:?}", opname, classes),
                    format!(
                        "instruction #{} at byte {} (Op{}) is malformed ({:?}) but the binary was accepted",
                        index, start, opname, classes
                    ),
                ));
            };
            ensure!(c.finalized == 0, "protocol", "finalize-after-error", "finalize called after a parse error");
            let (cl, idx_got, off_got) = classify(e);
            let ok = matches!(cl, Class::Inst(f) if classes.contains(&f));
            if !ok {
                return Err(fail(
                    "fault-class",
                    format!("{}:{:?}->{}", opname, classes, state_name(e)),
                    format!(
                        "instruction #{} (Op{}) has fault {:?}; parser reported {}",
                        index, opname, classes, e
                    ),
                ));
            }
            if let Some(i) = idx_got {
                if i != *index {
                    return Err(fail(
                        "fault-index",
                        format!("{}", state_name(e)),
                        format!("first malformed instruction is #{}, error names #{}", index, i),
                    ));
                }
            }
            if let Some(o) = off_got {
                if o < *start || o > start + 4 * wc {
                    return Err(fail(
                        "fault-offset",
                        format!("{}", state_name(e)),
                        format!(
                            "error offset {} outside the instruction's extent [{}, {}]",
                            o,
                            start,
                            start + 4 * wc
                        ),
                    ));
                }
            }
            // the rendered message (what rspirv-dis prints) must not contradict the fields: where
            // it writes "#<n>" that number is the instruction number, where it writes
            // "offset <n>" that number is the offset the error carries (no anchors: nothing checked)
            {
                let text = no_panic("Display for ParseState", || format!("{}", e))?;
                let num_after = |anchor: &str| -> Option<usize> {
                    let at = text.find(anchor)? + anchor.len();
                    let digits: String = text[at..].chars().take_while(|c| c.is_ascii_digit()).collect();
                    digits.parse().ok()
                };
                if let (Some(shown), Some(i)) = (num_after("#"), idx_got) {
                    if shown != i {
                        return Err(fail("message-contradicts-fields", format!("{}:instruction-number", state_name(e)), format!("message {:?} names instruction #{}, the error value carries {}", text, shown, i)));
                    }
                }
                if let (Some(shown), Some(o)) = (num_after("offset "), off_got) {
                    if shown != o {
                        return Err(fail("message-contradicts-fields", format!("{}:offset", state_name(e)), format!("message {:?} names offset {}, the error value carries {}", text, shown, o)));
                    }
                }
            }
            st.count(&format!("verdict_{}", state_name(e)));
            st.count(&format!(
                "fault_index_{}",
                match index {
                    1 => "1",
                    2 => "2",
                    3..=5 => "3-5",
                    6..=10 => "6-10",
                    _ => "11+",
                }
            ));
            if n >= 2 {
                st.nontrivial(hash64(bytes));
            }
            Ok(Verdict {
                accepted: false,
                delivered: n,
            })
        }
    }
}

/// parse_words on the same words must agree with parse_bytes.
fn check_words_agree(bytes: &[u8]) -> R {
    if bytes.len() % 4 != 0 {
        return Ok(());
    }
    let words = bytes_to_words(bytes);
    let (c1, r1) = parse_bytes_collect(bytes)?;
    let (c2, r2) = parse_words_collect(&words)?;
    ensure!(
        c1.insts == c2.insts
            && r1.as_ref().map_err(|e| format!("{:?}", e)) == r2.as_ref().map_err(|e| format!("{:?}", e)),
        "parse-bytes-vs-words",
        "differ",
        "parse_bytes and parse_words disagree"
    );
    Ok(())
}

fn pick_mode(cs: &mut Cs) -> ModMode {
    match cs.below(4) {
        0 => ModMode::Ordered,
        1 => ModMode::Interleaved,
        _ => ModMode::Wild,
    }
}

/// `modules` with result ids occasionally 0 / 0x7fffffff / 0x80000000 / 0xffffffff
fn sub_edge_ids(input: &[u8], st: &mut Stats) -> R {
    with_edge_ids(|| sub_modules(input, st))
}

fn sub_modules(input: &[u8], st: &mut Stats) -> R {
    let mut cs = Cs::new(input);
    let mode = pick_mode(&mut cs);
    let m = gen_module(&mut cs, mode, 24);
    let mutated = cs.below(4) != 0;
    let (bytes, kinds) = if mutated {
        mutate(&mut cs, &m)
    } else {
        (words_to_bytes(&m.words()), vec![])
    };
    for k in &kinds {
        st.count(&format!("mutation_{}", k));
    }
    let dec = || format!("{}mutations: {:?}", m.render(), kinds);
    check_bytes(&bytes, st, &dec)?;
    check_words_agree(&bytes)?;
    st.sample(|| {
        format!(
            "{} instructions, mode {:?}, mutations {:?}, {} bytes",
            m.plans.len(),
            mode,
            kinds,
            bytes.len()
        )
    });
    Ok(())
}

/// Every truncation byte position of a small deterministic module.
fn sub_truncations(input: &[u8], st: &mut Stats) -> R {
    let k = idx(input);
    let stream = sweep::stream_for(k ^ 0x5151, 600);
    let mut cs = Cs::new(&stream);
    let mode = pick_mode(&mut cs);
    let m = gen_module(&mut cs, mode, 10);
    let bytes = words_to_bytes(&m.words());
    let dec = || m.render();
    for cut in 0..=bytes.len() {
        st.evaluations += 1;
        check_bytes(&bytes[..cut], st, &|| format!("{}cut at byte {}", dec(), cut))?;
    }
    st.evaluations -= 1;
    st.count("modules_truncated_everywhere");
    Ok(())
}

/// Negative sweeps over every sweep case: one word missing, one word surplus,
/// enumerant replaced by the nearest undeclared value, lowest undeclared mask bit.
fn sub_negative(input: &[u8], st: &mut Stats) -> R {
    let i = idx(input);
    let cases = sweep::cases();
    let Some(case) = cases.get(i as usize) else { return Ok(()) };
    let Some((prelude, p)) = sweep::build(case, i * 8) else {
        st.count("sweep_skipped");
        return Ok(());
    };
    let g = crate::golden::golden();
    let mut head = header_words((1, 5), 500);
    // two well-formed instructions in front so that the fault is not at #1
    head.extend([0x0001_0000u32, 0x0001_0000u32]);
    for q in &prelude {
        head.extend(q.words());
    }
    let mut variants: Vec<(&str, Vec<u32>)> = vec![];
    let w = p.words();
    variants.push(("intact", w.clone()));
    if w.len() > 1 {
        let mut v = w.clone();
        v.pop();
        v[0] = ((v.len() as u32) << 16) | p.opcode;
        variants.push(("one-word-missing", v));
    }
    {
        let mut v = w.clone();
        v.push(7);
        v[0] = ((v.len() as u32) << 16) | p.opcode;
        variants.push(("one-word-surplus", v));
    }
    if let Some((k, val)) = case.force.last() {
        let name = format!("{:?}", k);
        if let Some(ge) = g.enums.get(&name) {
            let skip = 1 + p.rtype.is_some() as usize + p.rid.is_some() as usize;
            if let Some(pos) = w.iter().enumerate().skip(skip).find(|(_, x)| **x == *val).map(|(i, _)| i) {
                let mut v = w.clone();
                if ge.is_mask {
                    let undeclared = (0..32).map(|b| 1u32 << b).find(|b| ge.all_bits & b == 0);
                    if let Some(b) = undeclared {
                        v[pos] |= b;
                        variants.push(("undeclared-mask-bit", v));
                    }
                } else {
                    let mut x = val.wrapping_add(1);
                    while ge.value_set.contains(&x) {
                        x = x.wrapping_add(1);
                    }
                    v[pos] = x;
                    variants.push(("undeclared-enumerant", v));
                }
            }
        }
    }
    if let Some(code) = p.shape.embedded {
        // the embedded opcode number with high bits set is not a declared opcode
        if let Some(pos) = w.iter().enumerate().skip(3).find(|(_, x)| **x == code).map(|(i, _)| i) {
            for bit in [16u32, 20, 31] {
                let mut v = w.clone();
                v[pos] |= 1 << bit;
                variants.push(("embedded-opcode-high-bits", v));
            }
        }
    }
    for (what, v) in variants {
        let mut bin = head.clone();
        bin.extend(&v);
        // a trailing well-formed instruction
        bin.push(0x0001_0000);
        let bytes = words_to_bytes(&bin);
        st.evaluations += 1;
        st.count(&format!("negative_{}", what));
        check_bytes(&bytes, st, &|| {
            format!("{} variant {}: [{}]", show_inst(&p.inst()), what, show_words(&v))
        })?;
    }
    st.evaluations -= 1;
    Ok(())
}

/// `long-strings`: a well-formed module with one string-bearing instruction whose literal string has
/// 65 530 - 262 131 bytes (the declared word count allows up to 65 535 words), intact, with a
/// surplus word, or cut; the grammar puts no bound on a string other than the word count.
fn sub_long_strings(input: &[u8], st: &mut Stats) -> R {
    let mut cs = Cs::new(input);
    // (opcode, words before the string)
    let (opname, opcode, lead): (&str, u32, Vec<u32>) = match cs.below(5) {
        0 => ("String", 7, vec![9]),
        1 => ("Name", 5, vec![9]),
        2 => ("Extension", 10, vec![]),
        3 => ("SourceExtension", 4, vec![]),
        _ => ("ModuleProcessed", 330, vec![]),
    };
    let unit: &str = ["s", "\u{e9}", "\u{20ac}", "ab"][cs.below(4)];
    let max_bytes = (65_535 - 1 - lead.len() - 1) * 4 + 3;
    let nbytes = match cs.below(4) {
        0 => 65_528 + cs.below(16),
        1 => [65_535usize, 65_536, 65_537, 100_000, 131_072, 200_001][cs.below(6)],
        2 => max_bytes - cs.below(9),
        _ => (65_536 * unit.len() + cs.below(8)).min(max_bytes),
    };
    let mut body = unit.repeat(nbytes / unit.len() + 1).into_bytes();
    body.truncate(nbytes - nbytes % unit.len());
    let text = String::from_utf8(body).unwrap();
    let mut inst: Vec<u32> = vec![0];
    inst.extend(&lead);
    inst.extend(str_words(&text));
    let variant = cs.below(4);
    if variant == 1 {
        inst.push(0x41414141); // a surplus word inside the declared count
    }
    if inst.len() > 65_535 {
        inst.truncate(65_535); // cannot be declared: keep the case inside the 16-bit count (cuts the padding / the string)
    }
    inst[0] = ((inst.len() as u32) << 16) | opcode;
    let mut w = header_words((1, 3), 100);
    w.extend([0x0002_0011, 1]); // OpCapability Shader
    w.extend(&inst);
    w.extend([0x0003_000e, 0, 1]); // OpMemoryModel Logical GLSL450
    let mut bytes = words_to_bytes(&w);
    if variant == 2 {
        let cut = 28 + cs.below(bytes.len() - 28);
        bytes.truncate(cut);
    }
    st.count("long_string_modules");
    st.nontrivial(hash64(&bytes[..64.min(bytes.len())]) ^ bytes.len() as u64);
    check_bytes(&bytes, st, &|| format!("Op{} with a literal string of {} bytes (unit {:?}), variant {}", opname, text.len(), unit, ["intact", "surplus word", "cut", "intact"][variant])).map(|_| ())
}

/// `structural-variations`: generated modules under `layout::mutate2` (special words at instruction
/// boundaries, modules back to back, a text split over two instructions inside a character, ids
/// around 2^16, swapped / repeated instructions)
fn sub_structural(input: &[u8], st: &mut Stats) -> R {
    let mut cs = Cs::new(input);
    let mode = pick_mode(&mut cs);
    let m = gen_module(&mut cs, mode, 24);
    let (bytes, kinds) = crate::layout::mutate2(&mut cs, &m);
    for k in &kinds {
        st.count(&format!("structural_{}", k));
    }
    check_bytes(&bytes, st, &|| format!("{}structural edits: {:?}", m.render(), kinds))?;
    check_words_agree(&bytes)
}

/// `bulk-modules`: binaries in which the number of declarations crosses 2^16 / 2^17 (see
/// `c10::gen_bulk`), intact or cut / extended in their last instructions
fn sub_bulk(input: &[u8], st: &mut Stats) -> R {
    let mut cs = Cs::new(input);
    let (mut words, desc) = crate::checks::c10::gen_bulk(&mut cs);
    let variant = cs.below(4);
    match variant {
        0 => {
            let k = 1 + cs.below(6);
            words.truncate(words.len() - k);
        }
        1 => words.push(cs.lit32()),
        _ => {}
    }
    let bytes = words_to_bytes(&words);
    st.count("bulk_modules");
    check_bytes(&bytes, st, &|| format!("{}\nvariant {}", desc, ["last words cut", "one word appended", "intact", "intact"][variant])).map(|_| ())
}

pub const SUBS: &[Sub] = &[
    Sub {
        name: "negative-sweep",
        f: sub_negative,
    },
    Sub {
        name: "truncations",
        f: sub_truncations,
    },
    Sub {
        name: "modules",
        f: sub_modules,
    },
    Sub {
        name: "edge-ids",
        f: sub_edge_ids,
    },
    Sub {
        name: "long-strings",
        f: sub_long_strings,
    },
    Sub {
        name: "structural-variations",
        f: sub_structural,
    },
    Sub {
        name: "bulk-modules",
        f: sub_bulk,
    },
];

pub fn run(ctx: &Ctx) {
    run_regress(ctx, SUBS);
    drive_enum(ctx, &SUBS[0], sweep::cases().len() as u64);
    drive_enum(ctx, &SUBS[1], ctx.n(60, 30_000));
    drive_random(ctx, &SUBS[2], ctx.n(40_000, 20_000_000), 1200);
    drive_random(ctx, &SUBS[3], ctx.n(10_000, 5_000_000), 4000);
    drive_random(ctx, &SUBS[4], ctx.n(40, 4_000), 64);
    drive_random(ctx, &SUBS[5], ctx.n(30_000, 10_000_000), 1200);
    drive_random_costly(ctx, &SUBS[6], ctx.n(12, 3_000), 400);
    if !ctx.quick() && !ctx.failed() {
        crate::fuzzing::drive_fuzz(ctx, "bytes", 500_000);
    }
}

pub fn finish(ctx: &Ctx) -> i32 {
    crate::engine::finish(
        ctx,
        Finish {
            rule: "cases: (a) negative sweep: every sweep instruction (every opcode min/max, every enumerant, every mask value, every embeddable opcode) intact / one word missing / one word surplus / enumerant replaced by the nearest undeclared value / lowest undeclared mask bit set, behind two well-formed instructions; (b) every truncation byte position of small generated modules; (c) random generated modules (layout-ordered, interleaved, wild) with 0-3 stacked byte-level faults (truncate, word count, opcode, operand word, delete/insert/duplicate word, string faults, magic, short header, stray bytes). Oracle: independent reference parser R1 decides accept / first malformed instruction / admissible fault classes from the bytes alone; compared with parse_bytes (and parse_words) result, delivered header and instructions, error class, instruction number and byte offset; the Display text of the error must not contradict those fields (a number after '#' is the instruction number, a number after 'offset ' is the offset). non-trivial = rejected binary with >= 2 well-formed instructions before the fault, or accepted binary with >= 5 instructions; distinct = hash of the bytes. Added in rounds 18-19: structural-variations (as C01) and bulk-modules (binaries of up to 10^6 instructions crossing 2^16 / 2^17 / 2^18 / 2^20 declarations); shifted buffer addresses; generator word of every registered tool.",
            assumptions: vec![
                "grammar facts come from the golden snapshot (see C09)".into(),
                "don't-care: 1-3 stray bytes after the last complete instruction; OpSpecConstantOp embedding OpConstant/OpSpecConstant/OpSwitch/OpSpecConstantOp (verdict open, no panic required by C04)".into(),
            ],
            trusted_base: vec!["reference parser R1".into(), "golden/api.json".into(), "proptest".into()],
        },
    )
}
