//! C05 — the loader accepts exactly well-bracketed function/block structure.

use crate::cs::Cs;
use crate::engine::*;
use crate::layout::*;
use crate::model::*;
use crate::refclass::layout;
use crate::rs::*;
use crate::sweep;
use rspirv::binary::ParseState;
use rspirv::dr;

/// Compares load_words(words) with R2 applied to the reference-parsed stream.
pub fn check_words(words: &[u32], st: &mut Stats, decoded: &dyn Fn() -> String) -> R {
    let bytes = words_to_bytes(words);
    let wrap = |f: Fail| -> Fail { f.with_decoded(decoded()) };
    let rp = ref_parse(&bytes);
    if rp.end != End::Clean || rp.header.is_err() {
        st.count("skipped_not_grammatical");
        return Ok(());
    }
    if rp.redefined_id {
        // an id declared twice: which declaration decides a literal's width is left open (C10); the
        // stream is in this check's domain only if it is grammatical under both readings (FA21)
        let first = with_first_wins(|| ref_parse(&bytes));
        if first.end != End::Clean {
            st.count("skipped_grammatical_under_one_reading_only");
            return Ok(());
        }
    }
    let names: Vec<&str> = rp.insts.iter().map(|i| i.opname.as_str()).collect();
    let r2 = r2_load(&names);
    let got = load_words(words).map_err(wrap)?;
    match r2 {
        R2::DontCare { .. } => {
            st.count("dontcare_vendor_module_scope");
            Ok(())
        }
        R2::Reject { at, errs } => {
            let what = names.get(at).copied().unwrap_or("<end of stream>");
            match got {
                Ok(_) => Err(wrap(Fail::new(
                    "accepts-ill-bracketed",
                    format!("{:?}@{}", errs, layout_name(what)),
                    format!(
                        "loader accepted a stream whose instruction #{} (Op{}) must fail with {:?}",
                        at + 1,
                        what,
                        errs
                    ),
                ))),
                Err(ParseState::ConsumerError(e)) => {
                    let cls = e.downcast_ref::<dr::Error>().and_then(classify_dr_error);
                    match cls {
                        Some(c) if errs.contains(&c) => {
                            st.count(&format!("reject_{:?}", c));
                            if names.len() >= 4 && names.iter().any(|n| *n == "Function") {
                                st.nontrivial(hash_words(words));
                            }
                            Ok(())
                        }
                        _ => Err(wrap(Fail::new(
                            "structural-error-kind",
                            format!("{:?}->{}@{}", errs, e, layout_name(what)),
                            format!(
                                "instruction #{} (Op{}) must fail with {:?}, loader reported `{}`",
                                at + 1,
                                what,
                                errs,
                                e
                            ),
                        ))),
                    }
                }
                Err(e) => Err(wrap(Fail::new(
                    "structural-error-kind",
                    format!("{:?}->{}", errs, state_name(&e)),
                    format!("expected structural error {:?}, got {}", errs, e),
                ))),
            }
        }
        R2::Accept(a) => {
            let module = match got {
                Ok(m) => m,
                Err(e) => {
                    let opn = match &e {
                        ParseState::ConsumerError(b) => match b.downcast_ref::<dr::Error>() {
                            Some(dr::Error::DetachedInstruction(Some(i))) => i.class.opname.to_string(),
                            _ => String::new(),
                        },
                        _ => String::new(),
                    };
                    return Err(wrap(Fail::new(
                        "rejects-well-bracketed",
                        format!("{}:{}", opn, e),
                        format!("well-bracketed stream rejected: {}", e),
                    )));
                }
            };
            // expected module: every instruction where the layout assigns it
            let insts: Vec<dr::Instruction> = match rp.insts.iter().map(rinst_to_dr).collect::<Option<Vec<_>>>() {
                Some(v) => v,
                None => return Ok(()),
            };
            let mut model = a.placement.to_module(&insts);
            model.header = module.header.clone();
            if a.memory_models > 1 {
                st.count("multiple_memory_models");
            }
            if a.line_outside_block {
                // placement of OpLine outside blocks is not fixed by the layout: compare without them
                st.count("line_outside_block");
            }
            let mut module_cmp = module.clone();
            if a.line_outside_block {
                // where an OpLine/OpNoLine outside any block is kept is not fixed by the
                // logical layout: compare the global section without line instructions
                model.types_global_values.retain(|i| !crate::refclass::is_location_debug(i.class.opname));
                module_cmp.types_global_values.retain(|i| !crate::refclass::is_location_debug(i.class.opname));
            }
            if a.memory_models > 1 {
                model.memory_model = module_cmp.memory_model.clone();
            }
            if let Some(d) = module_diff(&module_cmp, &model) {
                let opn = first_misplaced(&module, &model);
                return Err(wrap(Fail::new(
                    "section-placement",
                    opn,
                    format!("loaded module differs from the logical-layout model: {}", d),
                )));
            }
            // structural invariants of the loaded module
            for f in &module.functions {
                if f.def.is_none() || f.end.is_none() {
                    return Err(wrap(Fail::new("function-owns-def-end", "missing", "function without def or end".to_string())));
                }
                for b in &f.blocks {
                    let ok = b.label.is_some()
                        && b.instructions.last().map(|i| crate::refclass::is_block_terminator(i.class.opname)).unwrap_or(false)
                        && b.instructions[..b.instructions.len() - 1]
                            .iter()
                            .all(|i| !crate::refclass::is_block_terminator(i.class.opname));
                    if !ok {
                        return Err(wrap(Fail::new("block-shape", "label-or-terminator", "block without label / not ending in exactly one terminator".to_string())));
                    }
                }
            }
            st.count("accept");
            for n in &names {
                st.set_insert("layout_classes_accepted", format!("{:?}", layout(n)));
            }
            if names.len() >= 4 && !a.placement.functions.is_empty() {
                st.nontrivial(hash_words(words));
            }
            Ok(())
        }
    }
}

fn layout_name(op: &str) -> String {
    if op == "<end of stream>" {
        "End".to_string()
    } else {
        format!("{:?}", layout(op))
    }
}

/// opname of the first instruction that sits in a different place
fn first_misplaced(got: &dr::Module, want: &dr::Module) -> String {
    let a: Vec<&dr::Instruction> = got.all_inst_iter().collect();
    let b: Vec<&dr::Instruction> = want.all_inst_iter().collect();
    for (x, y) in a.iter().zip(&b) {
        if x != y {
            return y.class.opname.to_string();
        }
    }
    "count".to_string()
}

// the 12-letter structural alphabet with one representative each
const LETTERS: &[&str] = &[
    "Function",
    "FunctionEnd",
    "FunctionParameter",
    "Label",
    "Return",
    "Nop",
    "Variable",
    "Undef",
    "Line",
    "TypeVoid",
    "Capability",
    "Decorate",
];

fn letter_words(name: &str, k: u32) -> Vec<u32> {
    match name {
        "Function" => vec![0x0005_0036, 1, 100 + k, 0, 2],
        "FunctionEnd" => vec![0x0001_0038],
        "FunctionParameter" => vec![0x0003_0037, 1, 100 + k],
        "Label" => vec![0x0002_00f8, 100 + k],
        "Return" => vec![0x0001_00fd],
        "Nop" => vec![0x0001_0000],
        "Variable" => vec![0x0004_003b, 1, 100 + k, 7],
        "Undef" => vec![0x0003_0001, 1, 100 + k],
        "Line" => vec![0x0004_0008, 1, 2, 3],
        "TypeVoid" => vec![0x0002_0013, 100 + k],
        "Capability" => vec![0x0002_0011, 1],
        "Decorate" => vec![0x0003_0047, 1, 0],
        _ => unreachable!(),
    }
}

/// All words up to length 5 over the 12-letter alphabet.
fn sub_alphabet(input: &[u8], st: &mut Stats) -> R {
    let mut i = idx(input);
    // decode index -> (length, digits)
    let mut len = 0usize;
    let mut span = 1u64;
    loop {
        if i < span {
            break;
        }
        i -= span;
        len += 1;
        span *= LETTERS.len() as u64;
        if len > 6 {
            return Ok(());
        }
    }
    let mut words = header_words((1, 0), 200);
    let mut seq = vec![];
    for k in 0..len {
        let l = LETTERS[(i % LETTERS.len() as u64) as usize];
        i /= LETTERS.len() as u64;
        seq.push(l);
        words.extend(letter_words(l, k as u32));
    }
    check_words(&words, st, &|| format!("letters: {:?}", seq))?;
    if st.want_sample() && len == 5 {
        st.sample(|| format!("letters: {:?}", seq));
    }
    Ok(())
}

pub fn alphabet_size(max_len: u32) -> u64 {
    let mut n = 0u64;
    let mut span = 1u64;
    for _ in 0..=max_len {
        n += span;
        span *= LETTERS.len() as u64;
    }
    n
}

/// `modules` with extreme ids (0 / 0x7fffffff / 0x80000000 / 0xffffffff), extreme header words and
/// occasionally instructions of thousands of words
fn sub_edge_ids(input: &[u8], st: &mut Stats) -> R {
    with_edge_ids(|| sub_modules(input, st))
}

fn gen_case(cs: &mut Cs) -> (Vec<u32>, Vec<Plan>) {
    let mode = match cs.below(8) {
        0 => ModMode::Ordered,
        1 | 2 => ModMode::Interleaved,
        _ => ModMode::Wild,
    };
    let m = gen_module(cs, mode, 40);
    let mut plans = m.plans.clone();
    // structural faults: delete / duplicate / swap an instruction
    let nf = cs.below(3);
    for _ in 0..nf {
        if plans.is_empty() {
            break;
        }
        let k = cs.below(plans.len());
        match cs.below(3) {
            0 => {
                plans.remove(k);
            }
            1 => {
                let p = plans[k].clone();
                let at = cs.below(plans.len() + 1);
                plans.insert(at, p);
            }
            _ => {
                let j = cs.below(plans.len());
                plans.swap(k, j);
            }
        }
    }
    let mut words = header_words(m.version, m.bound);
    for p in &plans {
        words.extend(p.words());
    }
    (words, plans)
}


fn sub_modules(input: &[u8], st: &mut Stats) -> R {
    let mut cs = Cs::new(input);
    let (words, plans) = gen_case(&mut cs);
    check_words(&words, st, &|| plans.iter().map(|p| show_inst(&p.inst())).collect::<Vec<_>>().join("\n"))
}

/// "Loading" through every public route must give one verdict: dr::load_bytes, dr::load_words,
/// a caller-owned Loader (Loader::new() and Loader::default()) driven by parse_bytes /
/// parse_words, and a Loader fed by hand through its Consumer methods with the instructions a
/// collecting consumer received
fn sub_entry_points(input: &[u8], st: &mut Stats) -> R {
    use rspirv::binary::{Consumer, ParseAction};
    let mut cs = Cs::new(input);
    let (words, plans) = gen_case(&mut cs);
    let bytes = words_to_bytes(&words);
    let dec = || plans.iter().map(|p| show_inst(&p.inst())).collect::<Vec<_>>().join("\n");
    let verdict = |r: &Result<dr::Module, ParseState>| -> String {
        match r {
            Ok(_) => "Ok".to_string(),
            Err(ParseState::ConsumerError(b)) => match b.downcast_ref::<dr::Error>() {
                Some(e) => format!("{:?}", e).split('(').next().unwrap_or("").to_string(),
                None => "ConsumerError(other)".into(),
            },
            Err(e) => state_name(e),
        }
    };
    let base = load_bytes(&bytes).map_err(|f| f.with_decoded(dec()))?;
    let mut routes: Vec<(&str, Result<dr::Module, ParseState>)> = vec![];
    routes.push(("load_words", load_words(&words).map_err(|f| f.with_decoded(dec()))?));
    let via = |ld: dr::Loader, by_words: bool| -> Result<Result<dr::Module, ParseState>, Fail> {
        no_panic("parse with a caller-owned Loader", || {
            let mut ld = ld;
            let r = if by_words { rspirv::binary::parse_words(&words, &mut ld) } else { rspirv::binary::parse_bytes(crate::rs::Shifted::new(&bytes).bytes(), &mut ld) };
            r.map(|_| ld.module())
        })
    };
    routes.push(("parse_bytes + Loader::new()", via(dr::Loader::new(), false).map_err(|f| f.with_decoded(dec()))?));
    routes.push(("parse_words + Loader::new()", via(dr::Loader::new(), true).map_err(|f| f.with_decoded(dec()))?));
    routes.push(("parse_bytes + Loader::default()", via(dr::Loader::default(), false).map_err(|f| f.with_decoded(dec()))?));
    routes.push(("parse_words + Loader::default()", via(dr::Loader::default(), true).map_err(|f| f.with_decoded(dec()))?));
    // by hand: only when the binary parses (otherwise the parser's error is the verdict)
    let (c, pr) = parse_words_collect(&words).map_err(|f| f.with_decoded(dec()))?;
    if pr.is_ok() && c.headers.len() == 1 {
        for (name, mk) in [("hand-fed Loader::new()", dr::Loader::new as fn() -> dr::Loader), ("hand-fed Loader::default()", dr::Loader::default as fn() -> dr::Loader)] {
            let r = no_panic("Loader fed through Consumer methods", || {
                let mut ld = mk();
                let mut act = ld.initialize();
                if matches!(act, ParseAction::Continue) {
                    act = ld.consume_header(c.headers[0].clone());
                }
                for i in &c.insts {
                    if !matches!(act, ParseAction::Continue) {
                        break;
                    }
                    act = ld.consume_instruction(i.clone());
                }
                if matches!(act, ParseAction::Continue) {
                    act = ld.finalize();
                }
                match act {
                    ParseAction::Continue => Ok(ld.module()),
                    ParseAction::Stop => Err(ParseState::ConsumerStopRequested),
                    ParseAction::Error(e) => Err(ParseState::ConsumerError(e)),
                }
            })
            .map_err(|f| f.with_decoded(dec()))?;
            routes.push((name, r));
        }
        st.count("hand_fed");
    }
    let vb = verdict(&base);
    for (name, r) in &routes {
        let v = verdict(r);
        let same = v == vb
            && match (&base, r) {
                (Ok(a), Ok(b)) => module_diff(a, b).is_none(),
                _ => true,
            };
        if !same {
            return Err(Fail::new(
                "loading-routes-disagree",
                format!("{}:{}-vs-{}", name, v, vb),
                format!("dr::load_bytes gives {}, {} gives {}{}", vb, name, v, if v == vb { " (different modules)" } else { "" }),
            )
            .with_decoded(dec()));
        }
    }
    st.count(&format!("routes_verdict_{}", vb));
    st.nontrivial(hash_words(&words));
    Ok(())
}

/// Every sweep instruction in its minimal context (module-level classes, every opcode).
fn sub_sweep(input: &[u8], st: &mut Stats) -> R {
    let i = idx(input);
    let cases = sweep::cases();
    let Some(case) = cases.get(i as usize) else { return Ok(()) };
    if case.what != "opcode-min" && case.what != "opcode-max" {
        return Ok(());
    }
    let Some((prelude, p)) = sweep::build(case, i * 8) else { return Ok(()) };
    // (a) minimal well-bracketed context, (b) bare at module scope, (c) inside a block
    let a = wrap_in_module(&prelude, &p);
    check_words(&a, st, &|| format!("wrapped {}", show_inst(&p.inst())))?;
    let mut b = header_words((1, 4), 1000);
    for q in &prelude {
        b.extend(q.words());
    }
    b.extend(p.words());
    st.evaluations += 1;
    check_words(&b, st, &|| format!("bare {}", show_inst(&p.inst())))?;
    let mut c = header_words((1, 4), 1000);
    for q in &prelude {
        c.extend(q.words());
    }
    c.extend(W_FUNCTION);
    c.extend(W_LABEL);
    c.extend(p.words());
    c.extend(W_RETURN);
    c.extend(W_FUNCTION_END);
    st.evaluations += 1;
    check_words(&c, st, &|| format!("in-block {}", show_inst(&p.inst())))?;
    // (d) inside a function but outside any block
    let mut d = header_words((1, 4), 1000);
    for q in &prelude {
        d.extend(q.words());
    }
    d.extend(W_FUNCTION);
    d.extend(p.words());
    d.extend(W_FUNCTION_END);
    st.evaluations += 1;
    check_words(&d, st, &|| format!("in-function {}", show_inst(&p.inst())))?;
    // (e) the same four contexts when an id operand of the instruction names an extended
    // instruction set imported earlier (semantic, NonSemantic.*, unknown, empty name): where an
    // instruction belongs is decided by its opcode, never by what its operands refer to
    let mut idrefs: Vec<u32> = vec![];
    for o in &p.operands {
        if let dr::Operand::IdRef(v) = o {
            if !idrefs.contains(v) && idrefs.len() < 3 {
                idrefs.push(*v);
            }
        }
    }
    for (si, set) in EXT_SETS.iter().enumerate() {
        for &x in &idrefs {
            let mut imp = vec![11u32, x];
            imp.extend(str_words(set));
            imp[0] |= (imp.len() as u32) << 16;
            for ctx in 0..4 {
                let mut w = header_words((1, 4), 1000);
                w.extend(&imp);
                for q in &prelude {
                    w.extend(q.words());
                }
                match ctx {
                    0 => w.extend(p.words()),
                    1 => {
                        w.extend(W_FUNCTION);
                        w.extend(p.words());
                        w.extend(W_FUNCTION_END);
                    }
                    2 => {
                        w.extend(W_FUNCTION);
                        w.extend(W_LABEL);
                        w.extend(p.words());
                        w.extend(W_RETURN);
                        w.extend(W_FUNCTION_END);
                    }
                    _ => {
                        w.extend(W_FUNCTION);
                        w.extend(W_LABEL);
                        w.extend(W_RETURN);
                        w.extend(W_FUNCTION_END);
                        w.extend(p.words());
                    }
                }
                st.evaluations += 1;
                check_words(&w, st, &|| format!("{} with operand %{} naming an import of {:?}, context {}", show_inst(&p.inst()), x, EXT_SETS[si], ["bare at module scope", "in a function outside any block", "inside a block", "after the last function"][ctx]))?;
            }
        }
    }
    if !idrefs.is_empty() {
        st.count("opcodes_with_operand_naming_an_import");
    }
    Ok(())
}

/// `ext-inst-contexts`: an extended instruction whose set operand names a real OpExtInstImport
/// (semantic sets, NonSemantic.* sets, unknown and empty names) at every position relative to
/// functions and blocks. At module scope it is a context-dependent module-scope instruction (outside
/// the claim); inside a function but outside a block it is not module-level by any reading and must
/// be reported as detached; inside a block it is a block instruction.
const EXT_SETS: [&str; 8] = ["GLSL.std.450", "OpenCL.std", "NonSemantic.DebugPrintf", "NonSemantic.Shader.DebugInfo.100", "NonSemantic.ClspvReflection.5", "NonSemantic.", "Some.Unknown.Set", ""];
fn sub_ext_inst_contexts(input: &[u8], st: &mut Stats) -> R {
    let k = idx(input) as usize;
    let (pos, rest) = (k % 6, k / 6);
    let (opi, seti) = (rest % 2, rest / 2);
    if seti >= EXT_SETS.len() {
        return Ok(());
    }
    let opcode: u32 = [12, 4433][opi]; // OpExtInst, OpExtInstWithForwardRefsKHR
    let mut w = header_words((1, 6), 200);
    let mut imp = vec![11u32, 1];
    imp.extend(str_words(EXT_SETS[seti]));
    imp[0] |= (imp.len() as u32) << 16;
    w.extend(imp);
    w.extend([0x0002_0013, 2]); // %2 = OpTypeVoid
    w.extend([0x0003_0021, 3, 2]); // %3 = OpTypeFunction %2
    let ext: Vec<u32> = vec![(6 << 16) | opcode, 2, 50, 1, 1 + (k as u32 % 7), 2]; // %50 = OpExtInst %2 %1 n %2
    let label = |id: u32| vec![0x0002_00f8u32, id];
    let func = vec![0x0005_0036u32, 2, 40, 0, 3];
    if pos == 0 {
        w.extend(&ext);
    }
    w.extend(&func);
    match pos {
        1 => {
            w.extend(&ext);
            w.extend(label(41));
            w.extend(W_RETURN);
        }
        2 => {
            w.extend(label(41));
            w.extend(W_RETURN);
            w.extend(&ext);
            w.extend(label(42));
            w.extend(W_RETURN);
        }
        3 => {
            w.extend(label(41));
            w.extend(W_RETURN);
            w.extend(&ext);
        }
        4 => w.extend(&ext),
        5 => {
            w.extend(label(41));
            w.extend(&ext);
            w.extend(W_RETURN);
        }
        _ => {
            w.extend(label(41));
            w.extend(W_RETURN);
        }
    }
    w.extend(W_FUNCTION_END);
    st.evaluations += 1;
    st.nontrivial(k as u64);
    let where_ = ["module scope", "between OpFunction and the first label", "between two blocks", "after the last block", "in a function without blocks", "inside a block"][pos];
    check_words(&w, st, &|| format!("Op{} on an import of {:?}, {}", if opi == 0 { "ExtInst" } else { "ExtInstWithForwardRefsKHR" }, EXT_SETS[seti], where_))
}

/// `huge-modules`: one structural element repeated 65 530 - 1 048 581 times (a third of the cases
/// around 2^20, a third around 2^18) - instructions in one block, blocks in one function, functions,
/// module-level debug names, type declarations - properly closed, or with the last OpFunctionEnd
/// missing, or with a stray block instruction after the last function. The bracketing rule has no
/// size in it.
fn sub_huge(input: &[u8], st: &mut Stats) -> R {
    let mut cs = Cs::new(input);
    let n = match cs.below(3) {
        0 => 1_048_570 + cs.below(12),
        1 => 262_138 + cs.below(12),
        _ => cs.big_count(),
    };
    let pat = cs.below(5);
    let ending = cs.below(4);
    let mut w = header_words((1, 5), 50);
    w.extend([0x0002_0011, 1]); // OpCapability Shader
    w.extend([0x0003_000e, 0, 1]); // OpMemoryModel Logical GLSL450
    match pat {
        3 => {
            for k in 0..n as u32 {
                w.extend([0x0003_0005, 10 + (k & 7), 0x0000_0061]); // OpName %x "a"
            }
        }
        4 => {
            for k in 0..n as u32 {
                w.extend([0x0004_0015, 100 + k, 32, k & 1]); // OpTypeInt 32
            }
        }
        _ => {}
    }
    w.extend([0x0002_0013, 2]); // %2 = OpTypeVoid
    w.extend([0x0003_0021, 3, 2]); // %3 = OpTypeFunction %2
    match pat {
        0 => {
            w.extend([0x0005_0036, 2, 4, 0, 3, 0x0002_00f8, 5]);
            w.extend(std::iter::repeat(0x0001_0000u32).take(n)); // OpNop
            w.extend([0x0001_00fd]);
        }
        1 => {
            w.extend([0x0005_0036, 2, 4, 0, 3]);
            for k in 0..n as u32 {
                w.extend([0x0002_00f8, 1000 + k, 0x0001_00fd]);
            }
        }
        2 => {
            for k in 0..(n as u32 - 1) {
                w.extend([0x0005_0036, 2, 2_000_000 + k, 0, 3, 0x0001_0038]);
            }
            w.extend([0x0005_0036, 2, 4, 0, 3]);
        }
        _ => {
            w.extend([0x0005_0036, 2, 4, 0, 3, 0x0002_00f8, 5, 0x0001_00fd]);
        }
    }
    match ending {
        0 => {} // OpFunctionEnd missing
        1 => {
            w.extend([0x0001_0038, 0x0001_0000]); // closed, then a stray OpNop
        }
        _ => w.extend([0x0001_0038]),
    }
    st.count(&format!("huge_modules_pattern_{}", pat));
    st.nontrivial(hash_str(&format!("{}#{}#{}", pat, n, ending)));
    check_words(&w, st, &|| format!("{} x {} ({}), ending: {}", n, ["OpNop in one block", "label + OpReturn in one function", "OpFunction + OpFunctionEnd", "OpName at module level", "OpTypeInt at module level"][pat], pat, ["OpFunctionEnd missing", "closed, then a stray OpNop", "closed", "closed"][ending]))
}

pub const SUBS: &[Sub] = &[
    Sub { name: "opcode-contexts", f: sub_sweep },
    Sub { name: "alphabet", f: sub_alphabet },
    Sub { name: "modules", f: sub_modules },
    Sub { name: "edge-ids", f: sub_edge_ids },
    Sub { name: "entry-points", f: sub_entry_points },
    Sub { name: "ext-inst-contexts", f: sub_ext_inst_contexts },
    Sub { name: "huge-modules", f: sub_huge },
];

pub fn run(ctx: &Ctx) {
    run_regress(ctx, SUBS);
    drive_enum(ctx, &SUBS[0], (crate::golden::golden().core.len() * 2) as u64);
    let max_len = if ctx.quick() { 5 } else { 6 };
    drive_enum(ctx, &SUBS[1], alphabet_size(max_len));
    drive_random(ctx, &SUBS[2], ctx.n(40_000, 20_000_000), 1600);
    drive_random(ctx, &SUBS[3], ctx.n(8_000, 4_000_000), 4000);
    drive_random(ctx, &SUBS[4], ctx.n(10_000, 5_000_000), 1600);
    drive_enum(ctx, &SUBS[5], (EXT_SETS.len() * 2 * 6) as u64);
    drive_random_costly(ctx, &SUBS[6], ctx.n(2, 400), 64);
    if !ctx.quick() && !ctx.failed() {
        crate::fuzzing::drive_fuzz(ctx, "modules", 200000);
    }
}

pub fn finish(ctx: &Ctx) -> i32 {
    crate::engine::finish(
        ctx,
        Finish {
            rule: "cases: (a) every core opcode (min and max form) in four contexts: minimal well-bracketed wrapper, bare at module scope, inside an open block, inside a function outside any block; (b) ALL words up to length 5 (thorough: 6) over the 12-letter structural alphabet {function, end, parameter, label, terminator, block instruction, variable, undef, line, type, capability, decoration}; (c) generated modules with up to two structural faults (instruction deleted / duplicated / swapped). Oracle: layout automaton R2 (hand-written instruction classes): load_words is Ok iff R2 accepts; on Err the dr::Error class of the first offending instruction; on Ok a field-by-field comparison with the model module (sections, functions, blocks, order) plus def/end/label/terminator invariants. non-trivial = stream with a function and >= 4 instructions; distinct = hash of the words. `entry-points`: the verdict (and, on success, the module) must be the same through dr::load_bytes, dr::load_words, parse_bytes / parse_words driving a caller-owned Loader::new() or Loader::default(), and a Loader fed by hand through its Consumer methods. Added in rounds 18-19: opcode-contexts with an operand naming an imported set (8 names); huge-modules (one structural element repeated up to 1 048 581 times, closed / unclosed / stray instruction).",
            assumptions: vec![
                "context-dependent or vendor-specified module-scope opcodes (vendor OpType*/OpConstant* outside the documented classes, module-scope OpExtInst etc.) are outside the claim and skipped (counted)".into(),
                "at end of stream with a block open either UnclosedBlock or UnclosedFunction is admissible".into(),
            ],
            trusted_base: vec!["layout model R2 + refclass lists".into(), "reference parser R1".into()],
        },
    )
}
