//! C02 — assemble and parse are exact inverses on grammar-conforming instructions.

use crate::cs::Cs;
use crate::engine::*;
use crate::ensure;
use crate::golden::golden;
use crate::layout::type_prelude;
use crate::model::*;
use crate::rs::*;
use crate::sweep;
use rspirv::binary::Assemble;
use rspirv::dr;
use rspirv::grammar::OperandQuantifier as Q;

fn embedded_quantified(p: &Plan) -> bool {
    match p.shape.embedded {
        Some(code) => {
            let g = golden();
            let gi = &g.core[*g.core_by_code.get(&code).unwrap()];
            gi.operands.iter().any(|(_, q)| *q != Q::One)
        }
        None => false,
    }
}

fn tag(p: &Plan) -> String {
    if embedded_quantified(p) {
        format!("{}[embedded op with optional/variadic operands]", p.opname)
    } else if p.shape.embedded.is_some() {
        format!("{}[embedded]", p.opname)
    } else {
        p.opname.to_string()
    }
}

/// The oracle shared by the random and the sweep sub-checks.
pub fn check_plan(prelude: &[Plan], p: &Plan, st: &mut Stats) -> R {
    let inst = p.inst();
    let expect = p.words();
    let decoded = || {
        let mut s = String::new();
        for q in prelude {
            s.push_str(&format!("{}\n", show_inst(&q.inst())));
        }
        s.push_str(&format!("{}\nwords: {}", show_inst(&inst), show_words(&expect)));
        s
    };
    // (1) assemble emits the specification's encoding
    let got = no_panic("Instruction::assemble", || inst.assemble()).map_err(|f| f.with_decoded(decoded()))?;
    if got != expect {
        let first = got
            .iter()
            .zip(&expect)
            .position(|(a, b)| a != b)
            .unwrap_or(got.len().min(expect.len()));
        let what = if got.len() != expect.len() {
            "length"
        } else if first == 0 {
            "first-word"
        } else {
            "operand-word"
        };
        return Err(Fail::new(
            "assemble-encoding",
            format!("{}:{}", tag(p), what),
            format!(
                "assemble() of {} gives [{}], the specification's encoding is [{}]",
                show_inst(&inst),
                show_words(&got),
                show_words(&expect)
            ),
        )
        .with_decoded(decoded()));
    }
    ensure!(
        (got[0] >> 16) as usize == got.len() && (got[0] & 0xffff) == p.opcode,
        "assemble-first-word",
        tag(p),
        "first word {:08x} does not carry word count {} / opcode {}",
        got[0],
        got.len(),
        p.opcode
    );
    // (1b) the other assembling entry points emit the same words: assemble_into (appending), and
    // the instruction inside a block (with and without label), a function and a module
    {
        let wrapf = |what: &str, words: &[u32]| -> R {
            if words != &expect[..] {
                return Err(Fail::new(
                    "assemble-entry-points",
                    format!("{}:{}", tag(p), what),
                    format!("{} of {} emits [{}], Instruction::assemble emits [{}]", what, show_inst(&inst), show_words(words), show_words(&expect)),
                )
                .with_decoded(decoded()));
            }
            Ok(())
        };
        let mut into = vec![0x1234_5678u32];
        no_panic("Instruction::assemble_into", || inst.assemble_into(&mut into)).map_err(|f| f.with_decoded(decoded()))?;
        ensure!(into[0] == 0x1234_5678, "assemble-entry-points", tag(p), "assemble_into overwrote the buffer");
        wrapf("assemble_into", &into[1..])?;
        let mut blk = dr::Block::new();
        blk.instructions.push(inst.clone());
        let w = no_panic("Block::assemble", || blk.assemble()).map_err(|f| f.with_decoded(decoded()))?;
        wrapf("Block(label None)::assemble", &w)?;
        let mut func = dr::Function::new();
        func.blocks.push(blk.clone());
        let w = no_panic("Function::assemble", || func.assemble()).map_err(|f| f.with_decoded(decoded()))?;
        wrapf("Function(def None)::assemble", &w)?;
        blk.label = Some(crate::rs::mk_inst(spirv::Op::Label, None, Some(77), vec![]));
        let w = no_panic("Block::assemble", || blk.assemble()).map_err(|f| f.with_decoded(decoded()))?;
        ensure!(w.len() >= 2, "assemble-entry-points", tag(p), "labelled block assembles to {} words", w.len());
        wrapf("Block(labelled)::assemble", &w[2..])?;
        let mut m = dr::Module::new();
        m.types_global_values.push(inst.clone());
        m.functions.push(func);
        let w = no_panic("Module::assemble", || m.assemble()).map_err(|f| f.with_decoded(decoded()))?;
        // once as a global value, once inside the function's block
        ensure!(w.len() == 2 * expect.len(), "assemble-entry-points", tag(p), "module with the instruction twice assembles to {} words, expected {}", w.len(), 2 * expect.len());
        wrapf("Module::assemble (global value)", &w[..expect.len()])?;
        wrapf("Module::assemble (block instruction)", &w[expect.len()..])?;
    }
    // (2) parsing those words delivers an equal instruction
    let mut bin = header_words((1, 6), 1000);
    for q in prelude {
        bin.extend(q.words());
    }
    bin.extend(&expect);
    let (c, r) = parse_words_collect(&bin).map_err(|f| f.with_decoded(decoded()))?;
    if let Err(e) = &r {
        return Err(Fail::new(
            "parse-rejects-conforming",
            format!("{}:{}", tag(p), state_name(e)),
            format!("parser rejects a grammar-conforming {}: {}", p.opname, e),
        )
        .with_decoded(decoded()));
    }
    ensure!(
        c.insts.len() == prelude.len() + 1,
        "parse-count",
        tag(p),
        "parser delivered {} instructions for {}",
        c.insts.len(),
        prelude.len() + 1
    );
    let back = c.insts.last().unwrap();
    if *back != inst {
        let what = if back.class.opcode != inst.class.opcode {
            "opcode".to_string()
        } else if back.result_type != inst.result_type || back.result_id != inst.result_id {
            "result".to_string()
        } else if back.operands.len() != inst.operands.len() {
            "operand-count".to_string()
        } else {
            let i = back
                .operands
                .iter()
                .zip(&inst.operands)
                .position(|(a, b)| a != b)
                .unwrap_or(0);
            let v = format!("{:?}", inst.operands[i]);
            format!("operand:{}", v.split('(').next().unwrap_or(""))
        };
        return Err(Fail::new(
            "parse-roundtrip",
            format!("{}:{}", tag(p), what),
            format!(
                "parsed instruction differs: built {} / parsed {}",
                show_inst(&inst),
                show_inst(back)
            ),
        )
        .with_decoded(decoded()));
    }
    for (q, b) in prelude.iter().zip(&c.insts) {
        ensure!(
            q.inst() == *b,
            "parse-roundtrip",
            format!("{}:prelude", q.opname),
            "prelude instruction differs: {} / {}",
            show_inst(&q.inst()),
            show_inst(b)
        );
    }
    // parse_bytes agrees
    let bytes = words_to_bytes(&bin);
    let (c2, r2) = parse_bytes_collect(&bytes)?;
    ensure!(
        r2.is_ok() && c2.insts == c.insts,
        "parse-bytes-vs-words",
        tag(p),
        "parse_bytes and parse_words disagree on the same binary"
    );
    // (3) self-check of the oracle: the reference parser accepts the same words
    let rp = ref_parse(&bytes);
    let ok = rp.end == End::Clean
        && rp.insts.len() == prelude.len() + 1
        && rinst_to_dr(rp.insts.last().unwrap()).as_ref() == Some(&inst);
    if !ok {
        return Err(Fail::new(
            "oracle-self-check",
            tag(p),
            format!(
                "reference parser R1 disagrees with the plan: end={:?} last={:?}",
                rp.end,
                rp.insts.last()
            ),
        )
        .with_decoded(decoded()));
    }
    // statistics
    st.set_insert("opcodes", p.opname);
    for (k, v) in &p.shape.enumerants {
        st.set_insert("enumerants", format!("{:?}:{}", k, v));
    }
    for (k, v) in &p.shape.mask_bits {
        st.set_insert("mask_bits", format!("{:?}:{:#x}", k, v));
    }
    for l in &p.shape.strings {
        st.set_insert("string_len_mod4", format!("{}", l % 4));
    }
    if p.shape.lit64 > 0 {
        st.count("with_64bit_literal");
    }
    if p.shape.optionals_present > 0 {
        st.count("with_optional_present");
    }
    if p.shape.optionals_absent > 0 {
        st.count("with_optional_absent");
    }
    for r in &p.shape.variadic_reps {
        st.count(match r {
            0 => "variadic_0",
            1 => "variadic_1",
            _ => "variadic_many",
        });
    }
    if expect.len() > 1023 {
        st.count("instructions_over_1023_words");
    }
    if let Some(e) = p.shape.embedded {
        st.set_insert("embedded_opcodes", format!("{}", e));
    }
    if !p.operands.is_empty() || p.rid.is_some() {
        st.nontrivial(hash_words(&expect));
    }
    st.sample(|| format!("{}  =>  [{}]", show_inst(&inst), show_words(&expect)));
    Ok(())
}

fn sub_random(input: &[u8], st: &mut Stats) -> R {
    random_case(input, st, false)
}

/// as `random`, with function / block delimiters and other unrelated instructions scattered
/// through the prelude: the instruction under test sits in the n-th function, its types and
/// typed values are declared at module scope or inside an earlier function body
fn sub_structured(input: &[u8], st: &mut Stats) -> R {
    random_case(input, st, true)
}

fn random_case(input: &[u8], st: &mut Stats, structured: bool) -> R {
    let mut cs = Cs::new(input);
    let g = golden();
    let mut gen = Gen::new();
    gen.next_id = 100;
    let mut prelude = vec![];
    type_prelude(&mut gen, &mut cs, &mut prelude, false);
    // typed values (for OpSwitch selectors)
    if !gen.typed_ids.is_empty() && cs.bool() {
        let t = gen.typed_ids[cs.below(gen.typed_ids.len())];
        let vid = gen.fresh_cs(&mut cs);
        let p2 = Plan {
            opcode: 1,
            opname: "Undef",
            rtype: Some(t),
            rid: Some(vid),
            operands: vec![],
            body: vec![t, vid],
            shape: Shape::default(),
        };
        gen.track(&p2);
        prelude.push(p2);
    }
    if structured {
        let n = 1 + cs.below(6);
        for _ in 0..n {
            let name = ["Function", "FunctionEnd", "Label", "Return", "FunctionParameter", "FunctionEnd", "Nop", "Function"][cs.below(8)];
            if let Some(q) = gen.plan(&mut cs, crate::layout::gi_by_name(name)) {
                gen.track(&q);
                let at = cs.below(prelude.len() + 1);
                prelude.insert(at, q);
            }
        }
        // the tracker state the generator assumes must be the one of the final order
        let mut g2 = Gen::new();
        for q in &prelude {
            g2.track(q);
        }
        gen.tc = g2.tc;
        gen.typed_ids = g2.typed_ids;
        st.count("structured_preludes");
    }
    let gi = match cs.below(8) {
        0 => crate::layout::gi_by_name("Constant"),
        1 => crate::layout::gi_by_name("Switch"),
        2 => crate::layout::gi_by_name("SpecConstantOp"),
        _ => &g.core[cs.below(g.core.len())],
    };
    if cs.below(24) == 0 {
        // instructions longer than 1023 words: many variadic repetitions / very long strings
        gen.max_rep = 1400;
        gen.long_strings = true;
        st.count("long_instruction_mode");
    }
    let Some(p) = gen.plan(&mut cs, gi) else {
        st.count("skipped_no_conforming_instance");
        return Ok(());
    };
    check_plan(&prelude, &p, st)
}

/// `bulk-prelude`: a context-dependent instruction (OpConstant / OpSpecConstant / OpSwitch, now and
/// then any opcode) behind a prelude into which a run of 65 530 - 135 000 declarations is inserted -
/// pairwise different scalar type shapes, one shape under many ids, typed values, or OpNop - so that
/// the number of things declared before the instruction crosses 2^16 / 2^17. Its own types are
/// declared before or after the run.
fn sub_bulk(input: &[u8], st: &mut Stats) -> R {
    let mut cs = Cs::new(input);
    let g = golden();
    let mut gen = Gen::new();
    gen.next_id = 100;
    let mut prelude = vec![];
    type_prelude(&mut gen, &mut cs, &mut prelude, true);
    let split = prelude.len();
    type_prelude(&mut gen, &mut cs, &mut prelude, true);
    for _ in 0..cs.below(3) {
        if gen.typed_ids.is_empty() {
            break;
        }
        let t = gen.typed_ids[cs.below(gen.typed_ids.len())];
        let vid = gen.fresh_cs(&mut cs);
        let p2 = Plan { opcode: 1, opname: "Undef", rtype: Some(t), rid: Some(vid), operands: vec![], body: vec![t, vid], shape: Shape::default() };
        gen.track(&p2);
        prelude.push(p2);
    }
    let n = cs.big_count().min(262_150); // three parses per case: the 2^20 runs are left to C03 / C10 / C05
    let kind = cs.below(4);
    let base: u32 = [1_000_000u32, 30_000, 65_000][cs.below(3)];
    let t_any = gen.typed_ids.first().copied().unwrap_or(99);
    let run: Vec<Plan> = (0..n as u32)
        .map(|i| {
            let id = base + i;
            match kind {
                0 => Plan { opcode: OP_TYPE_INT, opname: "TypeInt", rtype: None, rid: Some(id), operands: vec![dr::Operand::LiteralBit32(100 + i), dr::Operand::LiteralBit32(0)], body: vec![id, 100 + i, 0], shape: Shape::default() },
                1 => Plan { opcode: OP_TYPE_INT, opname: "TypeInt", rtype: None, rid: Some(id), operands: vec![dr::Operand::LiteralBit32(32), dr::Operand::LiteralBit32(1)], body: vec![id, 32, 1], shape: Shape::default() },
                2 => Plan { opcode: 1, opname: "Undef", rtype: Some(t_any), rid: Some(id), operands: vec![], body: vec![t_any, id], shape: Shape::default() },
                _ => Plan { opcode: 0, opname: "Nop", rtype: None, rid: None, operands: vec![], body: vec![], shape: Shape::default() },
            }
        })
        .collect();
    let at = [0, split, prelude.len()][cs.below(3)];
    let tail = prelude.split_off(at);
    prelude.extend(run);
    prelude.extend(tail);
    let gi = match cs.below(8) {
        0..=2 => crate::layout::gi_by_name("Constant"),
        3..=4 => crate::layout::gi_by_name("Switch"),
        5 => crate::layout::gi_by_name("SpecConstant"),
        6 => crate::layout::gi_by_name("SpecConstantOp"),
        _ => &g.core[cs.below(g.core.len())],
    };
    let Some(p) = gen.plan(&mut cs, gi) else {
        st.count("skipped_no_conforming_instance");
        return Ok(());
    };
    st.count("bulk_preludes");
    check_plan(&prelude, &p, st)
}

/// as `random`, with result ids (type ids, typed values) occasionally 0 / 0x7fffffff /
/// 0x80000000 / 0xffffffff
fn sub_edge_ids(input: &[u8], st: &mut Stats) -> R {
    with_edge_ids(|| sub_random(input, st))
}

/// instructions at the upper end of the 16-bit word-count field: total lengths 65530..=65535
/// words (the maximum the first word can declare) for a variadic id list, a pair list and a string
fn sub_max_length(input: &[u8], st: &mut Stats) -> R {
    let k = idx(input) as usize;
    if k >= 6 * 3 {
        return Ok(());
    }
    let total = 65530 + k / 3; // words including the first word
    let p = match k % 3 {
        0 => {
            // %1 = OpTypeStruct %2 ... : first word + result id + members
            let n = total - 2;
            let mut body = vec![1u32];
            body.extend(std::iter::repeat(2).take(n));
            Plan { opcode: 30, opname: "TypeStruct", rtype: None, rid: Some(1), operands: vec![dr::Operand::IdRef(2); n], body, shape: Shape::default() }
        }
        1 => {
            // %2 = OpPhi %1 (%3 %4)* : first word + type + id + pairs (odd totals only fit with 2k+3)
            let pairs = (total - 3) / 2;
            let mut body = vec![1u32, 2];
            let mut ops = vec![];
            for _ in 0..pairs {
                body.extend([3, 4]);
                ops.push(dr::Operand::IdRef(3));
                ops.push(dr::Operand::IdRef(4));
            }
            Plan { opcode: 245, opname: "Phi", rtype: Some(1), rid: Some(2), operands: ops, body, shape: Shape::default() }
        }
        _ => {
            // %1 = OpString "aaaa..." : first word + id + string words
            let sw = total - 2;
            let s: String = std::iter::repeat('a').take(sw * 4 - 1 - (k % 2)).collect();
            let mut body = vec![1u32];
            body.extend(str_words(&s));
            Plan { opcode: 7, opname: "String", rtype: None, rid: Some(1), operands: vec![dr::Operand::LiteralString(s)], body, shape: Shape::default() }
        }
    };
    st.count(&format!("max_length_words_{}", p.body.len() + 1));
    check_plan(&[], &p, st)
}

fn sub_sweep(input: &[u8], st: &mut Stats) -> R {
    let i = idx(input);
    let cases = sweep::cases();
    let Some(case) = cases.get(i as usize) else { return Ok(()) };
    // several fills of the remaining free choices per case
    for rep in 0..3u64 {
        match sweep::build(case, i * 8 + rep) {
            Some((prelude, p)) => {
                st.count(&format!("sweep_{}", case.what));
                if rep > 0 {
                    st.evaluations += 1;
                }
                check_plan(&prelude, &p, st)?;
            }
            None => st.count("sweep_skipped"),
        }
    }
    Ok(())
}

pub const SUBS: &[Sub] = &[
    Sub {
        name: "sweep",
        f: sub_sweep,
    },
    Sub {
        name: "random",
        f: sub_random,
    },
    Sub {
        name: "edge-ids",
        f: sub_edge_ids,
    },
    Sub {
        name: "structured-prelude",
        f: sub_structured,
    },
    Sub {
        name: "max-length",
        f: sub_max_length,
    },
    Sub {
        name: "bulk-prelude",
        f: sub_bulk,
    },
];

pub fn run(ctx: &Ctx) {
    let uncovered = sweep::uncovered_kinds();
    ctx.note(format!(
        "sweep cases: {}; operand kinds without a carrier instruction: {:?}",
        sweep::cases().len(),
        uncovered
    ));
    run_regress(ctx, SUBS);
    drive_enum(ctx, &SUBS[0], sweep::cases().len() as u64);
    drive_random(ctx, &SUBS[1], ctx.n(30_000, 20_000_000), 256);
    drive_random(ctx, &SUBS[2], ctx.n(15_000, 10_000_000), 256);
    drive_random(ctx, &SUBS[3], ctx.n(15_000, 10_000_000), 320);
    drive_enum(ctx, &SUBS[4], 18);
    drive_random_costly(ctx, &SUBS[5], ctx.n(16, 4_000), 300);
}

pub fn finish(ctx: &Ctx) -> i32 {
    crate::engine::finish(
        ctx,
        Finish {
            rule: "cases: (a) complete sweep = every core opcode in minimal and maximal form, every enumerant of every operand kind, every single bit / pair of bits / all bits of every mask, every opcode embedded in OpSpecConstantOp (x3 fills each); (b) random grammar-directed plans over all 787 opcodes with a random int/float type prelude. (b') the same with result ids (type ids, typed values, selectors) drawn from the extreme values 0 / 0x7fffffff / 0x80000000 / 0xffffffff. (b'') the same with OpFunction / OpFunctionParameter / OpLabel / OpReturn / OpFunctionEnd / OpNop scattered through the prelude, so that the instruction sits in a later function and its types or typed values are declared at module scope or in an earlier function body. (c) instructions of 65530..=65535 words (the largest count the first word can declare): an id list, a pair list, a string. Oracle: Instruction::assemble == words built from numeric values by the generator; parse_words/parse_bytes of header+prelude+words deliver an equal instruction; reference parser R1 accepts the same words. non-trivial = instruction with at least one operand or a result id; distinct = hash of the encoded words. Added in rounds 18-19: bulk-prelude (65 530 - 262 150 declarations before the instruction); ids straddling powers of two and ten in edge-ids.",
            assumptions: vec![
                "grammar facts (operand kinds, quantifiers, enumerant parameters) come from the golden snapshot of the pinned tree, cross-checked against hand-written specification anchors (golden/verify.py)".into(),
                "ids are defined once; context-dependent literals are generated only for supported widths".into(),
            ],
            trusted_base: vec!["golden/api.json".into(), "harness generator G-inst and reference parser R1".into(), "proptest".into()],
        },
    )
}
