//! C15 — module traversals visit exactly the assembled instruction sequence.

use crate::cs::Cs;
use crate::engine::*;
use rspirv::binary::Assemble;
use rspirv::dr::{self, Operand};

fn mk(cs: &mut Cs, marker: &mut u32) -> dr::Instruction {
    *marker += 1;
    let m = *marker;
    match cs.below(9) {
        0 => crate::rs::mk_inst(spirv::Op::Undef, Some(7), Some(m), vec![]),
        1 => crate::rs::mk_inst(spirv::Op::Name, None, None, vec![Operand::IdRef(m), Operand::LiteralString(cs.string())]),
        2 => crate::rs::mk_inst(spirv::Op::Nop, None, Some(m), vec![]),
        3 => crate::rs::mk_inst(spirv::Op::Constant, Some(3), Some(m), vec![Operand::LiteralBit64(cs.lit64())]),
        4 => crate::rs::mk_inst(spirv::Op::Label, None, Some(m), vec![]),
        5 | 6 => {
            // structural opcodes in ANY slot (the fields are public: nothing ties an opcode to
            // the slot it is stored in)
            let op = [
                spirv::Op::Function,
                spirv::Op::FunctionEnd,
                spirv::Op::FunctionParameter,
                spirv::Op::Label,
                spirv::Op::Return,
                spirv::Op::Branch,
                spirv::Op::Kill,
                spirv::Op::MemoryModel,
                spirv::Op::Capability,
                spirv::Op::Line,
                spirv::Op::NoLine,
                spirv::Op::Variable,
                spirv::Op::TypeInt,
                spirv::Op::ExtInstImport,
            ][cs.below(14)];
            crate::rs::mk_inst(op, None, Some(m), vec![])
        }
        _ => crate::rs::mk_inst(spirv::Op::IAdd, Some(1), Some(m), vec![Operand::IdRef(cs.below(9) as u32), Operand::IdRef(2)]),
    }
}

thread_local! {
    /// sparse mode: most sections empty (so that "only this one section is populated" occurs)
    static SPARSE: std::cell::Cell<bool> = const { std::cell::Cell::new(false) };
}

fn vecn(cs: &mut Cs, marker: &mut u32) -> Vec<dr::Instruction> {
    if SPARSE.with(|c| c.get()) && cs.below(8) != 0 {
        return vec![];
    }
    let n = cs.below(4);
    let mut v: Vec<dr::Instruction> = (0..n).map(|_| mk(cs, marker)).collect();
    // runs of identical instructions (same ids and operands): nothing makes instructions unique
    if !v.is_empty() && cs.below(4) == 0 {
        let at = cs.below(v.len());
        let reps = 1 + cs.below(5);
        let x = v[at].clone();
        for _ in 0..reps {
            v.insert(at, x.clone());
        }
    }
    v
}

pub fn gen_module(cs: &mut Cs) -> dr::Module {
    SPARSE.with(|c| c.set(false));
    let sparse = cs.below(3) == 0;
    SPARSE.with(|c| c.set(sparse));
    let m = gen_module_inner(cs);
    SPARSE.with(|c| c.set(false));
    m
}

/// every header field is public: half of the headers carry other values than `ModuleHeader::new`
/// puts there - the byte-swapped magic number, 0, arbitrary words; any version word; the generator
/// word of each registered tool; a non-zero reserved word. Assembly emits the five fields as they are.
fn vary_header(cs: &mut Cs, h: &mut dr::ModuleHeader) {
    if cs.bool() {
        return;
    }
    if cs.bool() {
        h.magic_number = [0x0302_2307u32, 0, 0xffff_ffff, 0x0723_0203, 0x0723_0000][cs.below(5)];
        if cs.below(4) == 0 {
            h.magic_number = cs.u32();
        }
    }
    if cs.bool() {
        h.version = [0u32, 0x0001_0000, 0x0001_0600, 0x0100_0000, 0x00ff_ff00, 0xffff_ffff][cs.below(6)];
    }
    if cs.bool() {
        h.generator = ((cs.below(49) as u32) << 16) | [0u32, 1, 0xffff][cs.below(3)];
    }
    if cs.below(4) == 0 {
        h.reserved_word = cs.lit32();
    }
}

fn gen_module_inner(cs: &mut Cs) -> dr::Module {
    let mut m = dr::Module::new();
    let mut marker = 1000;
    if cs.bool() {
        let mut h = dr::ModuleHeader::new(cs.lit32());
        h.set_version(1, cs.below(7) as u8);
        vary_header(cs, &mut h);
        m.header = Some(h);
    }
    m.capabilities = vecn(cs, &mut marker);
    m.extensions = vecn(cs, &mut marker);
    m.ext_inst_imports = vecn(cs, &mut marker);
    if cs.bool() {
        m.memory_model = Some(mk(cs, &mut marker));
    }
    m.entry_points = vecn(cs, &mut marker);
    m.execution_modes = vecn(cs, &mut marker);
    m.debug_string_source = vecn(cs, &mut marker);
    m.debug_names = vecn(cs, &mut marker);
    m.debug_module_processed = vecn(cs, &mut marker);
    m.annotations = vecn(cs, &mut marker);
    m.types_global_values = vecn(cs, &mut marker);
    let sparse = SPARSE.with(|c| c.get());
    SPARSE.with(|c| c.set(false));
    let nf = if sparse { cs.below(2) } else { cs.below(4) };
    for _ in 0..nf {
        let mut f = dr::Function::new();
        if cs.below(4) != 0 {
            f.def = Some(mk(cs, &mut marker));
        }
        f.parameters = {
            let n = cs.below(3);
            (0..n).map(|_| mk(cs, &mut marker)).collect()
        };
        let nb = cs.below(4);
        for _ in 0..nb {
            let mut b = dr::Block::new();
            if cs.below(4) != 0 {
                b.label = Some(mk(cs, &mut marker));
            }
            b.instructions = vecn(cs, &mut marker);
            f.blocks.push(b);
        }
        if cs.below(4) != 0 {
            f.end = Some(mk(cs, &mut marker));
        }
        m.functions.push(f);
    }
    m
}

/// own traversal, written from the field list of dr::Module
fn own_globals(m: &dr::Module) -> Vec<dr::Instruction> {
    let mut v = vec![];
    v.extend(m.capabilities.iter().cloned());
    v.extend(m.extensions.iter().cloned());
    v.extend(m.ext_inst_imports.iter().cloned());
    v.extend(m.memory_model.iter().cloned());
    v.extend(m.entry_points.iter().cloned());
    v.extend(m.execution_modes.iter().cloned());
    v.extend(m.debug_string_source.iter().cloned());
    v.extend(m.debug_names.iter().cloned());
    v.extend(m.debug_module_processed.iter().cloned());
    v.extend(m.annotations.iter().cloned());
    v.extend(m.types_global_values.iter().cloned());
    v
}
fn own_function(f: &dr::Function) -> Vec<dr::Instruction> {
    let mut v = vec![];
    v.extend(f.def.iter().cloned());
    v.extend(f.parameters.iter().cloned());
    for b in &f.blocks {
        v.extend(b.label.iter().cloned());
        v.extend(b.instructions.iter().cloned());
    }
    v.extend(f.end.iter().cloned());
    v
}

fn split(words: &[u32]) -> Option<Vec<Vec<u32>>> {
    let mut v = vec![];
    let mut i = 0;
    while i < words.len() {
        let wc = (words[i] >> 16) as usize;
        if wc == 0 || i + wc > words.len() {
            return None;
        }
        v.push(words[i..i + wc].to_vec());
        i += wc;
    }
    Some(v)
}

fn show(v: &[dr::Instruction]) -> String {
    v.iter().map(crate::model::show_inst).collect::<Vec<_>>().join("; ")
}

/// `over-long`: an instruction longer than 65535 words inside a module
fn sub_over_long(input: &[u8], st: &mut Stats) -> R {
    let mut cs = Cs::new(input);
    // an instruction longer than the 16-bit word-count field can express (a huge id list, an
    // embedded source text) somewhere inside a module: its first word cannot hold the count, but
    // the concatenation clause speaks of words only and must hold all the same - whatever
    // `Instruction::assemble` yields for it alone must appear at its place in the module
    {
        let n = 65_530 + cs.below(4000);
        let small = |k: u32| crate::rs::mk_inst(spirv::Op::Undef, Some(1), Some(100 + k), vec![]);
        let mut lm = dr::Module::new();
        if cs.bool() {
            lm.header = Some(dr::ModuleHeader::new(8));
        }
        let (pre, post) = (cs.below(3), cs.below(3));
        let as_string = cs.bool();
        let long = if as_string {
            crate::rs::mk_inst(spirv::Op::String, None, Some(1), vec![Operand::LiteralString("s".repeat(n * 4))])
        } else {
            crate::rs::mk_inst(spirv::Op::TypeStruct, None, Some(1), vec![Operand::IdRef(2); n])
        };
        for k in 0..pre {
            lm.capabilities.push(crate::rs::mk_inst(spirv::Op::Capability, None, None, vec![Operand::Capability(spirv::Capability::Shader)]));
            let _ = k;
        }
        if as_string {
            lm.debug_string_source.push(long);
        } else {
            lm.types_global_values.push(long);
        }
        for k in 0..post {
            lm.types_global_values.push(small(k as u32));
        }
        let visited: Vec<dr::Instruction> = no_panic("Module::all_inst_iter (over-long instruction)", || lm.all_inst_iter().cloned().collect())?;
        let asm = no_panic("Module::assemble (over-long instruction)", || lm.assemble())?;
        let mut want: Vec<u32> = vec![];
        if let Some(h) = &lm.header {
            want.extend([h.magic_number, h.version, h.generator, h.bound, h.reserved_word]);
        }
        for i in &visited {
            want.extend(no_panic("Instruction::assemble (over-long instruction)", || i.assemble())?);
        }
        if visited.len() != pre + 1 + post || asm != want {
            return Err(Fail::new(
                "assemble-concatenation",
                "over-long-instruction",
                format!("module with {} instructions before and {} after an instruction of about {} words ({}): assemble() has {} words, header ++ concat(visited instructions) has {} ({} visited)", pre, post, n, if as_string { "string" } else { "id list" }, asm.len(), want.len(), visited.len()),
            ));
        }
        st.count("over_long_instruction_inside_module");
    }
    st.evaluations += 1;
    st.nontrivial(hash64(input));
    Ok(())
}

fn sub_modules(input: &[u8], st: &mut Stats) -> R {
    let mut cs = Cs::new(input);
    let m = gen_module(&mut cs);
    // assembling is a pure function of the value: now and then something very large is
    // assembled on this thread first (an instruction of 20 000 operands, a module of thousands
    // of instructions)
    if cs.below(24) == 0 {
        let big = crate::rs::mk_inst(spirv::Op::TypeStruct, None, Some(1), vec![Operand::IdRef(2); 17_000 + cs.below(9000)]);
        let w = no_panic("Instruction::assemble (large)", || big.assemble())?;
        if w.len() != big.operands.len() + 2 {
            return Err(Fail::new("assemble-concatenation", "large-instruction", format!("an instruction with {} operands assembles to {} words", big.operands.len(), w.len())));
        }
        let mut bm = dr::Module::new();
        bm.types_global_values = vec![crate::rs::mk_inst(spirv::Op::Undef, Some(1), Some(2), vec![]); 6000];
        let w = no_panic("Module::assemble (large)", || bm.assemble())?;
        if w.len() != 18_000 {
            return Err(Fail::new("assemble-concatenation", "large-module", format!("6000 three-word instructions assemble to {} words", w.len())));
        }
        st.count("large_assembly_first");
    }
    check_module(m, st)
}

/// every instruction of the sweep (each core opcode in minimal and maximal form, every enumerant of
/// every operand kind, every mask bit) once, with the section its layout class belongs to
fn content_pool() -> &'static Vec<(crate::refclass::Layout, dr::Instruction)> {
    static P: std::sync::OnceLock<Vec<(crate::refclass::Layout, dr::Instruction)>> = std::sync::OnceLock::new();
    P.get_or_init(|| {
        let mut v = vec![];
        for (i, case) in crate::sweep::cases().iter().enumerate() {
            if let Some((_, p)) = crate::sweep::build(case, i as u64 * 8 + 1) {
                if p.body.len() < 60 {
                    v.push((crate::refclass::layout(p.opname), p.inst()));
                }
            }
        }
        v
    })
}

/// `content-rich`: modules whose sections hold a random half (quarter, eighth) of ALL sweep
/// instructions at once - every capability, every decoration with every linkage type, every
/// execution mode ... - and 2-6 functions, with and without blocks, whose result ids are drawn from
/// the ids the annotations, names and entry points of that module refer to. Traversal order and
/// assembly are functions of where an instruction is stored, never of what it says; with hundreds
/// of different instructions per module, conjunctions of particular contents occur in every case.
fn sub_content(input: &[u8], st: &mut Stats) -> R {
    use crate::refclass::Layout as L;
    let mut cs = Cs::new(input);
    let pool = content_pool();
    let keep = [2usize, 2, 4, 8][cs.below(4)];
    let mut m = dr::Module::new();
    if cs.below(4) != 0 {
        let mut h = dr::ModuleHeader::new(cs.lit32());
        h.set_version(1, cs.below(7) as u8);
        m.header = Some(h);
    }
    let small_ids: u32 = [0u32, 2, 4, 8][cs.below(4)];
    let mut referred: Vec<u32> = vec![];
    let mut body: Vec<dr::Instruction> = vec![];
    let mut terms: Vec<dr::Instruction> = vec![];
    for (l, inst) in pool.iter() {
        if cs.below(keep) != 0 {
            continue;
        }
        let mut inst = inst.clone();
        if small_ids > 0 {
            // a tiny id space: what the instructions refer to coincides with the function ids
            for o in inst.operands.iter_mut() {
                if let Operand::IdRef(x) = o {
                    *x = 1 + *x % small_ids;
                }
            }
        }
        match l {
            L::Capability => m.capabilities.push(inst),
            L::Extension => m.extensions.push(inst),
            L::ExtInstImport => m.ext_inst_imports.push(inst),
            L::MemoryModel => m.memory_model = Some(inst),
            L::EntryPoint | L::ExecutionMode | L::DebugName | L::Annotation => {
                for o in &inst.operands {
                    if let Operand::IdRef(x) = o {
                        if !referred.contains(x) {
                            referred.push(*x);
                        }
                        break;
                    }
                }
                match l {
                    L::EntryPoint => m.entry_points.push(inst),
                    L::ExecutionMode => m.execution_modes.push(inst),
                    L::DebugName => m.debug_names.push(inst),
                    _ => m.annotations.push(inst),
                }
            }
            L::DebugStringSource => m.debug_string_source.push(inst),
            L::ModuleProcessed => m.debug_module_processed.push(inst),
            L::TypeConst | L::VarUndef | L::Line | L::DontCare => m.types_global_values.push(inst),
            L::Terminator => terms.push(inst),
            L::Block | L::BlockOrDontCare => body.push(inst),
            L::Function | L::FunctionEnd | L::Parameter | L::Label => {}
        }
    }
    if referred.is_empty() {
        referred.push(1);
    }
    let nf = 2 + cs.below(5);
    let mut next = 900_000u32;
    for _ in 0..nf {
        let mut f = dr::Function::new();
        let id = if cs.below(4) != 0 { referred[cs.below(referred.len())] } else { next += 1; next };
        let control = [spirv::FunctionControl::NONE, spirv::FunctionControl::INLINE, spirv::FunctionControl::PURE][cs.below(3)];
        f.def = Some(crate::rs::mk_inst(spirv::Op::Function, Some(2), Some(id), vec![Operand::FunctionControl(control), Operand::IdRef(3)]));
        for _ in 0..cs.below(3) {
            next += 1;
            f.parameters.push(crate::rs::mk_inst(spirv::Op::FunctionParameter, Some(2), Some(next), vec![]));
        }
        let nb = if cs.bool() { 0 } else { 1 + cs.below(3) };
        for _ in 0..nb {
            let mut b = dr::Block::new();
            next += 1;
            b.label = Some(crate::rs::mk_inst(spirv::Op::Label, None, Some(next), vec![]));
            for _ in 0..cs.below(5) {
                if !body.is_empty() {
                    b.instructions.push(body[cs.below(body.len())].clone());
                }
            }
            if !terms.is_empty() {
                b.instructions.push(terms[cs.below(terms.len())].clone());
            }
            f.blocks.push(b);
        }
        f.end = Some(crate::rs::mk_inst(spirv::Op::FunctionEnd, None, None, vec![]));
        m.functions.push(f);
    }
    st.count("content_rich_modules");
    {
        // generator statistics: how often does a three-way conjunction of contents occur?
        let has_cap = m.capabilities.iter().any(|i| i.operands.first() == Some(&Operand::Capability(spirv::Capability::Linkage)));
        let imports: Vec<u32> = m.annotations.iter().filter(|i| i.operands.iter().any(|o| *o == Operand::LinkageType(spirv::LinkageType::Import))).filter_map(|i| match i.operands.first() { Some(Operand::IdRef(x)) => Some(*x), _ => None }).collect();
        let hit = m.functions.iter().enumerate().any(|(k, f)| k > 0 && f.blocks.is_empty() && f.def.as_ref().and_then(|d| d.result_id).map(|r| imports.contains(&r)).unwrap_or(false));
        if has_cap && !imports.is_empty() {
            st.count("content_conjunction_capability_and_import_decoration");
            if hit {
                st.count("content_conjunction_with_matching_blockless_function");
            }
        }
    }
    check_module(m, st)
}

fn check_module(m: dr::Module, st: &mut Stats) -> R {
    let mut m = m;
    let dec = {
        let mut d = format!("{:?}", m);
        if d.len() > 60_000 {
            let mut e = 60_000;
            while !d.is_char_boundary(e) {
                e -= 1;
            }
            d.truncate(e);
        }
        d
    };
    let f = |clause: &str, disc: &str, msg: String| Fail::new(clause, disc, msg).with_decoded(dec.clone());
    let globals = own_globals(&m);
    let funcs: Vec<Vec<dr::Instruction>> = m.functions.iter().map(own_function).collect();
    let mut all = globals.clone();
    for fi in &funcs {
        all.extend(fi.iter().cloned());
    }
    // traversals
    let it_all: Vec<dr::Instruction> = no_panic("Module::all_inst_iter", || m.all_inst_iter().cloned().collect())?;
    if it_all != all {
        return Err(f("all_inst_iter", "sequence", format!("all_inst_iter visits [{}], the module holds [{}]", show(&it_all), show(&all))));
    }
    let it_glob: Vec<dr::Instruction> = no_panic("Module::global_inst_iter", || m.global_inst_iter().cloned().collect())?;
    if it_glob != globals {
        return Err(f("global_inst_iter", "sequence", format!("global_inst_iter visits [{}], expected [{}]", show(&it_glob), show(&globals))));
    }
    if it_all[..it_glob.len().min(it_all.len())] != it_glob[..] {
        return Err(f("global_inst_iter", "prefix", "global traversal is not a prefix of the full traversal".into()));
    }
    let mut at = globals.len();
    for (k, fu) in m.functions.iter().enumerate() {
        let v: Vec<dr::Instruction> = no_panic("Function::all_inst_iter", || fu.all_inst_iter().cloned().collect())?;
        if v != funcs[k] || it_all[at..at + v.len()] != v[..] {
            return Err(f("function_all_inst_iter", "slice", format!("function {} traversal [{}], expected [{}]", k, show(&v), show(&funcs[k]))));
        }
        at += v.len();
    }
    // assemble = header ++ concat(assemble of each visited instruction)
    let asm = no_panic("Module::assemble", || m.assemble())?;
    let mut want: Vec<u32> = vec![];
    if let Some(h) = &m.header {
        want.extend([h.magic_number, h.version, h.generator, h.bound, h.reserved_word]);
    }
    let hl = want.len();
    for i in &all {
        want.extend(i.assemble());
    }
    if asm != want {
        let disc = if asm.len() < want.len() { "shorter" } else if asm.len() > want.len() { "longer" } else { "different" };
        return Err(f("assemble-concatenation", disc, format!("assemble() has {} words, header ++ concat(instructions) has {}", asm.len(), want.len())));
    }
    // assemble_into appends exactly assemble() (module, functions, blocks)
    {
        let mut into = vec![7u32, 8];
        no_panic("Module::assemble_into", || m.assemble_into(&mut into))?;
        if into[..2] != [7, 8] || into[2..] != asm[..] {
            return Err(f("assemble-entry-points", "Module::assemble_into", "assemble_into(appending) differs from assemble()".into()));
        }
        let mut at = hl + globals.iter().map(|i| i.assemble().len()).sum::<usize>();
        for (k, fu) in m.functions.iter().enumerate() {
            let fa = no_panic("Function::assemble", || fu.assemble())?;
            let mut fi = vec![9u32];
            no_panic("Function::assemble_into", || fu.assemble_into(&mut fi))?;
            if fi[1..] != fa[..] || asm.get(at..at + fa.len()) != Some(&fa[..]) {
                return Err(f("assemble-entry-points", "Function::assemble", format!("function {}: Function::assemble / assemble_into is not the corresponding slice of Module::assemble", k)));
            }
            let mut bt = at + fu.def.as_ref().map(|d| d.assemble().len()).unwrap_or(0) + fu.parameters.iter().map(|p| p.assemble().len()).sum::<usize>();
            for (bi, bl) in fu.blocks.iter().enumerate() {
                let ba = no_panic("Block::assemble", || bl.assemble())?;
                let mut bi2 = vec![];
                no_panic("Block::assemble_into", || bl.assemble_into(&mut bi2))?;
                if bi2 != ba || asm.get(bt..bt + ba.len()) != Some(&ba[..]) {
                    return Err(f("assemble-entry-points", "Block::assemble", format!("function {} block {}: Block::assemble / assemble_into is not the corresponding slice of Module::assemble", k, bi)));
                }
                bt += ba.len();
            }
            at += fa.len();
        }
    }
    let parts = split(&asm[hl..]).ok_or_else(|| f("assemble-framing", "word-count", "assembled words do not tile".into()))?;
    if parts.len() != all.len() {
        return Err(f("assemble-count", "count", format!("{} assembled instructions, {} visited", parts.len(), all.len())));
    }
    // mutable traversals visit the same sequence; a change made through them is
    // observed by the read-only traversal at the same position
    let mut_all: Vec<dr::Instruction> = no_panic("Module::all_inst_iter_mut", || m.all_inst_iter_mut().map(|i| i.clone()).collect())?;
    if mut_all != all {
        return Err(f("all_inst_iter_mut", "sequence", format!("all_inst_iter_mut visits [{}], expected [{}]", show(&mut_all), show(&all))));
    }
    let mut_glob: Vec<dr::Instruction> = no_panic("Module::global_inst_iter_mut", || m.global_inst_iter_mut().map(|i| i.clone()).collect())?;
    if mut_glob != globals {
        return Err(f("global_inst_iter_mut", "sequence", "global_inst_iter_mut differs from global_inst_iter".into()));
    }
    for (k, fu) in m.functions.iter_mut().enumerate() {
        let v: Vec<dr::Instruction> = no_panic("Function::all_inst_iter_mut", || fu.all_inst_iter_mut().map(|i| i.clone()).collect())?;
        if v != funcs[k] {
            return Err(f("function_all_inst_iter_mut", "sequence", format!("function {} mutable traversal differs", k)));
        }
    }
    for (pos, i) in m.all_inst_iter_mut().enumerate() {
        i.result_type = Some(500_000 + pos as u32);
    }
    for (pos, i) in m.all_inst_iter().enumerate() {
        if i.result_type != Some(500_000 + pos as u32) {
            return Err(f("mut-observed", "position", format!("mutation through all_inst_iter_mut at position {} not seen by all_inst_iter", pos)));
        }
    }
    for (pos, i) in m.global_inst_iter_mut().enumerate() {
        i.result_type = Some(700_000 + pos as u32);
    }
    for (pos, i) in m.global_inst_iter().enumerate() {
        if i.result_type != Some(700_000 + pos as u32) {
            return Err(f("mut-observed", "global-position", format!("mutation through global_inst_iter_mut at position {} not seen", pos)));
        }
    }
    // statistics
    let partial = m.header.is_none() || m.functions.iter().any(|f| f.def.is_none() || f.end.is_none() || f.blocks.iter().any(|b| b.label.is_none()));
    if partial {
        st.count("partial_modules");
    }
    if m.memory_model.is_some() {
        st.count("with_memory_model");
    }
    if all.len() >= 6 && !m.functions.is_empty() {
        st.nontrivial(hash_words(&asm) ^ all.len() as u64);
    }
    st.sample(|| format!("{} global + {:?} function instructions, header {}", globals.len(), funcs.iter().map(|f| f.len()).collect::<Vec<_>>(), m.header.is_some()));
    Ok(())
}

pub const SUBS: &[Sub] = &[Sub { name: "modules", f: sub_modules }, Sub { name: "over-long", f: sub_over_long }, Sub { name: "content-rich", f: sub_content }];

pub fn run(ctx: &Ctx) {
    run_regress(ctx, SUBS);
    drive_random(ctx, &SUBS[0], ctx.n(60_000, 30_000_000), 600);
    drive_random(ctx, &SUBS[1], ctx.n(300, 60_000), 64);
    drive_random_with(ctx, &SUBS[2], ctx.n(250, 100_000), 6_000, 400);
}

pub fn finish(ctx: &Ctx) -> i32 {
    crate::engine::finish(
        ctx,
        Finish {
            rule: "dr::Module values built directly from the public fields: header / memory model / function def / end / block label each present or absent, every section with 0-3 instructions, 0-3 functions x 0-3 blocks; every instruction carries a unique marker id and a varying word count; a quarter of the instructions carry a structural opcode (OpFunction, OpFunctionEnd, OpLabel, terminators, OpMemoryModel, OpLine ...) in whatever slot they happen to be stored; a third of the modules are sparse (most sections empty); a quarter of the instruction lists contain a run of 2-6 identical instructions. Oracle: own traversal written from the field list; all_inst_iter equals it; global_inst_iter is the prefix before the first function; Function::all_inst_iter is the k-th slice; each _mut traversal visits the same sequence and a mutation through it is seen by the read-only one at the same position; assemble() == header words ++ concat(assemble of each visited instruction) and tiles by word counts; assemble_into appends the same words; Function::assemble and Block::assemble are the corresponding slices; `over-long`: a module holding one instruction of 65530-69530 words (an id list or a string; its first word cannot express the count) with 0-2 instructions before and after it, with or without header: assemble() == header ++ concat(visited). non-trivial = module with >= 1 function and >= 6 instructions; distinct = hash of the assembled words. Added in rounds 18-19: content-rich modules (half of all sweep instructions at once, ids folded to 2-8 values); all five header fields varied.",
            assumptions: vec![],
            trusted_base: vec!["own field-order traversal".into(), "proptest".into()],
        },
    )
}
