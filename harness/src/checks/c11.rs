//! C11 — the Decoder consumes exactly what it returns and honours limits.
//! R5: model (offset, remaining allowance, certain?) over the buffer.

use crate::cs::Cs;
use crate::engine::*;
use crate::kinds::{EnumInfo, ENUMS};
use rspirv::binary::{DecodeError, Decoder};

#[derive(Clone, Debug)]
pub enum Req {
    Word,
    Words(usize),
    Bit32,
    Bit64,
    Id,
    ExtInst,
    Str,
    Typed(usize),
    SetLimit(usize),
    ClearLimit,
    Query,
}

pub struct Script {
    pub buf: Vec<u8>,
    pub reqs: Vec<Req>,
}

impl Script {
    pub fn render(&self) -> String {
        format!(
            "buffer[{}] = {:02x?}\nrequests = {:?}",
            self.buf.len(),
            self.buf,
            self.reqs
                .iter()
                .map(|r| match r {
                    Req::Typed(i) => format!("Typed({})", typed()[*i].name),
                    o => format!("{:?}", o),
                })
                .collect::<Vec<_>>()
        )
    }
}

pub fn typed() -> Vec<&'static EnumInfo> {
    ENUMS.iter().filter(|e| e.decode.is_some()).collect()
}

pub fn gen_script(cs: &mut Cs) -> Script {
    let len = match cs.below(8) {
        0 => cs.below(4),
        1 => 4 * cs.below(17),
        _ => cs.below(65),
    };
    let style = cs.below(4);
    let mut buf = Vec::with_capacity(len);
    for _ in 0..len {
        let b = match style {
            0 => cs.u8(),
            1 => match cs.below(8) {
                0 => 0,
                1 => 0xff,
                2 => 0xc3,
                _ => b'a' + cs.below(26) as u8,
            },
            2 => match cs.below(4) {
                0 => cs.below(8) as u8,
                _ => 0,
            },
            _ => match cs.below(6) {
                0 => 0,
                1 => cs.u8(),
                _ => b'A' + cs.below(26) as u8,
            },
        };
        buf.push(b);
    }
    let ty = typed();
    let n = 1 + cs.below(30);
    let mut reqs = vec![];
    for _ in 0..n {
        let remaining_words = len / 4;
        let r = match cs.below(16) {
            0 | 1 => Req::Word,
            2 => Req::Words(match cs.below(4) {
                0 => 0,
                1 => 1,
                2 => cs.below(remaining_words + 3),
                _ => cs.below(6),
            }),
            3 => Req::Bit32,
            4 => Req::Bit64,
            5 => Req::Id,
            6 => Req::ExtInst,
            7 | 8 | 9 => Req::Str,
            10 | 11 => Req::Typed(cs.below(ty.len())),
            12 | 13 => Req::SetLimit(match cs.below(10) {
                0 => 0,
                1 => 1,
                2 => 2,
                3 => remaining_words,
                4 => remaining_words + 1,
                5 => remaining_words.saturating_sub(1),
                6 => 1 << 20,
                7 => usize::MAX / 4,
                8 => usize::MAX,
                _ => cs.below(20),
            }),
            14 => Req::ClearLimit,
            _ => Req::Query,
        };
        reqs.push(r);
    }
    Script { buf, reqs }
}

#[derive(Clone, Copy, Debug)]
struct Lim {
    /// upper bound on the remaining allowance (None = no limit set)
    budget: Option<usize>,
    certain: bool,
}

fn word_at(buf: &[u8], off: usize) -> Option<u32> {
    if off + 4 <= buf.len() {
        Some(u32::from_le_bytes([buf[off], buf[off + 1], buf[off + 2], buf[off + 3]]))
    } else {
        None
    }
}

fn err_offset(e: &DecodeError) -> Option<usize> {
    let d = format!("{:?}", e);
    let i = d.find('(')?;
    let rest = &d[i + 1..];
    let end = rest.find(|c: char| !c.is_ascii_digit()).unwrap_or(rest.len());
    rest[..end].parse().ok()
}

fn is_limit(e: &DecodeError) -> bool {
    matches!(e, DecodeError::LimitReached(_))
}
fn is_stream(e: &DecodeError) -> bool {
    matches!(e, DecodeError::StreamExpected(_))
}

/// Runs the script against the real Decoder and the model.
pub fn check_script(s: &Script, st: &mut Stats) -> R {
    // the buffer is handed over at an address congruent to 0..3 mod 4 (derived from its contents)
    let shifted = crate::rs::Shifted::new(&s.buf);
    let buf = shifted.bytes();
    let len = buf.len();
    let dec = || s.render();
    let mut d = Decoder::new(buf);
    let mut off = 0usize;
    let mut lim = Lim {
        budget: None,
        certain: true,
    };
    let ty = typed();
    let mut had_limit = false;
    let mut had_string = false;
    let mut straddle = false;
    for (step, req) in s.reqs.iter().enumerate() {
        let f = |clause: &str, disc: &str, msg: String| -> Fail {
            Fail::new(clause, disc, format!("step {} {:?}: {}", step, req, msg)).with_decoded(dec())
        };
        // how many whole words are available from `off`
        let avail = if off <= len { (len - off) / 4 } else { 0 };
        let allow = lim.budget.unwrap_or(usize::MAX);
        // generic handler for fixed-size raw requests
        let mut raw = |d: &mut Decoder, n: usize, what: &str, run: &mut dyn FnMut(&mut Decoder) -> Result<Vec<u32>, DecodeError>, off: &mut usize, lim: &mut Lim| -> R {
            let r = no_panic(&format!("Decoder::{}", what), || run(d)).map_err(|x| x.with_decoded(dec()))?;
            let fits_buf = n <= avail;
            let fits_lim = n <= allow;
            if n > avail || n > allow {
                straddle = true;
            }
            match r {
                Ok(ws) => {
                    if !fits_buf || !fits_lim {
                        return Err(f(
                            if !fits_lim { "limit-exceeded" } else { "read-past-end" },
                            what,
                            format!("succeeded although only {} words are available and {} allowed", avail, allow),
                        ));
                    }
                    let want: Vec<u32> = (0..n).map(|i| word_at(buf, *off + 4 * i).unwrap()).collect();
                    if ws != want {
                        return Err(f("value", what, format!("returned {:x?}, buffer holds {:x?}", ws, want)));
                    }
                    *off += 4 * n;
                    if let Some(b) = &mut lim.budget {
                        *b -= n;
                    }
                    if d.offset() != *off {
                        return Err(f("offset-advance", what, format!("offset is {} after consuming to {}", d.offset(), off)));
                    }
                }
                Err(e) => {
                    if fits_buf && fits_lim && lim.certain {
                        return Err(f("spurious-failure", what, format!("failed with {:?} although {} words are available and {} allowed", e, avail, allow)));
                    }
                    if n == 1 {
                        // raw single-word request: offset unchanged and reported
                        if d.offset() != *off {
                            return Err(f("failed-word-moves-offset", what, format!("offset moved from {} to {}", off, d.offset())));
                        }
                        if err_offset(&e) != Some(*off) {
                            return Err(f("failed-word-offset-report", what, format!("error {:?} does not report offset {}", e, off)));
                        }
                        if lim.certain && !fits_lim && fits_buf && !is_limit(&e) {
                            return Err(f("limit-error-kind", what, format!("limit exhausted but error is {:?}", e)));
                        }
                        if fits_lim && !fits_buf && lim.certain && !is_stream(&e) {
                            return Err(f("stream-error-kind", what, format!("stream exhausted but error is {:?}", e)));
                        }
                    }
                    // re-sync: the statement leaves offset/allowance after a failure open
                    let no = d.offset();
                    if no < *off || (no > len && no > *off) || (no - *off) % 4 != 0 || (no - *off) / 4 > n {
                        return Err(f("failed-request-offset", what, format!("offset {} -> {} (buffer {})", off, no, len)));
                    }
                    if let Some(b) = &mut lim.budget {
                        *b = b.saturating_sub((no - *off) / 4);
                        lim.certain = false;
                    }
                    *off = no;
                }
            }
            Ok(())
        };
        match req {
            Req::Word => raw(&mut d, 1, "word", &mut |d| d.word().map(|w| vec![w]), &mut off, &mut lim)?,
            Req::Bit32 => raw(&mut d, 1, "bit32", &mut |d| d.bit32().map(|w| vec![w]), &mut off, &mut lim)?,
            Req::Id => raw(&mut d, 1, "id", &mut |d| d.id().map(|w| vec![w]), &mut off, &mut lim)?,
            Req::ExtInst => raw(&mut d, 1, "ext_inst_integer", &mut |d| d.ext_inst_integer().map(|w| vec![w]), &mut off, &mut lim)?,
            Req::Words(n) => {
                let n = *n;
                raw(&mut d, n, "words", &mut |d| d.words(n), &mut off, &mut lim)?
            }
            Req::Bit64 => raw(
                &mut d,
                2,
                "bit64",
                &mut |d| d.bit64().map(|v| vec![v as u32, (v >> 32) as u32]),
                &mut off,
                &mut lim,
            )?,
            Req::Typed(i) => {
                let e = ty[*i];
                let r = no_panic(&format!("Decoder::{}", e.name), || (e.decode.unwrap())(&mut d)).map_err(|x| x.with_decoded(dec()))?;
                let w = word_at(buf, off);
                let can = avail >= 1 && allow >= 1;
                if !can {
                    straddle = true;
                }
                match r {
                    Ok(v) => {
                        if !can {
                            return Err(f("limit-exceeded", "typed", "typed request succeeded without an available word".into()));
                        }
                        let w = w.unwrap();
                        let gold = crate::golden::golden().enums.get(e.name);
                        let declared = match gold {
                            Some(g) if g.is_mask => w & !g.all_bits == 0,
                            Some(g) => g.value_set.contains(&w),
                            None => true,
                        };
                        if v != w || !declared {
                            return Err(f("value", e.name, format!("word {:#x} decoded as {:#x} (declared: {})", w, v, declared)));
                        }
                        off += 4;
                        if let Some(b) = &mut lim.budget {
                            *b -= 1;
                        }
                        if d.offset() != off {
                            return Err(f("offset-advance", "typed", format!("offset {} expected {}", d.offset(), off)));
                        }
                    }
                    Err(er) => {
                        if can && lim.certain {
                            let w = w.unwrap();
                            let gold = crate::golden::golden().enums.get(e.name);
                            let declared = match gold {
                                Some(g) if g.is_mask => w & !g.all_bits == 0,
                                Some(g) => g.value_set.contains(&w),
                                None => false,
                            };
                            if declared {
                                return Err(f("spurious-failure", e.name, format!("declared value {:#x} rejected: {:?}", w, er)));
                            }
                            // unknown value: error must name the kind, the offset of the word and the word
                            let dbg = format!("{:?}", er);
                            if !dbg.starts_with(&format!("{}Unknown({}, {})", e.name, off, w)) {
                                return Err(f("unknown-value-report", e.name, format!("undeclared {:#x} at {} reported as {}", w, off, dbg)));
                            }
                        }
                        let no = d.offset();
                        if no < off || no > off + 4 || (no > len && no != off) || (no - off) % 4 != 0 {
                            return Err(f("failed-request-offset", "typed", format!("offset {} -> {}", off, no)));
                        }
                        if let Some(b) = &mut lim.budget {
                            *b = b.saturating_sub((no - off) / 4);
                            lim.certain = false;
                        }
                        off = no;
                    }
                }
            }
            Req::Str => {
                had_string = true;
                let r = no_panic("Decoder::string", || d.string()).map_err(|x| x.with_decoded(dec()))?;
                // window the string may occupy
                let win_end = match lim.budget {
                    Some(b) => len.min(off.saturating_add(b.saturating_mul(4))),
                    None => len,
                };
                let window: &[u8] = if off <= win_end { &buf[off..win_end] } else { &[] };
                let z = window.iter().position(|c| *c == 0);
                // expectation when everything is certain
                let expect: Option<(String, usize)> = z.and_then(|z| {
                    let consumed = z / 4 + 1;
                    let s = std::str::from_utf8(&window[..z]).ok()?;
                    if off + 4 * consumed <= len && consumed <= allow {
                        Some((s.to_string(), consumed))
                    } else {
                        None
                    }
                });
                if z.is_none() || expect.is_none() {
                    straddle = true;
                }
                match r {
                    Ok(sv) => {
                        // must be the string at the offset, inside buffer and allowance
                        let full: &[u8] = if off <= len { &buf[off..] } else { &[] };
                        let zf = full.iter().position(|c| *c == 0);
                        let ok = match zf {
                            Some(zf) => {
                                let consumed = zf / 4 + 1;
                                std::str::from_utf8(&full[..zf]).ok() == Some(sv.as_str())
                                    && off + 4 * consumed <= len
                                    && consumed <= allow
                            }
                            None => false,
                        };
                        if !ok {
                            let consumed = zf.map(|z| z / 4 + 1);
                            let clause = match consumed {
                                Some(c) if off + 4 * c > len => "read-past-end",
                                Some(c) if c > allow => "limit-exceeded",
                                _ => "value",
                            };
                            return Err(f(clause, "string", format!("returned {:?}; offset {} -> {}, buffer {} bytes, allowance {:?}", sv, off, d.offset(), len, lim.budget)));
                        }
                        let consumed = zf.unwrap() / 4 + 1;
                        off += 4 * consumed;
                        if let Some(b) = &mut lim.budget {
                            *b -= consumed;
                        }
                        if d.offset() != off {
                            return Err(f("offset-advance", "string", format!("offset {} expected {}", d.offset(), off)));
                        }
                    }
                    Err(er) => {
                        if lim.certain {
                            if let Some((sv, _)) = &expect {
                                return Err(f("spurious-failure", "string", format!("string {:?} is present and fits, got {:?}", sv, er)));
                            }
                        }
                        let no = d.offset();
                        if no < off || (no > len && no != off) || (no - off) % 4 != 0 {
                            return Err(f("failed-request-offset", "string", format!("offset {} -> {}", off, no)));
                        }
                        if let Some(b) = &mut lim.budget {
                            *b = b.saturating_sub((no - off) / 4);
                            if no != off {
                                lim.certain = false;
                            }
                        }
                        off = no;
                    }
                }
            }
            Req::SetLimit(n) => {
                had_limit = true;
                no_panic("Decoder::set_limit", || d.set_limit(*n)).map_err(|x| x.with_decoded(dec()))?;
                lim = Lim {
                    budget: Some(*n),
                    certain: true,
                };
            }
            Req::ClearLimit => {
                no_panic("Decoder::clear_limit", || d.clear_limit()).map_err(|x| x.with_decoded(dec()))?;
                lim = Lim {
                    budget: None,
                    certain: true,
                };
            }
            Req::Query => {}
        }
        // pure queries after every step
        if d.offset() != off {
            return Err(f("offset-query", "offset", format!("offset() = {} model {}", d.offset(), off)));
        }
        if off > len && len % 4 == 0 {
            return Err(f("read-past-end", "offset", format!("offset {} beyond buffer {}", off, len)));
        }
        if d.has_limit() != lim.budget.is_some() {
            return Err(f("limit-query", "has_limit", format!("has_limit() = {}", d.has_limit())));
        }
        if lim.certain {
            if d.limit_reached() != (lim.budget == Some(0)) {
                return Err(f("limit-query", "limit_reached", format!("limit_reached() = {} with allowance {:?}", d.limit_reached(), lim.budget)));
            }
        } else if lim.budget == Some(0) && !d.limit_reached() {
            return Err(f("limit-query", "limit_reached", "allowance used up but limit_reached() is false".into()));
        }
    }
    if had_limit {
        st.count("scripts_with_limit");
    }
    if had_string {
        st.count("scripts_with_string");
    }
    if straddle {
        st.count("scripts_with_straddling_request");
    }
    if len % 4 != 0 {
        st.count("buffers_len_not_multiple_of_4");
    }
    if had_limit && had_string && straddle {
        st.nontrivial(hash_str(&s.render()));
    }
    st.sample(|| s.render());
    Ok(())
}

fn sub_scripts(input: &[u8], st: &mut Stats) -> R {
    let mut cs = Cs::new(input);
    let s = gen_script(&mut cs);
    check_script(&s, st)
}

/// scripts with extreme request sizes (words(n) with n up to usize::MAX) and medium buffers
/// (hundreds to thousands of bytes, strings hundreds of words long)
fn sub_wide(input: &[u8], st: &mut Stats) -> R {
    let mut cs = Cs::new(input);
    let mut s = gen_script(&mut cs);
    if cs.bool() {
        let len = match cs.below(4) {
            0 => 100 + cs.below(400),
            1 => 1000 + cs.below(3000),
            2 => [1023usize, 1024, 1025, 4095, 4096, 4097, 8191, 8192][cs.below(8)],
            _ => 4000 + cs.below(5000),
        };
        let mut buf: Vec<u8> = (0..len).map(|i| b'a' + (i % 23) as u8).collect();
        let nuls = cs.below(4);
        for _ in 0..nuls {
            let at = cs.below(len);
            buf[at] = 0;
        }
        if cs.below(4) == 0 {
            let at = cs.below(len);
            buf[at] = 0xff; // invalid UTF-8 somewhere
        }
        s.buf = buf;
        st.count("medium_buffers");
    }
    const HUGE: [usize; 9] = [usize::MAX, usize::MAX - 1, usize::MAX / 2 + 1, usize::MAX / 4 + 1, usize::MAX / 4, 1 << 62, (1 << 62) - 1, 1 << 32, u32::MAX as usize];
    let words_left = s.buf.len() / 4;
    for r in s.reqs.iter_mut() {
        match r {
            Req::Words(n) if cs.below(3) == 0 => {
                *n = match cs.below(3) {
                    0 => HUGE[cs.below(HUGE.len())],
                    1 => words_left + cs.below(3),
                    _ => words_left.saturating_sub(cs.below(3)),
                };
                st.count("extreme_words_requests");
            }
            Req::Word if cs.below(6) == 0 => {
                *r = Req::Words(HUGE[cs.below(HUGE.len())]);
                st.count("extreme_words_requests");
            }
            _ => {}
        }
    }
    check_script(&s, st)
}

/// `long-strings`: a NUL-terminated string of 65 530 - 262 140 bytes (more than a 16-bit count can
/// express; one-, two- and three-byte characters) behind a few words, read with and without a limit
/// around its length in words, followed by further requests. "Any buffer" includes these.
fn sub_long_strings(input: &[u8], st: &mut Stats) -> R {
    let mut cs = Cs::new(input);
    let unit: &str = ["s", "ab", "\u{e9}", "\u{20ac}", "x\u{e9}"][cs.below(5)];
    let nbytes = match cs.below(4) {
        0 => 65_528 + cs.below(16),
        1 => [65_535usize, 65_536, 65_537, 70_000, 100_000, 131_072, 196_608, 262_131, 262_140][cs.below(9)],
        2 => 65_536 * unit.len() + cs.below(8),
        _ => 66_000 + cs.below(190_000),
    };
    let mut body = unit.repeat(nbytes / unit.len() + 1).into_bytes();
    body.truncate(nbytes - nbytes % unit.len());
    let pre = cs.below(3);
    let mut buf: Vec<u8> = vec![];
    for k in 0..pre {
        buf.extend((0x1000_0000u32 + k as u32).to_le_bytes());
    }
    buf.extend(&body);
    buf.push(0);
    while buf.len() % 4 != 0 {
        buf.push(0);
    }
    let str_words = body.len() / 4 + 1;
    let tail = cs.below(4);
    for k in 0..tail {
        buf.extend((0x2000_0000u32 + k as u32).to_le_bytes());
    }
    for _ in 0..cs.below(4) {
        buf.push(0x41); // ragged end
    }
    let mut reqs: Vec<Req> = (0..pre).map(|_| Req::Word).collect();
    match cs.below(6) {
        0 => {}
        1 => reqs.push(Req::SetLimit(str_words)),
        2 => reqs.push(Req::SetLimit(str_words + 1 + cs.below(3))),
        3 => reqs.push(Req::SetLimit(str_words - 1)),
        4 => reqs.push(Req::SetLimit(16_384 + cs.below(3))),
        _ => reqs.push(Req::SetLimit(usize::MAX / 4)),
    }
    reqs.push(Req::Str);
    reqs.push(Req::Query);
    for _ in 0..3 {
        reqs.push(if cs.bool() { Req::Word } else { Req::Id });
    }
    reqs.push(Req::ClearLimit);
    reqs.push(Req::Word);
    st.count("long_string_scripts");
    check_script(&Script { buf, reqs }, st)
}

/// `text-strings`: the buffer is a run of well-formed literal strings (NUL-terminated, padded to a
/// word) whose text comes from the characters text-handling code treats specially - byte order mark
/// first, in the middle, alone; noncharacters; separators; the edges of the surrogate gap - with raw
/// words between them; read back with string requests under and without limits. "Returns exactly the
/// string found" quantifies over string contents as much as over lengths.
fn sub_text_strings(input: &[u8], st: &mut Stats) -> R {
    let mut cs = Cs::new(input);
    let n = 1 + cs.below(4);
    let mut buf: Vec<u8> = vec![];
    let mut reqs: Vec<Req> = vec![];
    for _ in 0..n {
        if cs.below(4) == 0 {
            buf.extend(cs.u32().to_le_bytes());
            reqs.push(Req::Word);
        }
        let t = match cs.below(6) {
            0 => crate::cs::AWKWARD_CHARS[cs.below(crate::cs::AWKWARD_CHARS.len())].to_string(),
            1 => {
                let a = crate::cs::AWKWARD_CHARS[cs.below(crate::cs::AWKWARD_CHARS.len())];
                let k = cs.below(9);
                format!("{}{}", a, cs.ascii_exact(k))
            }
            2 => {
                let k = cs.below(9);
                let b = cs.ascii_exact(k);
                format!("{}{}", b, crate::cs::AWKWARD_CHARS[cs.below(crate::cs::AWKWARD_CHARS.len())])
            }
            _ => cs.text(12),
        };
        let words = t.len() / 4 + 1;
        buf.extend(t.as_bytes());
        buf.push(0);
        while buf.len() % 4 != 0 {
            buf.push(0);
        }
        match cs.below(6) {
            0 => reqs.push(Req::SetLimit(words)),
            1 => reqs.push(Req::SetLimit(words + 1 + cs.below(2))),
            2 => reqs.push(Req::SetLimit(words.saturating_sub(1))),
            3 => reqs.push(Req::ClearLimit),
            _ => {}
        }
        reqs.push(Req::Str);
        reqs.push(Req::Query);
    }
    reqs.push(Req::ClearLimit);
    reqs.push(Req::Word);
    st.count("text_string_scripts");
    check_script(&Script { buf, reqs }, st)
}

/// Hand-minimised inputs kept as plain regression checks.
fn sub_fixed(input: &[u8], st: &mut Stats) -> R {
    let k = idx(input);
    let s = match k {
        0 => Script { buf: b"ab\0".to_vec(), reqs: vec![Req::Str, Req::Str] },
        1 => Script { buf: vec![b'a', 0, 0, 0], reqs: vec![Req::SetLimit(10), Req::Str] },
        2 => Script { buf: vec![b'a', b'b', b'c', b'd'], reqs: vec![Req::SetLimit(usize::MAX), Req::Str] },
        3 => Script { buf: vec![1, 2, 3, 4, 5, 6, 7, 8], reqs: vec![Req::SetLimit(1), Req::Bit64, Req::Query, Req::Word] },
        4 => Script { buf: vec![b'a', b'b', b'c', b'd', b'e', 0], reqs: vec![Req::Str, Req::Query] },
        5 => Script { buf: vec![0; 8], reqs: vec![Req::SetLimit(0), Req::Str, Req::Word, Req::ClearLimit, Req::Str, Req::Str, Req::Str] },
        6 => Script { buf: vec![0xff, 0xfe, 0, 0], reqs: vec![Req::Str] },
        7 => Script { buf: vec![], reqs: vec![Req::Str, Req::Word, Req::Words(0), Req::Bit64] },
        _ => return Ok(()),
    };
    check_script(&s, st)
}

pub const SUBS: &[Sub] = &[
    Sub { name: "fixed", f: sub_fixed },
    Sub { name: "scripts", f: sub_scripts },
    Sub { name: "wide-scripts", f: sub_wide },
    Sub { name: "long-strings", f: sub_long_strings },
    Sub { name: "text-strings", f: sub_text_strings },
];

pub fn run(ctx: &Ctx) {
    run_regress(ctx, SUBS);
    drive_enum(ctx, &SUBS[0], 8);
    drive_random(ctx, &SUBS[1], ctx.n(200_000, 100_000_000), 300);
    drive_random(ctx, &SUBS[2], ctx.n(20_000, 10_000_000), 400);
    drive_random(ctx, &SUBS[3], ctx.n(60, 6_000), 64);
    drive_random(ctx, &SUBS[4], ctx.n(30_000, 10_000_000), 200);
    if !ctx.quick() && !ctx.failed() {
        crate::fuzzing::drive_fuzz(ctx, "decoder", 1_000_000);
    }
}

pub fn finish(ctx: &Ctx) -> i32 {
    crate::engine::finish(
        ctx,
        Finish {
            rule: "cases: a byte buffer of length 0-64 (in `wide-scripts` also 100-9000 bytes with 0-3 NULs, and words(n) with n up to usize::MAX) (any length, NULs, invalid UTF-8) and a script of 1-30 requests over word/words(n)/bit32/bit64/id/ext_inst_integer/string/each of the 56 typed requests/set_limit (0,1,2,remaining±1,2^20,usize::MAX/4,usize::MAX)/clear_limit, with offset/has_limit/limit_reached queried after every step. Oracle: model R5 (offset, allowance) over the buffer: success required when buffer and limit allow, returned value = little-endian words / string up to first NUL / declared enumeration value, offset advanced 4 bytes per word and never beyond the buffer, failed raw word leaves and reports the offset, allowance never exceeded. non-trivial = script with a set_limit, a string request and a request straddling a limit or the buffer end; distinct = hash of the rendered script. Added in rounds 18-19: text-strings (byte order mark, noncharacters, separators ...); buffers at addresses 0..3 mod 4.",
            assumptions: vec![
                "left open by the statement and re-synchronised from the implementation: offset and remaining allowance after a failed multi-word/typed/string request; which error a typed request reports at an exhausted limit".into(),
            ],
            trusted_base: vec!["decoder model R5".into(), "golden enum values".into(), "proptest".into()],
        },
    )
}
