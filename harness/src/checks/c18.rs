//! C18 — lifting preserves module structure on the supported subset.

use crate::cs::Cs;
use crate::engine::*;
use crate::golden::{golden, GInst};
use crate::model::*;
use crate::refclass::{layout, Layout};
use rspirv::dr::{self, Operand};
use rspirv::grammar::{OperandKind as K, OperandQuantifier as Q};
use rspirv::lift::LiftContext;
use rspirv::sr::{self, storage::{Storage, Token}};
use serde_json::Value;
use std::collections::{BTreeMap, HashMap};
use std::sync::OnceLock;

// ---------------------------------------------------------------------------
// Debug-syntax reader

#[derive(Clone, Debug, PartialEq)]
pub enum Atom {
    Num(String),
    Str(String),
    Tok(u32),
    Ident(String),
}

/// How this tree renders a token under `Debug`: `pre` + decimal index + `suf`, learned from tokens
/// forged through a scratch storage (the property fixes what a token *refers to*, not how it prints).
/// `ambiguous`: the rendering cannot be told from list / number syntax (no letter in it), so a
/// canonicalised `Token(k)` may just as well be the literal k: both readings are accepted then.
#[derive(Clone, Debug)]
pub struct TokFmt {
    pre: String,
    suf: String,
    pub ambiguous: bool,
}

fn forge<T>(n: usize, mk: impl Fn() -> T) -> Vec<Token<T>> {
    let mut s = Storage::new();
    (0..n).map(|_| s.append(mk())).collect()
}

fn learn_token_format() -> Option<TokFmt> {
    let toks = forge(14, || sr::Type::Void);
    let a = format!("{:?}", toks[7]);
    let b = format!("{:?}", toks[13]);
    for (i, _) in a.match_indices('7') {
        let (pre, suf) = (&a[..i], &a[i + 1..]);
        if format!("{}13{}", pre, suf) == b {
            let ambiguous = !pre.chars().any(|c| c.is_alphabetic());
            return Some(TokFmt { pre: pre.to_string(), suf: suf.to_string(), ambiguous });
        }
    }
    None
}

pub fn tok_fmt() -> Option<&'static TokFmt> {
    static F: OnceLock<Option<TokFmt>> = OnceLock::new();
    F.get_or_init(learn_token_format).as_ref()
}

/// rewrites every token rendering of this tree into the canonical `Token(k)` (outside string literals)
fn canon(s: &str, f: &TokFmt) -> String {
    if (f.pre == "Token(" && f.suf == ")") || f.pre.is_empty() {
        return s.to_string();
    }
    let mut out = String::with_capacity(s.len() + 16);
    let (mut i, mut in_str, mut esc) = (0usize, false, false);
    while i < s.len() {
        let c = s[i..].chars().next().unwrap();
        let cl = c.len_utf8();
        if in_str {
            out.push(c);
            if esc {
                esc = false;
            } else if c == '\\' {
                esc = true;
            } else if c == '"' {
                in_str = false;
            }
            i += cl;
            continue;
        }
        if c == '"' {
            in_str = true;
            out.push(c);
            i += cl;
            continue;
        }
        if s[i..].starts_with(f.pre.as_str()) {
            let d0 = i + f.pre.len();
            let d1 = d0 + s[d0..].bytes().take_while(|x| x.is_ascii_digit()).count();
            if d1 > d0 && s[d1..].starts_with(f.suf.as_str()) {
                out.push_str("Token(");
                out.push_str(&s[d0..d1]);
                out.push(')');
                i = d1 + f.suf.len();
                continue;
            }
        }
        out.push(c);
        i += cl;
    }
    out
}

/// The entries of a storage in insertion order, through its public interface only: element k is
/// what the token of index k yields (forged tokens; the first index that panics is the length).
/// `Err(n)`: the storage holds n != want entries (n capped at want + 8).
fn entries<T: std::fmt::Debug>(st: &Storage<T>, want: usize, mk: impl Fn() -> T, f: &TokFmt) -> Result<Vec<String>, usize> {
    let toks = forge(want + 9, mk);
    let mut out = vec![];
    for (k, t) in toks.iter().enumerate() {
        match catch(|| format!("{:?}", &st[*t])) {
            Ok(e) => {
                if k >= want {
                    continue;
                }
                out.push(canon(&e, f));
            }
            Err(_) => {
                return if k == want { Ok(out) } else { Err(k) };
            }
        }
    }
    Err(want + 9)
}

fn split_top(inner: &str) -> Vec<String> {
    let mut out = vec![];
    let mut depth = 0i32;
    let mut cur = String::new();
    let mut in_str = false;
    let mut esc = false;
    for c in inner.chars() {
        if in_str {
            cur.push(c);
            if esc {
                esc = false;
            } else if c == '\\' {
                esc = true;
            } else if c == '"' {
                in_str = false;
            }
            continue;
        }
        match c {
            '"' => {
                in_str = true;
                cur.push(c);
            }
            '(' | '[' | '{' => {
                depth += 1;
                cur.push(c);
            }
            ')' | ']' | '}' => {
                depth -= 1;
                cur.push(c);
            }
            ',' if depth == 0 => {
                out.push(cur.trim().to_string());
                cur.clear();
            }
            _ => cur.push(c),
        }
    }
    if !cur.trim().is_empty() {
        out.push(cur.trim().to_string());
    }
    out
}

/// (head identifier, value atoms)
pub fn atoms(s: &str) -> (String, Vec<Atom>) {
    let cs: Vec<char> = s.chars().collect();
    let mut i = 0;
    let mut head = String::new();
    let mut out = vec![];
    let mut first_word = true;
    while i < cs.len() {
        let c = cs[i];
        if c == '"' {
            let mut t = String::new();
            i += 1;
            while i < cs.len() {
                if cs[i] == '\\' && i + 1 < cs.len() {
                    t.push(cs[i]);
                    t.push(cs[i + 1]);
                    i += 2;
                    continue;
                }
                if cs[i] == '"' {
                    i += 1;
                    break;
                }
                t.push(cs[i]);
                i += 1;
            }
            out.push(Atom::Str(t));
            first_word = false;
            continue;
        }
        if c.is_alphanumeric() || c == '_' || c == '-' || c == '.' || c == '+' {
            let mut w = String::new();
            while i < cs.len() && (cs[i].is_alphanumeric() || cs[i] == '_' || cs[i] == '-' || cs[i] == '.' || cs[i] == '+') {
                w.push(cs[i]);
                i += 1;
            }
            let mut j = i;
            while j < cs.len() && cs[j] == ' ' {
                j += 1;
            }
            let next = cs.get(j).copied();
            let was_first = first_word;
            first_word = false;
            if was_first {
                head = w.clone();
            }
            match next {
                Some(':') => continue,
                Some('{') => continue,
                Some('(') => {
                    if w == "Token" {
                        // Token(n)
                        let mut k = j + 1;
                        let mut n = String::new();
                        while k < cs.len() && cs[k].is_ascii_digit() {
                            n.push(cs[k]);
                            k += 1;
                        }
                        if let Ok(v) = n.parse() {
                            out.push(Atom::Tok(v));
                        }
                        i = k;
                    }
                    continue;
                }
                _ => {}
            }
            if w == "None" || w == "Some" {
                continue;
            }
            let numeric = w.chars().next().map(|c| c.is_ascii_digit() || c == '-').unwrap_or(false) || w == "inf" || w == "NaN";
            if numeric {
                out.push(Atom::Num(w));
            } else if was_first {
                // unit variant: it is the head, not a value
            } else {
                out.push(Atom::Ident(w));
            }
            continue;
        }
        i += 1;
    }
    (head, out)
}

fn dr_atoms(o: &Operand) -> (bool, Vec<Atom>) {
    let is_id = matches!(o, Operand::IdRef(_) | Operand::IdScope(_) | Operand::IdMemorySemantics(_));
    let d = format!("{:?}", o);
    // drop the outer variant wrapper
    let inner = d.find('(').map(|i| &d[i + 1..d.len() - 1]).unwrap_or("");
    let (_, mut a) = atoms(&format!("X({})", inner));
    if a.is_empty() {
        // a bare identifier payload was taken as head: re-read it as value
        let (h, _) = atoms(inner);
        if !h.is_empty() && h != "None" {
            a.push(Atom::Ident(h));
        }
    }
    (is_id, a)
}

struct Index {
    types: HashMap<u32, u32>,
    consts: HashMap<u32, u32>,
    ambiguous: bool,
}

fn match_atoms(sr: &[Atom], ops: &[Operand], ix: &Index) -> Result<(), String> {
    let mut want: Vec<(bool, Atom)> = vec![];
    for o in ops {
        let (is_id, a) = dr_atoms(o);
        for x in a {
            want.push((is_id, x));
        }
    }
    if sr.len() != want.len() {
        return Err(format!("{} value atoms {:?} for {} operand atoms {:?}", sr.len(), sr, want.len(), want.iter().map(|x| &x.1).collect::<Vec<_>>()));
    }
    for (k, (s, (is_id, w))) in sr.iter().zip(&want).enumerate() {
        let ok = s == w
            || match (s, w, is_id) {
                (Atom::Tok(t), Atom::Num(n), true) => {
                    let id: u32 = n.parse().unwrap_or(u32::MAX);
                    ix.types.get(&id) == Some(t) || ix.consts.get(&id) == Some(t) || (ix.ambiguous && id == *t)
                }
                // a token rendering that looks like list / number syntax: `Token(k)` may be the literal k
                (Atom::Tok(t), Atom::Num(n), _) if ix.ambiguous && n.parse::<u32>().ok() == Some(*t) => true,
                (Atom::Num(n), Atom::Num(m), true) if ix.ambiguous => {
                    let id: u32 = m.parse().unwrap_or(u32::MAX);
                    let t: Option<u32> = n.parse().ok();
                    t.is_some() && (ix.types.get(&id).copied() == t || ix.consts.get(&id).copied() == t)
                }
                _ => false,
            };
        if !ok {
            return Err(format!("position {}: lifted {:?}, operand {:?}", k, s, w));
        }
    }
    Ok(())
}

// ---------------------------------------------------------------------------
// module construction inside the subset

#[derive(Clone, Debug)]
pub struct Subset {
    /// opname -> assignment of its id operands: 'v' value id, 't' type id, 'c' constant id
    pub ops: BTreeMap<String, String>,
}

pub fn subset_path() -> std::path::PathBuf {
    verif_root().join("golden").join("lift_subset.json")
}

pub fn subset() -> &'static Subset {
    static S: OnceLock<Subset> = OnceLock::new();
    S.get_or_init(|| {
        let txt = std::fs::read_to_string(subset_path()).unwrap_or_else(|e| {
            eprintln!("cannot read {}: {}", subset_path().display(), e);
            std::process::exit(2);
        });
        let v: Value = serde_json::from_str(&txt).unwrap_or_else(|e| {
            eprintln!("cannot parse lift_subset.json: {}", e);
            std::process::exit(2);
        });
        let mut ops = BTreeMap::new();
        if let Some(o) = v["ops"].as_object() {
            for (k, a) in o {
                ops.insert(k.clone(), a.as_str().unwrap_or("").to_string());
            }
        }
        Subset { ops }
    })
}

/// result ids are handed out through an affine bijection k -> 1 + (k*a + c) mod 4093, so that
/// declaration order and numeric id order differ (identity in a third of the cases)
const ID_P: u32 = 4093;
fn perm_id(k: u32, a: u32, c: u32) -> u32 {
    let (base, stride) = ID_SCALE.with(|s| s.get());
    base + stride * (1 + ((k as u64 * a as u64 + c as u64) % ID_P as u64) as u32)
}
thread_local! {
    /// (base, stride): the permuted ids are spread over other ranges of the id space - up to 2^16,
    /// across 2^16 and 2^17 with gaps, just below 2^16, far up - in some of the cases
    static ID_SCALE: std::cell::Cell<(u32, u32)> = const { std::cell::Cell::new((0, 1)) };
}
const ID_SCALES: [(u32, u32); 16] = [(0, 1), (0, 1), (0, 1), (0, 16), (0, 32), (30_000, 9), (40_000, 23), (65_000, 1), (65_530, 1), (61_000, 2), (1 << 22, 1), (0x7fff_0000, 3), (999_000, 1), (998_000, 1), (99_000, 1), (0, 256)];
/// ids the generator never declares ("unknown to the lifter"): above every declared id (5000.. and
/// 6000.. in the unscaled case, as before)
fn unknown_id(off: u32) -> u32 {
    max_id() + off
}
fn max_id() -> u32 {
    let (base, stride) = ID_SCALE.with(|s| s.get());
    base + stride * (ID_P + 1)
}

struct Base {
    m: dr::Module,
    next: u32,
    perm: (u32, u32),
    /// declared type ids
    types: Vec<u32>,
    int_ty: u32,
    float_ty: u32,
    bool_ty: u32,
    void_ty: u32,
    fn_ty: u32,
    consts: Vec<u32>,
    /// (constant id, its scalar type id) for OpConstant declarations
    typed_consts: Vec<(u32, u32)>,
    values: Vec<u32>,
}

impl Base {
    fn take_id(&mut self) -> u32 {
        let v = perm_id(self.next, self.perm.0, self.perm.1);
        self.next += 1;
        v
    }
}

fn inst(op: spirv::Op, rt: Option<u32>, rid: Option<u32>, ops: Vec<Operand>) -> dr::Instruction {
    crate::rs::mk_inst(op, rt, rid, ops)
}

fn base_module(cs: &mut Cs, rich: bool) -> Base {
    let mut m = dr::Module::new();
    // the statement puts no condition on the header's id bound: accurate, or stale / zero as
    // Builder::module_ref() snapshots and hand-made modules have it
    let bound = match cs.below(4) {
        0 => [0u32, 1, 2, 7][cs.below(4)],
        1 => cs.below(60) as u32,
        _ => max_id() + 1,
    };
    let mut h = dr::ModuleHeader::new(bound);
    h.set_version(1, cs.below(7) as u8);
    m.header = Some(h);
    let capg = golden().enums.get("Capability").unwrap();
    let ncap = 1 + cs.below(3);
    for _ in 0..ncap {
        let v = capg.values[cs.below(capg.values.len())].value;
        m.capabilities.push(inst(spirv::Op::Capability, None, None, vec![enum_operand(K::Capability, v).unwrap()]));
    }
    let am = golden().enums.get("AddressingModel").unwrap();
    let mmg = golden().enums.get("MemoryModel").unwrap();
    m.memory_model = Some(inst(
        spirv::Op::MemoryModel,
        None,
        None,
        vec![
            enum_operand(K::AddressingModel, am.values[cs.below(am.values.len())].value).unwrap(),
            enum_operand(K::MemoryModel, mmg.values[cs.below(mmg.values.len())].value).unwrap(),
        ],
    ));
    let mut next = 0u32;
    let perm: (u32, u32) = if cs.below(3) == 0 { (1, 0) } else { (1 + cs.below((ID_P - 1) as usize) as u32, cs.below(ID_P as usize) as u32) };
    let mut fresh = || {
        let v = perm_id(next, perm.0, perm.1);
        next += 1;
        v
    };
    let mut types = vec![];
    let t = |m: &mut dr::Module, types: &mut Vec<u32>, id: u32, op: spirv::Op, ops: Vec<Operand>| {
        m.types_global_values.push(inst(op, None, Some(id), ops));
        types.push(id);
    };
    let void_ty = fresh();
    t(&mut m, &mut types, void_ty, spirv::Op::TypeVoid, vec![]);
    let bool_ty = fresh();
    t(&mut m, &mut types, bool_ty, spirv::Op::TypeBool, vec![]);
    let int_ty = fresh();
    t(&mut m, &mut types, int_ty, spirv::Op::TypeInt, vec![Operand::LiteralBit32(32), Operand::LiteralBit32(cs.below(2) as u32)]);
    let float_ty = fresh();
    t(&mut m, &mut types, float_ty, spirv::Op::TypeFloat, vec![Operand::LiteralBit32(32)]);
    let mut consts = vec![];
    // constants: 32-bit
    let c0 = fresh();
    m.types_global_values.push(inst(spirv::Op::Constant, Some(int_ty), Some(c0), vec![Operand::LiteralBit32(cs.lit32())]));
    consts.push(c0);
    let mut typed_consts: Vec<(u32, u32)> = vec![(c0, int_ty)];
    if rich {
        let nextra = cs.below(8);
        for _ in 0..nextra {
            match cs.below(11) {
                9 | 10 => {
                    // a narrow scalar type (8/16-bit integer, 16-bit float) and a constant of it: the
                    // literal is one 32-bit word, which is what the lifter's constants hold
                    let tid = fresh();
                    if cs.bool() {
                        t(&mut m, &mut types, tid, spirv::Op::TypeInt, vec![Operand::LiteralBit32([8u32, 16][cs.below(2)]), Operand::LiteralBit32(cs.below(2) as u32)]);
                    } else {
                        t(&mut m, &mut types, tid, spirv::Op::TypeFloat, vec![Operand::LiteralBit32(16)]);
                    }
                    let id = fresh();
                    m.types_global_values.push(inst(spirv::Op::Constant, Some(tid), Some(id), vec![Operand::LiteralBit32(cs.lit32())]));
                    consts.push(id);
                    typed_consts.push((id, tid));
                }
                0 => {
                    let id = fresh();
                    let comp = [int_ty, float_ty, bool_ty][cs.below(3)];
                    t(&mut m, &mut types, id, spirv::Op::TypeVector, vec![Operand::IdRef(comp), Operand::LiteralBit32(2 + cs.below(3) as u32)]);
                }
                1 => {
                    let id = fresh();
                    let col = types[cs.below(types.len())];
                    t(&mut m, &mut types, id, spirv::Op::TypeMatrix, vec![Operand::IdRef(col), Operand::LiteralBit32(2 + cs.below(3) as u32)]);
                }
                2 => {
                    let id = fresh();
                    let sc = golden().enums.get("StorageClass").unwrap();
                    let v = sc.values[cs.below(sc.values.len())].value;
                    let pointee = types[cs.below(types.len())];
                    t(&mut m, &mut types, id, spirv::Op::TypePointer, vec![enum_operand(K::StorageClass, v).unwrap(), Operand::IdRef(pointee)]);
                }
                3 => {
                    let id = fresh();
                    let el = types[cs.below(types.len())];
                    let len = consts[cs.below(consts.len())];
                    t(&mut m, &mut types, id, spirv::Op::TypeArray, vec![Operand::IdRef(el), Operand::IdRef(len)]);
                }
                4 => {
                    let id = fresh();
                    let n = cs.below(4);
                    let members = (0..n).map(|_| Operand::IdRef(types[cs.below(types.len())])).collect();
                    t(&mut m, &mut types, id, spirv::Op::TypeStruct, members);
                }
                5 => {
                    let id = fresh();
                    let n = cs.below(3);
                    let mut ops = vec![Operand::IdRef(types[cs.below(types.len())])];
                    ops.extend((0..n).map(|_| Operand::IdRef(types[cs.below(types.len())])));
                    t(&mut m, &mut types, id, spirv::Op::TypeFunction, ops);
                }
                6 => {
                    let id = fresh();
                    let ty = if cs.bool() { int_ty } else { float_ty };
                    m.types_global_values.push(inst(spirv::Op::Constant, Some(ty), Some(id), vec![Operand::LiteralBit32(cs.lit32())]));
                    consts.push(id);
                    typed_consts.push((id, ty));
                }
                7 => {
                    let id = fresh();
                    let n = 1 + cs.below(3);
                    let parts = (0..n).map(|_| Operand::IdRef(consts[cs.below(consts.len())])).collect();
                    let ty = types[cs.below(types.len())];
                    m.types_global_values.push(inst(spirv::Op::ConstantComposite, Some(ty), Some(id), parts));
                    consts.push(id);
                }
                _ => {
                    let id = fresh();
                    let op = [spirv::Op::ConstantTrue, spirv::Op::ConstantFalse, spirv::Op::ConstantNull][cs.below(3)];
                    m.types_global_values.push(inst(op, Some(bool_ty), Some(id), vec![]));
                    consts.push(id);
                }
            }
        }
    }
    // one module in twelve holds a type whose constructor chain is hundreds of levels deep: pointer
    // to pointer to ..., array of array of ..., or a struct nested in a struct in ... (around the
    // universal limit of 255 and well beyond); declared before use like everything else
    if rich && cs.below(12) == 0 && !consts.is_empty() {
        let depth = [254usize, 255, 256, 257, 300, 1_000][cs.below(6)];
        let kind = cs.below(4);
        let mut prev = [int_ty, float_ty][cs.below(2)];
        let len = consts[0];
        for d in 0..depth {
            let id = fresh();
            match if kind == 3 { d % 3 } else { kind } {
                0 => t(&mut m, &mut types, id, spirv::Op::TypePointer, vec![enum_operand(K::StorageClass, 7).unwrap(), Operand::IdRef(prev)]),
                1 => t(&mut m, &mut types, id, spirv::Op::TypeArray, vec![Operand::IdRef(prev), Operand::IdRef(len)]),
                _ => t(&mut m, &mut types, id, spirv::Op::TypeStruct, vec![Operand::IdRef(prev)]),
            }
            prev = id;
        }
    }
    let fn_ty = fresh();
    t(&mut m, &mut types, fn_ty, spirv::Op::TypeFunction, vec![Operand::IdRef(void_ty)]);
    Base {
        m,
        next,
        perm,
        types,
        int_ty,
        float_ty,
        bool_ty,
        void_ty,
        fn_ty,
        consts,
        typed_consts,
        values: vec![],
    }
}

/// operands of `gi` (after result type / id) with the given id assignment
fn make_operands(cs: &mut Cs, gi: &GInst, assign: &str, b: &Base, fixed: bool) -> Option<Vec<Operand>> {
    let g = golden();
    let mut ops = vec![];
    let mut aidx = 0;
    let mut pick_id = |cs: &mut Cs, aidx: &mut usize| -> u32 {
        let a = assign.as_bytes().get(*aidx).copied().unwrap_or(b'v');
        *aidx += 1;
        match a {
            b't' => b.types[if fixed { 2.min(b.types.len() - 1) } else { cs.below(b.types.len()) }],
            b'c' => b.consts[if fixed { 0 } else { cs.below(b.consts.len()) }],
            _ => {
                if b.values.is_empty() || (!fixed && cs.below(4) == 0) {
                    // an id unknown to the lifter
                    unknown_id(906) + if fixed { *aidx as u32 } else { cs.below(50) as u32 }
                } else if fixed {
                    b.values[(*aidx - 1) % b.values.len()]
                } else {
                    b.values[cs.below(b.values.len())]
                }
            }
        }
    };
    for (k, q) in gi.operands.iter().filter(|(k, _)| *k != K::IdResultType && *k != K::IdResult) {
        let reps = match q {
            Q::One => 1,
            Q::ZeroOrOne => {
                if fixed {
                    1
                } else {
                    cs.below(2)
                }
            }
            Q::ZeroOrMore => {
                if fixed {
                    2
                } else {
                    cs.below(4)
                }
            }
        };
        if reps == 0 && *q == Q::ZeroOrOne {
            break;
        }
        for _ in 0..reps {
            match k {
                K::IdRef => ops.push(Operand::IdRef(pick_id(cs, &mut aidx))),
                K::IdScope => ops.push(Operand::IdScope(pick_id(cs, &mut aidx))),
                K::IdMemorySemantics => ops.push(Operand::IdMemorySemantics(pick_id(cs, &mut aidx))),
                K::LiteralInteger | K::LiteralFloat => ops.push(Operand::LiteralBit32(if fixed { 3 + ops.len() as u32 } else { cs.lit32() })),
                K::LiteralExtInstInteger => ops.push(Operand::LiteralExtInstInteger(if fixed { 7 } else { cs.below(100) as u32 })),
                K::LiteralString => ops.push(Operand::LiteralString(if fixed { "s".into() } else { cs.string() })),
                K::PairIdRefIdRef => {
                    ops.push(Operand::IdRef(pick_id(cs, &mut aidx)));
                    ops.push(Operand::IdRef(pick_id(cs, &mut aidx)));
                }
                K::PairIdRefLiteralInteger => {
                    ops.push(Operand::IdRef(pick_id(cs, &mut aidx)));
                    ops.push(Operand::LiteralBit32(if fixed { 9 } else { cs.lit32() }));
                }
                K::PairLiteralIntegerIdRef | K::LiteralContextDependentNumber | K::LiteralSpecConstantOpInteger => return None,
                other => {
                    let ge = genum(g, *other)?;
                    // parameter-free values only
                    let v = if ge.is_mask {
                        let free: Vec<u32> = ge.bits.iter().filter(|x| x.params.is_empty()).map(|x| x.bit).collect();
                        if free.is_empty() {
                            0
                        } else if fixed {
                            free[0]
                        } else {
                            match cs.below(3) {
                                0 => 0,
                                1 => free[cs.below(free.len())],
                                _ => free[cs.below(free.len())] | free[cs.below(free.len())],
                            }
                        }
                    } else {
                        let free: Vec<u32> = ge.values.iter().filter(|x| x.params.is_empty()).map(|x| x.value).collect();
                        if free.is_empty() {
                            return None;
                        }
                        if fixed {
                            free[0]
                        } else {
                            free[cs.below(free.len())]
                        }
                    };
                    ops.push(enum_operand(*other, v)?);
                }
            }
        }
    }
    Some(ops)
}

/// opcodes that may appear as result-producing block instructions
pub fn candidates() -> Vec<&'static GInst> {
    golden()
        .core
        .iter()
        .filter(|gi| {
            matches!(layout(&gi.opname), Layout::Block | Layout::BlockOrDontCare | Layout::VarUndef)
                && gi.operands.first().map(|o| o.0) == Some(K::IdResultType)
                && gi.operands.get(1).map(|o| o.0) == Some(K::IdResult)
                && gi.opname != "Phi"
                && !gi.operands.iter().any(|(k, _)| is_special_kind(*k))
        })
        .collect()
}

struct Built {
    m: dr::Module,
    /// (opname of each result-producing non-phi block instruction, in order)
    lifted: Vec<dr::Instruction>,
    nphi: usize,
    nblocks: Vec<usize>,
}

fn add_function(cs: &mut Cs, b: &mut Base, body: &mut dyn FnMut(&mut Cs, &mut Base, &mut Vec<dr::Instruction>), lifted: &mut Vec<dr::Instruction>, nphi: &mut usize) -> usize {
    let fcg = golden().enums.get("FunctionControl").unwrap();
    let fc = if cs.bool() { 0 } else { fcg.bits[cs.below(fcg.bits.len())].bit };
    let ret = b.types[cs.below(b.types.len())];
    let fid = b.take_id();
    let mut f = dr::Function::new();
    f.def = Some(inst(spirv::Op::Function, Some(ret), Some(fid), vec![enum_operand(K::FunctionControl, fc).unwrap(), Operand::IdRef(b.fn_ty)]));
    let nb = 1 + cs.below(3);
    let mut labels = vec![];
    for _ in 0..nb {
        let l = b.take_id();
        labels.push(l);
    }
    for bi in 0..nb {
        let mut blk = dr::Block::new();
        blk.label = Some(inst(spirv::Op::Label, None, Some(labels[bi]), vec![]));
        // phis first
        let np = cs.below(3);
        for _ in 0..np {
            // a phi of a scalar type that has constants merges constants of that type half of the time
            let with_consts = !b.typed_consts.is_empty() && cs.below(3) == 0;
            let ty = if with_consts { b.typed_consts[cs.below(b.typed_consts.len())].1 } else { b.types[cs.below(b.types.len())] };
            let same: Vec<u32> = b.typed_consts.iter().filter(|(_, t)| *t == ty).map(|(c, _)| *c).collect();
            let id = b.take_id();
            let n = if with_consts { 1 + cs.below(2) } else { cs.below(3) };
            let mut ops = vec![];
            for _ in 0..n {
                // sources: constants of the phi's own type, or ids unknown to the lifter (forward
                // references) — same-typed results would need type tracking of every earlier op
                if with_consts && !same.is_empty() && cs.below(4) != 0 {
                    ops.push(Operand::IdRef(same[cs.below(same.len())]));
                    ops.push(Operand::IdRef(labels[cs.below(labels.len())]));
                    continue;
                }
                ops.push(Operand::IdRef(unknown_id(1906) + cs.below(40) as u32));
                ops.push(Operand::IdRef(labels[cs.below(labels.len())]));
            }
            blk.instructions.push(inst(spirv::Op::Phi, Some(ty), Some(id), ops));
            *nphi += 1;
        }
        let before = blk.instructions.len();
        body(cs, b, &mut blk.instructions);
        for i in &blk.instructions[before..] {
            if i.result_id.is_some() {
                lifted.push(i.clone());
            }
        }
        // non-switch terminator
        let term = match cs.below(7) {
            0 => inst(spirv::Op::Return, None, None, vec![]),
            1 => inst(spirv::Op::ReturnValue, None, None, vec![Operand::IdRef(b.consts[0])]),
            2 => inst(spirv::Op::Branch, None, None, vec![Operand::IdRef(labels[cs.below(labels.len())])]),
            3 => inst(
                spirv::Op::BranchConditional,
                None,
                None,
                vec![Operand::IdRef(b.consts[0]), Operand::IdRef(labels[cs.below(labels.len())]), Operand::IdRef(labels[cs.below(labels.len())])],
            ),
            4 => inst(spirv::Op::Kill, None, None, vec![]),
            5 => inst(spirv::Op::Unreachable, None, None, vec![]),
            _ => inst(spirv::Op::TerminateInvocation, None, None, vec![]),
        };
        blk.instructions.push(term);
        f.blocks.push(blk);
    }
    // phis anywhere in the block (the statement puts no order on "result-producing instructions,
    // phis and non-switch terminators"): in a third of the blocks the phis are re-inserted at
    // random positions before the terminator, the order of the other instructions kept
    for bl in f.blocks.iter_mut() {
        if cs.below(3) != 0 {
            continue;
        }
        let term = bl.instructions.pop();
        let (phis, mut rest): (Vec<_>, Vec<_>) = bl.instructions.drain(..).partition(|i| i.class.opcode == spirv::Op::Phi);
        for p in phis {
            let at = cs.below(rest.len() + 1);
            rest.insert(at, p);
        }
        bl.instructions = rest;
        bl.instructions.extend(term);
    }
    // loop-carried values: some phi sources name a result defined LATER in the same function
    // (a forward reference, legal for phis only; every counting loop has one). Results lifted
    // earlier are not used: the lifter asserts that those have the phi's type.
    {
        let flat: Vec<(usize, usize, bool, Option<u32>)> = f
            .blocks
            .iter()
            .enumerate()
            .flat_map(|(bi, bl)| bl.instructions.iter().enumerate().map(move |(ii, i)| (bi, ii, i.class.opcode == spirv::Op::Phi, i.result_id)))
            .collect();
        for (bi, bl) in f.blocks.iter_mut().enumerate() {
            for (ii, i) in bl.instructions.iter_mut().enumerate() {
                if i.class.opcode != spirv::Op::Phi {
                    continue;
                }
                let later: Vec<u32> = flat.iter().filter(|(b2, i2, is_phi, _)| !*is_phi && (*b2, *i2) > (bi, ii)).filter_map(|x| x.3).collect();
                for k in (0..i.operands.len()).step_by(2) {
                    if !later.is_empty() && cs.bool() {
                        i.operands[k] = Operand::IdRef(later[cs.below(later.len())]);
                    }
                }
            }
        }
    }
    f.end = Some(inst(spirv::Op::FunctionEnd, None, None, vec![]));
    b.m.functions.push(f);
    nb
}

fn one_op(cs: &mut Cs, b: &mut Base, gi: &'static GInst, assign: &str, fixed: bool) -> Option<dr::Instruction> {
    let ops = make_operands(cs, gi, assign, b, fixed)?;
    let rt = b.types[if fixed { 3.min(b.types.len() - 1) } else { cs.below(b.types.len()) }];
    let id = b.take_id();
    b.values.push(id);
    Some(inst(spirv::Op::from_u32(gi.opcode)?, Some(rt), Some(id), ops))
}

// ---------------------------------------------------------------------------
// oracle

fn check_lift(built: &Built, st: &mut Stats) -> R {
    let m = &built.m;
    let dec = || m.all_inst_iter().map(show_inst).collect::<Vec<_>>().join("\n");
    let wrap = |f: Fail| f.with_decoded(dec());
    let r = no_panic("LiftContext::convert", || LiftContext::convert(m)).map_err(|f| {
        // name the last opcode family for the signature
        wrap(f)
    })?;
    let sr = match r {
        Ok(x) => x,
        Err(e) => return Err(wrap(Fail::new("lift-fails", format!("{:?}", e), format!("lifting a module of the supported subset fails: {:?}", e)))),
    };
    let Some(tf) = tok_fmt() else {
        return Err(wrap(Fail::new("harness", "token-rendering", "cannot learn how a token is rendered under Debug (forged tokens 7 and 13 do not differ in their index only)".to_string())));
    };
    let h = m.header.as_ref().unwrap();
    if sr.version != h.version {
        return Err(wrap(Fail::new("version-word", "version", format!("lifted version {:#x}, header version word {:#x}", sr.version, h.version))));
    }
    let caps: Vec<String> = sr.capabilities.iter().map(|c| format!("{:?}", c)).collect();
    let want_caps: Vec<String> = m.capabilities.iter().map(|i| match &i.operands[0] {
        Operand::Capability(c) => format!("{:?}", c),
        o => format!("{:?}", o),
    }).collect();
    if caps != want_caps {
        return Err(wrap(Fail::new("capabilities", "order-or-content", format!("lifted capabilities {:?}, module has {:?}", caps, want_caps))));
    }
    let mm = m.memory_model.as_ref().unwrap();
    let (_, mma) = atoms(&canon(&format!("{:?}", sr.memory_model), tf));
    let mut want_mm = vec![];
    for o in &mm.operands {
        want_mm.extend(dr_atoms(o).1);
    }
    if mma != want_mm {
        return Err(wrap(Fail::new("memory-model", "content", format!("lifted memory model {:?}, module has {:?}", sr.memory_model, want_mm))));
    }
    // types / constants / ops, one entry per declaration, in order
    let mut ix = Index { types: HashMap::new(), consts: HashMap::new(), ambiguous: tf.ambiguous };
    let type_decls: Vec<&dr::Instruction> = m.types_global_values.iter().filter(|i| crate::refclass::is_type(i.class.opname) == crate::refclass::Tri::Yes).collect();
    let const_decls: Vec<&dr::Instruction> = m.types_global_values.iter().filter(|i| crate::refclass::is_constant(i.class.opname) == crate::refclass::Tri::Yes).collect();
    for (k, t) in type_decls.iter().enumerate() {
        ix.types.insert(t.result_id.unwrap(), k as u32);
    }
    for (k, c) in const_decls.iter().enumerate() {
        ix.consts.insert(c.result_id.unwrap(), k as u32);
    }
    let te = match entries(&sr.types, type_decls.len(), || sr::Type::Void, tf) {
        Ok(e) => e,
        Err(n) => return Err(wrap(Fail::new("one-type-per-declaration", "count", format!("{}{} lifted types for {} type declarations", n, if n > type_decls.len() + 8 { "+" } else { "" }, type_decls.len())))),
    };
    for (e, d) in te.iter().zip(&type_decls) {
        let (head, a) = atoms(e);
        let want_head = d.class.opname.trim_start_matches("Type");
        if head != want_head {
            return Err(wrap(Fail::new("type-entry", format!("{}:head", d.class.opname), format!("declaration {} lifted as {}", show_inst(d), e))));
        }
        if let Err(why) = match_atoms(&a, &d.operands, &ix) {
            return Err(wrap(Fail::new("type-entry", format!("{}:operands", d.class.opname), format!("declaration {} lifted as {}: {}", show_inst(d), e, why))));
        }
    }
    let ce = match entries(&sr.constants, const_decls.len(), || sr::Constant::Null, tf) {
        Ok(e) => e,
        Err(n) => return Err(wrap(Fail::new("one-constant-per-declaration", "count", format!("{}{} lifted constants for {} constant declarations", n, if n > const_decls.len() + 8 { "+" } else { "" }, const_decls.len())))),
    };
    for (e, d) in ce.iter().zip(&const_decls) {
        let (head, a) = atoms(e);
        // expected rendering per opcode
        let ok = match d.class.opname {
            "ConstantTrue" => head == "Bool" && a == vec![Atom::Ident("true".into())],
            "ConstantFalse" => head == "Bool" && a == vec![Atom::Ident("false".into())],
            "ConstantNull" => head == "Null" && a.is_empty(),
            "ConstantComposite" => head == "Composite" && match_atoms(&a, &d.operands, &ix).is_ok() && a.iter().all(|x| matches!(x, Atom::Tok(_))),
            "Constant" => {
                let v = match d.operands[0] {
                    Operand::LiteralBit32(v) => v,
                    _ => 0,
                };
                let ty = type_decls.iter().find(|t| t.result_id == d.result_type);
                match ty.map(|t| (t.class.opname, t.operands.get(1))) {
                    Some(("TypeInt", Some(Operand::LiteralBit32(0)))) => head == "UInt" && a == vec![Atom::Num(format!("{}", v))],
                    Some(("TypeInt", _)) => head == "Int" && a == vec![Atom::Num(format!("{}", v as i32))],
                    Some(("TypeFloat", _)) => {
                        let f = f32::from_bits(v);
                        head == "Float" && (f.is_nan() || atoms(&format!("Float({:?})", f)).1 == a)
                    }
                    _ => false,
                }
            }
            _ => false,
        };
        if !ok {
            return Err(wrap(Fail::new("constant-entry", d.class.opname.to_string(), format!("declaration {} lifted as {}", show_inst(d), e))));
        }
    }
    let oe = match entries(&sr.ops, built.lifted.len(), || sr::ops::Op::Nop, tf) {
        Ok(e) => e,
        Err(n) => return Err(wrap(Fail::new("one-op-per-instruction", if n < built.lifted.len() { "fewer" } else { "more" }, format!("{}{} lifted operations for {} result-producing non-phi block instructions", n, if n > built.lifted.len() + 8 { "+" } else { "" }, built.lifted.len())))),
    };
    for (e, d) in oe.iter().zip(&built.lifted) {
        let (head, a) = atoms(e);
        if head != d.class.opname {
            return Err(wrap(Fail::new("op-entry", format!("{}:head", d.class.opname), format!("instruction {} lifted as {}", show_inst(d), e))));
        }
        if let Err(why) = match_atoms(&a, &d.operands, &ix) {
            return Err(wrap(Fail::new("op-entry", format!("{}:operands", d.class.opname), format!("instruction {} lifted as {}: {}", show_inst(d), e, why))));
        }
        st.set_insert("lifted_opcodes", d.class.opname);
    }
    // functions
    if sr.functions.len() != m.functions.len() {
        return Err(wrap(Fail::new("functions", "count", format!("{} lifted functions for {}", sr.functions.len(), m.functions.len()))));
    }
    for (k, (sf, df)) in sr.functions.iter().zip(&m.functions).enumerate() {
        let def = df.def.as_ref().unwrap();
        let want_fc = match &def.operands[0] {
            Operand::FunctionControl(c) => format!("{:?}", c),
            o => format!("{:?}", o),
        };
        if format!("{:?}", sf.control) != want_fc {
            return Err(wrap(Fail::new("function", "control", format!("function {}: control {:?}, declared {}", k, sf.control, want_fc))));
        }
        let want_res = ix.types.get(&def.result_type.unwrap()).copied();
        if Some(sf.result.index()) != want_res {
            return Err(wrap(Fail::new("function", "result-type", format!("function {}: result token {:?}, declared type index {:?}", k, sf.result, want_res))));
        }
        let mk_block = || sr::module::Block { arguments: vec![], ops: vec![], terminator: sr::ops::Terminator::TerminateRayKHR };
        let be = match entries(&sf.blocks, df.blocks.len(), mk_block, tf) {
            Ok(e) => e,
            Err(n) => return Err(wrap(Fail::new("function", "block-count", format!("function {}: {}{} lifted blocks for {}", k, n, if n > df.blocks.len() + 8 { "+" } else { "" }, df.blocks.len())))),
        };
        for (bi, (e, db)) in be.iter().zip(&df.blocks).enumerate() {
            // Block { arguments: [...], ops: [...], terminator: ... }
            let args_part = e.split("arguments: [").nth(1).and_then(|x| x.split(']').next()).unwrap_or("");
            let (_, args) = atoms(&format!("X({})", args_part));
            let want_args: Vec<Atom> = db
                .instructions
                .iter()
                .filter(|i| i.class.opname == "Phi")
                .map(|i| Atom::Tok(ix.types.get(&i.result_type.unwrap()).copied().unwrap_or(u32::MAX)))
                .collect();
            if args != want_args {
                return Err(wrap(Fail::new("block", "phi-arguments", format!("function {} block {}: arguments {:?}, phis give {:?}", k, bi, args, want_args))));
            }
            let term_part = e.split("terminator: ").nth(1).unwrap_or("");
            let term_part = term_part.strip_suffix(" }").unwrap_or(term_part);
            let dt = db.instructions.last().unwrap();
            let (_, ta) = atoms(&format!("X({})", term_part));
            let name_ok = term_part.split(|c: char| !c.is_alphanumeric()).any(|w| w == dt.class.opname);
            // unit terminators appear as a bare identifier atom
            let ta: Vec<Atom> = ta.into_iter().filter(|x| *x != Atom::Ident(dt.class.opname.to_string())).collect();
            if !name_ok || match_atoms(&ta, &dt.operands, &ix).is_err() {
                return Err(wrap(Fail::new("block", format!("terminator:{}", dt.class.opname), format!("function {} block {}: terminator {} lifted as {}", k, bi, show_inst(dt), term_part))));
            }
        }
    }
    Ok(())
}

// ---------------------------------------------------------------------------
// pinned subset (created once with `vcheck snapshot-lift`)

pub fn snapshot_subset() -> Value {
    let mut ops = serde_json::Map::new();
    let mut skipped = vec![];
    let stream = [0u8; 256];
    for gi in candidates() {
        let nids: usize = gi
            .operands
            .iter()
            .filter(|(k, _)| *k != K::IdResultType && *k != K::IdResult)
            .map(|(k, q)| {
                let per = match k {
                    K::IdRef | K::IdScope | K::IdMemorySemantics | K::PairIdRefLiteralInteger => 1,
                    K::PairIdRefIdRef => 2,
                    _ => 0,
                };
                per * if *q == Q::ZeroOrMore { 2 } else { 1 }
            })
            .sum();
        let mut tries: Vec<String> = vec!["v".repeat(nids), "t".repeat(nids), "c".repeat(nids)];
        for p in 0..nids {
            for ch in ['t', 'c'] {
                let mut s: Vec<char> = "v".repeat(nids).chars().collect();
                s[p] = ch;
                tries.push(s.into_iter().collect());
            }
        }
        tries.dedup();
        let mut found = None;
        for a in tries {
            let mut cs = Cs::new(&stream);
            let mut b = base_module(&mut cs, false);
            // two earlier values to reference
            let mut lifted = vec![];
            let mut nphi = 0;
            let mut ok_build = true;
            let undef = crate::layout::gi_by_name("Undef");
            let mut body = |cs: &mut Cs, b: &mut Base, out: &mut Vec<dr::Instruction>| {
                for _ in 0..2 {
                    if let Some(i) = one_op(cs, b, undef, "", true) {
                        out.push(i);
                    }
                }
                match one_op(cs, b, gi, &a, true) {
                    Some(i) => out.push(i),
                    None => ok_build = false,
                }
            };
            let stream0 = [0u8; 8];
            let mut cs0 = Cs::new(&stream0);
            let nb = add_function(&mut cs0, &mut b, &mut body, &mut lifted, &mut nphi);
            if !ok_build {
                break;
            }
            let built = Built { m: b.m, lifted, nphi, nblocks: vec![nb] };
            let mut st = Stats::new();
            if check_lift(&built, &mut st).is_ok() {
                found = Some(a);
                break;
            }
        }
        match found {
            Some(a) => {
                ops.insert(gi.opname.clone(), Value::String(a));
            }
            None => skipped.push(gi.opname.clone()),
        }
    }
    serde_json::json!({
        "_comment": "opcodes whose result-producing block instructions the lifter of the pinned tree handles with positional operand carry-over; value = assignment of the id operands (v = value id, t = declared type id, c = declared constant id). Created by `vcheck snapshot-lift`; opcodes outside this list are outside the supported subset of C18.",
        "ops": ops,
        "not_in_subset": skipped,
    })
}

// ---------------------------------------------------------------------------
// sub-checks

fn sub_sweep(input: &[u8], st: &mut Stats) -> R {
    let i = idx(input) as usize;
    let sub = subset();
    let Some((name, assign)) = sub.ops.iter().nth(i / 4) else { return Ok(()) };
    let gi = crate::layout::gi_by_name(name);
    let stream = crate::sweep::stream_for(i as u64 ^ 0x18, 512);
    let mut cs = Cs::new(&stream);
    let fixed = i % 4 == 0;
    let mut b = base_module(&mut cs, !fixed);
    let mut lifted = vec![];
    let mut nphi = 0;
    let undef = crate::layout::gi_by_name("Undef");
    let mut body = |cs: &mut Cs, b: &mut Base, out: &mut Vec<dr::Instruction>| {
        for _ in 0..2 {
            if let Some(x) = one_op(cs, b, undef, "", fixed) {
                out.push(x);
            }
        }
        if let Some(x) = one_op(cs, b, gi, assign, fixed) {
            out.push(x);
        }
    };
    let nb = add_function(&mut cs, &mut b, &mut body, &mut lifted, &mut nphi);
    let built = Built { m: b.m, lifted, nphi, nblocks: vec![nb] };
    check_lift(&built, st)?;
    st.nontrivial(hash_str(&format!("{}#{}", name, i % 4)));
    Ok(())
}

fn sub_modules(input: &[u8], st: &mut Stats) -> R {
    ID_SCALE.with(|s| s.set((0, 1)));
    let r = sub_modules_scaled(input, st, false);
    ID_SCALE.with(|s| s.set((0, 1)));
    r
}

/// `modules` with the result ids spread over other ranges of the id space (see ID_SCALES)
fn sub_spread_ids(input: &[u8], st: &mut Stats) -> R {
    let r = sub_modules_scaled(input, st, true);
    ID_SCALE.with(|s| s.set((0, 1)));
    r
}

fn sub_modules_scaled(input: &[u8], st: &mut Stats, spread: bool) -> R {
    let mut cs = Cs::new(input);
    if spread {
        let sc = ID_SCALES[cs.below(ID_SCALES.len())];
        ID_SCALE.with(|s| s.set(sc));
        st.count(&format!("id_scale_base_{}_stride_{}", sc.0, sc.1));
    }
    let sub = subset();
    let names: Vec<(&String, &String)> = sub.ops.iter().collect();
    let mut b = base_module(&mut cs, true);
    let mut lifted = vec![];
    let mut nphi = 0;
    let mut nblocks = vec![];
    let nf = 1 + cs.below(3);
    for _ in 0..nf {
        let mut body = |cs: &mut Cs, b: &mut Base, out: &mut Vec<dr::Instruction>| {
            let n = cs.below(6);
            for _ in 0..n {
                let (name, assign) = names[cs.below(names.len())];
                let gi = crate::layout::gi_by_name(name);
                if let Some(x) = one_op(cs, b, gi, assign, false) {
                    out.push(x);
                }
            }
        };
        let nb = add_function(&mut cs, &mut b, &mut body, &mut lifted, &mut nphi);
        nblocks.push(nb);
    }
    let ntypes = b.types.len();
    let ncomp = b.m.types_global_values.iter().filter(|i| i.class.opname == "ConstantComposite").count();
    let built = Built { m: b.m, lifted, nphi, nblocks };
    // lifting is a pure function of the module: now and then a BROKEN variant of this module
    // (a later block without its terminator, an emptied block, a missing header) is lifted on
    // this thread first; whatever that yields - an error, or a panic of one of the lifter's own
    // assertions, neither is part of the statement - the lift of the intact module must be
    // unaffected
    if cs.below(6) == 0 {
        let mut broken = built.m.clone();
        let mut what = "header removed";
        let mut done = false;
        for f in broken.functions.iter_mut().rev() {
            if f.blocks.len() >= 2 {
                let last = f.blocks.len() - 1;
                if cs.bool() {
                    f.blocks[last].instructions.pop();
                    what = "last block lost its terminator";
                } else {
                    f.blocks[last].instructions.clear();
                    what = "last block emptied";
                }
                done = true;
                break;
            }
        }
        if !done {
            broken.header = None;
        }
        let r = crate::engine::catch(|| rspirv::lift::LiftContext::convert(&broken).is_ok());
        st.count(&format!("broken_variant_lifted_first:{}:{}", what, match r { Ok(true) => "ok", Ok(false) => "err", Err(_) => "panic" }));
    }
    check_lift(&built, st)?;
    if ntypes >= 4 && ncomp >= 1 && built.nblocks.iter().any(|n| *n >= 2) && built.nphi >= 1 && built.lifted.len() >= 4 {
        st.nontrivial(hash_str(&built.m.all_inst_iter().map(show_inst).collect::<Vec<_>>().join(";")));
    }
    st.sample(|| built.m.all_inst_iter().map(show_inst).collect::<Vec<_>>().join("\n"));
    Ok(())
}

pub const SUBS: &[Sub] = &[
    Sub { name: "opcode-sweep", f: sub_sweep },
    Sub { name: "modules", f: sub_modules },
    Sub { name: "spread-ids", f: sub_spread_ids },
];

pub fn run(ctx: &Ctx) {
    let sub = subset();
    ctx.note(format!("pinned supported subset: {} result-producing block-level opcodes (golden/lift_subset.json)", sub.ops.len()));
    run_regress(ctx, SUBS);
    drive_enum(ctx, &SUBS[0], sub.ops.len() as u64 * 4);
    drive_random(ctx, &SUBS[1], ctx.n(20_000, 10_000_000), 1500);
    drive_random(ctx, &SUBS[2], ctx.n(20_000, 10_000_000), 1500);
}

pub fn finish(ctx: &Ctx) -> i32 {
    crate::engine::finish(
        ctx,
        Finish {
            rule: "modules generated inside the stated subset: header (id bound accurate, stale or zero), 1-3 capabilities, one memory model; declared-before-use void/bool/int/float, vector, matrix, pointer, array (length = earlier 32-bit constant), struct and function types; 32-bit OpConstant, bool/null constants and OpConstantComposite; 1-3 functions of 1-3 blocks with phis (at the start of the block or anywhere before the terminator; sources unknown to the lifter or results defined later in the same function), result-producing instructions drawn from the pinned list of opcodes the lifter handles (golden/lift_subset.json, every one of them x4 in the sweep) and non-switch terminators. Oracle: convert is Ok; version word, capabilities in order and memory model preserved; the Debug rendering of types / constants / ops / function blocks is read by a small Debug-syntax reader: one entry per declaration / per result-producing non-phi block instruction, in order, entry head = the opcode's name, value atoms positionally equal to the DR operands (an id may appear as the raw word or as Token(k) with k the index of the referenced type / constant declaration); control mask, result type token, block count, each block's terminator and phi result types as block arguments. non-trivial = module with >= 4 types, a composite, a function with >= 2 blocks, a phi and >= 4 lifted operations (sweep: every case); distinct = hash of the rendered module. Added in rounds 18-19: spread-ids (ids across powers of two and ten) and type chains 254-1000 constructors deep.",
            assumptions: vec!["the structured representation is documented as under development: the supported subset is pinned (opcodes and id-operand roles) from the pinned tree; an opcode leaving the subset is a failure of the sweep".into()],
            trusted_base: vec!["Debug-syntax reader".into(), "golden/lift_subset.json".into()],
        },
    )
}
