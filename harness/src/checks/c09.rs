//! C09 — grammar tables are total, unique, well-formed and match the golden grammar.

use crate::cs::Cs;
use crate::engine::*;
use crate::golden::{golden, quant_name, GInst};
use rspirv::grammar::{
    CoreInstructionTable, ExtendedInstruction, GlslStd450InstructionTable, Instruction,
    LogicalOperand, OpenCLStd100InstructionTable, OperandKind as K, OperandQuantifier as Q,
};

fn wellformed(name: &str, ops: &[LogicalOperand], core: bool) -> R {
    // at most one result type immediately followed by at most one result id at the front
    let nrt = ops.iter().filter(|o| o.kind == K::IdResultType).count();
    let nri = ops.iter().filter(|o| o.kind == K::IdResult).count();
    let bad = |m: &str| Err(Fail::new("well-formed", format!("{}:{}", name, m), format!("entry {}: {} ({:?})", name, m, ops.iter().map(|o| (o.kind, o.quantifier)).collect::<Vec<_>>())));
    if nrt > 1 || nri > 1 {
        return bad("several result types / ids");
    }
    if core {
        if nrt == 1 && (ops[0].kind != K::IdResultType || ops.get(1).map(|o| o.kind) != Some(K::IdResult)) {
            return bad("result type not first or not followed by result id");
        }
        if nrt == 0 && nri == 1 && ops[0].kind != K::IdResult {
            return bad("result id not at the front");
        }
        for o in ops.iter().filter(|o| o.kind == K::IdResultType || o.kind == K::IdResult) {
            if o.quantifier != Q::One {
                return bad("optional result");
            }
        }
    } else if nrt + nri > 0 {
        return bad("extended instruction with result operands");
    }
    let mut seen_opt = false;
    for (i, o) in ops.iter().enumerate() {
        match o.quantifier {
            Q::One => {
                if seen_opt {
                    return bad("required operand after an optional one");
                }
            }
            Q::ZeroOrOne => seen_opt = true,
            Q::ZeroOrMore => {
                seen_opt = true;
                if i + 1 != ops.len() {
                    return bad("variadic operand not last");
                }
            }
        }
    }
    Ok(())
}

fn same_record(what: &str, name: &str, opcode: u32, caps: &[spirv::Capability], exts: &[&str], ops: &[LogicalOperand], g: &GInst) -> R {
    let f = |clause: &str, msg: String| Err(Fail::new(clause, format!("{}:{}", what, g.opname), msg));
    if name != g.opname || opcode != g.opcode {
        return f("entry-identity", format!("entry ({}, {}) vs golden ({}, {})", name, opcode, g.opname, g.opcode));
    }
    let gops: Vec<(K, Q)> = g.operands.clone();
    let aops: Vec<(K, Q)> = ops.iter().map(|o| (o.kind, o.quantifier)).collect();
    if gops != aops {
        return f(
            "entry-operands",
            format!(
                "Op{}: operands {:?}, golden {:?}",
                name,
                aops.iter().map(|(k, q)| format!("{:?}{}", k, match q { Q::One => "", Q::ZeroOrOne => "?", Q::ZeroOrMore => "*" })).collect::<Vec<_>>(),
                gops.iter().map(|(k, q)| format!("{:?}/{}", k, quant_name(*q))).collect::<Vec<_>>()
            ),
        );
    }
    let acaps: Vec<String> = caps.iter().map(|c| format!("{:?}", c)).collect();
    if acaps != g.caps {
        return f("entry-capabilities", format!("Op{}: capabilities {:?}, golden {:?}", name, acaps, g.caps));
    }
    let aexts: Vec<String> = exts.iter().map(|s| s.to_string()).collect();
    if aexts != g.exts {
        return f("entry-extensions", format!("Op{}: extensions {:?}, golden {:?}", name, aexts, g.exts));
    }
    Ok(())
}

fn core_entry(e: &'static Instruction<'static>, g: &GInst) -> R {
    same_record("core", e.opname, e.opcode as u32, e.capabilities, e.extensions, e.operands, g)?;
    if format!("{:?}", e.opcode) != e.opname {
        return Err(Fail::new("entry-identity", format!("core:{}", g.opname), format!("opname {} but opcode prints as {:?}", e.opname, e.opcode)));
    }
    wellformed(e.opname, e.operands, true)
}

/// all 65536 opcode numbers (index = number)
fn sub_lookup(input: &[u8], st: &mut Stats) -> R {
    let n = idx(input) as u32;
    if n > 0xffff {
        return Ok(());
    }
    let g = golden();
    let got = no_panic("CoreInstructionTable::lookup_opcode", || CoreInstructionTable::lookup_opcode(n as u16))?;
    let want = g.core_by_code.get(&n).map(|i| &g.core[*i]);
    match (got, want) {
        (None, None) => {}
        (Some(e), Some(w)) => {
            core_entry(e, w)?;
            let op = spirv::Op::from_u32(n).ok_or_else(|| Fail::new("op-enum", w.opname.clone(), "declared opcode missing from spirv::Op".to_string()))?;
            let e2 = no_panic("CoreInstructionTable::get", || CoreInstructionTable::get(op))?;
            if !std::ptr::eq(e, e2) && (e2.opcode != e.opcode || e2.opname != e.opname) {
                return Err(Fail::new("get-vs-lookup", w.opname.clone(), format!("get({:?}) returns {}", op, e2.opname)));
            }
            st.nontrivial(n as u64);
            st.sample(|| format!("{} -> Op{} {:?}", n, e.opname, e.operands.iter().map(|o| format!("{:?}", o.kind)).collect::<Vec<_>>()));
        }
        (g0, w) => {
            return Err(Fail::new(
                "lookup-total",
                format!("{}", w.map(|w| w.opname.clone()).unwrap_or_else(|| format!("#{}", n))),
                format!("lookup_opcode({}) = {:?}, golden {:?}", n, g0.map(|e| e.opname), w.map(|w| &w.opname)),
            ));
        }
    }
    // "iff the number is a declared opcode", against the enumeration itself (not only against the
    // golden list): an opcode the `spirv` crate declares must have an entry, and looking it up by
    // value must not fail
    let declared = no_panic("spirv::Op::from_u32", || spirv::Op::from_u32(n))?;
    if declared.is_some() != got.is_some() {
        return Err(Fail::new("declared-iff-entry", format!("core:{}", n), format!("spirv::Op::from_u32({}) = {:?} but lookup_opcode({}) = {:?}", n, declared, n, got.map(|e| e.opname))));
    }
    if let Some(op) = declared {
        let e2 = no_panic("CoreInstructionTable::get", || CoreInstructionTable::get(op))?;
        if e2.opcode != op {
            return Err(Fail::new("get-total", format!("{:?}", op), format!("get({:?}) returns the entry of {:?}", op, e2.opcode)));
        }
    }
    // neighbours of declared numbers are the interesting undeclared probes
    if want.is_none() && (g.core_by_code.contains_key(&(n.wrapping_sub(1))) || g.core_by_code.contains_key(&(n + 1))) {
        st.nontrivial(n as u64);
    }
    Ok(())
}

fn ext_check(set: &str, n: u32, got: Option<&'static ExtendedInstruction<'static>>, table: &[GInst]) -> R {
    // against the opcode enumeration itself: declared iff an entry exists, get never fails
    if set == "glsl" {
        let d = no_panic("spirv::GLOp::from_u32", || spirv::GLOp::from_u32(n))?;
        if d.is_some() != got.is_some() {
            return Err(Fail::new("declared-iff-entry", format!("glsl:{}", n), format!("GLOp::from_u32({}) = {:?} but lookup_opcode = {:?}", n, d, got.map(|e| e.opname))));
        }
        if let Some(op) = d {
            let e = no_panic("GlslStd450InstructionTable::get", || GlslStd450InstructionTable::get(op))?;
            if e.opcode != n {
                return Err(Fail::new("get-total", format!("glsl:{}", n), format!("get({:?}) returns entry number {}", op, e.opcode)));
            }
        }
    } else {
        let d = no_panic("spirv::CLOp::from_u32", || spirv::CLOp::from_u32(n))?;
        if d.is_some() != got.is_some() {
            return Err(Fail::new("declared-iff-entry", format!("opencl:{}", n), format!("CLOp::from_u32({}) = {:?} but lookup_opcode = {:?}", n, d, got.map(|e| e.opname))));
        }
        if let Some(op) = d {
            let e = no_panic("OpenCLStd100InstructionTable::get", || OpenCLStd100InstructionTable::get(op))?;
            if e.opcode != n {
                return Err(Fail::new("get-total", format!("opencl:{}", n), format!("get({:?}) returns entry number {}", op, e.opcode)));
            }
        }
    }
    let want = table.iter().find(|i| i.opcode == n);
    match (got, want) {
        (None, None) => Ok(()),
        (Some(e), Some(w)) => {
            same_record(set, e.opname, e.opcode, e.capabilities, e.extensions, e.operands, w)?;
            wellformed(e.opname, e.operands, false)
        }
        (g0, w) => Err(Fail::new("lookup-total", format!("{}:{}", set, n), format!("{} lookup_opcode({}) = {:?}, golden {:?}", set, n, g0.map(|e| e.opname), w.map(|w| &w.opname)))),
    }
}

/// lookups are pure functions of their argument: sequences of 60 lookups on one thread, in any
/// order over the three tables (number near the previous one, the previous number again in
/// another table, a declared number, an arbitrary one), each answer compared with the golden
/// record - a cache, cursor or memo inside the tables shows up here
fn sub_sequences(input: &[u8], st: &mut Stats) -> R {
    let mut cs = Cs::new(input);
    let g = golden();
    let core_codes: Vec<u32> = g.core.iter().map(|i| i.opcode).collect();
    let mut prev: u32 = 0;
    let mut log: Vec<String> = vec![];
    // the tables are process-wide: half of the sequences run alone (no lookup of another thread
    // between two of theirs), the others concurrently with each other
    static GATE: std::sync::RwLock<()> = std::sync::RwLock::new(());
    let alone = cs.bool();
    let (_w, _r) = if alone { (Some(GATE.write().unwrap_or_else(|e| e.into_inner())), None) } else { (None, Some(GATE.read().unwrap_or_else(|e| e.into_inner()))) };
    let mut table = 0;
    for _ in 0..60 {
        let n: u32 = match cs.below(13) {
            0 | 1 => prev.wrapping_sub(1 + cs.below(2) as u32),
            2 => prev.wrapping_add(1 + cs.below(2) as u32),
            3 => prev,
            4 | 5 => core_codes[cs.below(core_codes.len())],
            6 => cs.below(220) as u32,
            // numbers that agree with the previous one in their low or high half
            7 => prev ^ (1 << (16 + cs.below(16))),
            8 => prev.wrapping_add(65_536 * (1 + cs.below(3)) as u32),
            9 => prev & 0xffff,
            10 => (prev & 0xffff_0000) | cs.below(220) as u32,
            // the previous number mixed with a constant hash functions are built from (a memo or
            // cache keyed by a mixed number is the plausible place for such a relation)
            11 => {
                const MIX: [u32; 10] = [0x9e37_79b9, 0x85eb_ca6b, 0xc2b2_ae35, 0x0100_0193, 0x811c_9dc5, 0xcc9e_2d51, 0x1b87_3593, 0x27d4_eb2f, 0x1656_67b1, 0x517c_c1b7];
                let k = MIX[cs.below(MIX.len())];
                match cs.below(3) {
                    0 => prev ^ k,
                    1 => prev.wrapping_add(k),
                    _ => prev.wrapping_mul(k),
                }
            }
            _ => cs.u16() as u32,
        };
        // three times in four stay in the table of the previous lookup
        if cs.below(4) == 0 {
            table = cs.below(4);
        }
        let r = match table {
            0 | 1 => {
                let n16 = (n & 0xffff) as u16;
                log.push(format!("core {}", n16));
                let got = no_panic("CoreInstructionTable::lookup_opcode", || CoreInstructionTable::lookup_opcode(n16))?;
                let want = g.core_by_code.get(&(n16 as u32)).map(|i| &g.core[*i]);
                match (got, want) {
                    (None, None) => Ok(()),
                    (Some(e), Some(w)) => core_entry(e, w).and_then(|_| {
                        if table == 1 {
                            let op = spirv::Op::from_u32(n16 as u32).ok_or_else(|| Fail::new("op-enum", w.opname.clone(), "declared opcode missing from spirv::Op".to_string()))?;
                            let e2 = no_panic("CoreInstructionTable::get", || CoreInstructionTable::get(op))?;
                            if e2.opcode != e.opcode || e2.opname != e.opname {
                                return Err(Fail::new("get-vs-lookup", w.opname.clone(), format!("get({:?}) returns {}", op, e2.opname)));
                            }
                        }
                        Ok(())
                    }),
                    (g0, w) => Err(Fail::new(
                        "lookup-total",
                        w.map(|w| w.opname.clone()).unwrap_or_else(|| format!("#{}", n16)),
                        format!("lookup_opcode({}) = {:?}, golden {:?}", n16, g0.map(|e| e.opname), w.map(|w| &w.opname)),
                    )),
                }
            }
            2 => {
                log.push(format!("glsl {}", n));
                let a = no_panic("GlslStd450InstructionTable::lookup_opcode", || GlslStd450InstructionTable::lookup_opcode(n))?;
                ext_check("glsl", n, a, &g.glsl)
            }
            _ => {
                log.push(format!("opencl {}", n));
                let b = no_panic("OpenCLStd100InstructionTable::lookup_opcode", || OpenCLStd100InstructionTable::lookup_opcode(n))?;
                ext_check("opencl", n, b, &g.opencl)
            }
        };
        if let Err(mut f) = r {
            f.clause = format!("{}-in-sequence", f.clause);
            return Err(f.with_decoded(log.join("; ")));
        }
        prev = n;
    }
    st.nontrivial(hash_str(&log.join(";")));
    Ok(())
}

/// whole-table checks (index 0) and extended-instruction numbers 0..=2^17 (index 1..)
fn sub_tables(input: &[u8], st: &mut Stats) -> R {
    let i = idx(input);
    let g = golden();
    if i == 0 {
        // iteration = golden, uniqueness
        // (the order in which iter() yields the entries is not part of the property: compared by number)
        let mut entries: Vec<&'static Instruction<'static>> = CoreInstructionTable::iter().collect();
        if entries.len() != g.core.len() {
            return Err(Fail::new("table-size", "core", format!("{} entries, golden {}", entries.len(), g.core.len())));
        }
        let mut seen = std::collections::BTreeSet::new();
        for e in &entries {
            if !seen.insert(e.opcode as u32) {
                return Err(Fail::new("unique", format!("core:{}", e.opname), format!("two entries share number {}", e.opcode as u32)));
            }
        }
        entries.sort_by_key(|e| e.opcode as u32);
        let mut gcore: Vec<&crate::golden::GInst> = g.core.iter().collect();
        gcore.sort_by_key(|w| w.opcode);
        for (e, w) in entries.iter().zip(gcore) {
            core_entry(e, w)?;
            st.evaluations += 1;
        }
        // every Op value has an entry, get never panics
        let opg = g.enums.get("Op").unwrap();
        for v in &opg.values {
            let op = spirv::Op::from_u32(v.value).unwrap();
            let e = no_panic("CoreInstructionTable::get", || CoreInstructionTable::get(op))?;
            if e.opcode != op || e.opname != v.name {
                return Err(Fail::new("get-total", v.name.clone(), format!("get({}) returns entry {}", v.name, e.opname)));
            }
            st.evaluations += 1;
        }
        for (set, ename, table) in [("glsl", "GLOp", &g.glsl), ("opencl", "CLOp", &g.opencl)] {
            let mut names: Vec<(u32, String)> = if set == "glsl" {
                GlslStd450InstructionTable::iter().map(|e| (e.opcode, e.opname.to_string())).collect()
            } else {
                OpenCLStd100InstructionTable::iter().map(|e| (e.opcode, e.opname.to_string())).collect()
            };
            let mut seen = std::collections::BTreeSet::new();
            for (n, _) in &names {
                if !seen.insert(*n) {
                    return Err(Fail::new("unique", set, format!("{}: number {} twice", set, n)));
                }
            }
            let mut want: Vec<(u32, String)> = table.iter().map(|i| (i.opcode, i.opname.clone())).collect();
            names.sort();
            want.sort();
            if names != want {
                return Err(Fail::new("table-size", set, format!("{} table differs from golden (as a set of (number, name))", set)));
            }
            let eg = g.enums.get(ename).unwrap();
            for v in &eg.values {
                let got = if set == "glsl" {
                    let op = spirv::GLOp::from_u32(v.value).unwrap();
                    no_panic("GlslStd450InstructionTable::get", || GlslStd450InstructionTable::get(op)).map(|e| (e.opcode, e.opname))?
                } else {
                    let op = spirv::CLOp::from_u32(v.value).unwrap();
                    no_panic("OpenCLStd100InstructionTable::get", || OpenCLStd100InstructionTable::get(op)).map(|e| (e.opcode, e.opname))?
                };
                if got.0 != v.value || got.1 != v.name {
                    return Err(Fail::new("get-total", format!("{}:{}", set, v.name), format!("get({}) returns {:?}", v.name, got)));
                }
                st.evaluations += 1;
            }
            if eg.values.len() != table.len() {
                return Err(Fail::new("table-size", set, format!("{} enum has {} values, table {}", ename, eg.values.len(), table.len())));
            }
        }
        st.nontrivial(0xc09);
        return Ok(());
    }
    // extended-instruction numbers: chunk of 1024 numbers per index
    let base = (i - 1) as u32 * 1024;
    for n in base..base + 1024 {
        let a = no_panic("GlslStd450InstructionTable::lookup_opcode", || GlslStd450InstructionTable::lookup_opcode(n))?;
        ext_check("glsl", n, a, &g.glsl)?;
        let b = no_panic("OpenCLStd100InstructionTable::lookup_opcode", || OpenCLStd100InstructionTable::lookup_opcode(n))?;
        ext_check("opencl", n, b, &g.opencl)?;
        if a.is_some() || b.is_some() {
            st.nontrivial(0x1_0000_0000 | n as u64);
        }
        st.evaluations += 2;
    }
    st.evaluations -= 1;
    Ok(())
}

fn sub_random_ext(input: &[u8], st: &mut Stats) -> R {
    let mut cs = Cs::new(input);
    let g = golden();
    for _ in 0..32 {
        let n = cs.u32();
        let a = no_panic("GlslStd450InstructionTable::lookup_opcode", || GlslStd450InstructionTable::lookup_opcode(n))?;
        ext_check("glsl", n, a, &g.glsl)?;
        let b = no_panic("OpenCLStd100InstructionTable::lookup_opcode", || OpenCLStd100InstructionTable::lookup_opcode(n))?;
        ext_check("opencl", n, b, &g.opencl)?;
        st.evaluations += 2;
    }
    Ok(())
}

pub const SUBS: &[Sub] = &[
    Sub { name: "lookup-all-opcodes", f: sub_lookup },
    Sub { name: "tables", f: sub_tables },
    Sub { name: "random-ext-numbers", f: sub_random_ext },
    Sub { name: "lookup-sequences", f: sub_sequences },
];

pub fn run(ctx: &Ctx) {
    run_regress(ctx, SUBS);
    drive_enum(ctx, &SUBS[0], 65536);
    drive_enum(ctx, &SUBS[1], 1 + 128);
    drive_random(ctx, &SUBS[2], ctx.n(5_000, 500_000), 200);
    drive_random(ctx, &SUBS[3], ctx.n(5_000, 2_000_000), 300);
    ctx.exhaustive.store(true, std::sync::atomic::Ordering::Relaxed);
}

pub fn finish(ctx: &Ctx) -> i32 {
    crate::engine::finish(
        ctx,
        Finish {
            rule: "complete enumeration of all 65536 opcode numbers through lookup_opcode, of every table entry through iter(), of every spirv::Op / GLOp / CLOp value through get(), of extended-instruction numbers 0..2^17 for both sets, plus random 32-bit extended-instruction numbers, plus sequences of 60 lookups on one thread in arbitrary order over the three tables (a number near the previous one, the same number in another table, declared and arbitrary numbers). Oracle: lookup returns an entry iff the number is a golden opcode; entry opcode/name are that opcode's; no two entries share a number; well-formedness computed directly (result type first and immediately followed by result id, no required operand after an optional one, variadic only last); operands (kind, quantifier), capabilities and extensions equal the golden record. non-trivial = declared number or direct neighbour of a declared number; distinct = the number. Added in rounds 18-19: lookup-sequences: numbers sharing a half with the previous one or mixed with a hash constant, exclusive and concurrent runs.",
            assumptions: vec![
                "'the Khronos grammar of the pinned SDK release' is represented by the golden snapshot of the pinned tree, cross-checked against hand-typed specification anchors (opcode numbers, operand lists of ~110 classic instructions, GLSL.std.450 and OpenCL.std numbers); the JSON itself is not available offline".into(),
            ],
            trusted_base: vec!["golden/api.json".into(), "golden/spec_anchors.py".into()],
        },
    )
}
