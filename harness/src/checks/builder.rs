//! Builder machinery shared by C06 / C12 / C13 / C16: history interpreter with
//! the reference model R4 (module under construction, id discipline, type
//! dedup) driven through the generated call sites.

use crate::bcalls::*;
use crate::cs::Cs;
use crate::engine::*;
use crate::golden::golden;
use crate::model::show_inst;
use crate::refclass::{self, layout, Layout};
use crate::rs::*;
use rspirv::binary::Assemble;
use rspirv::dr::{self, Builder};
use rspirv::grammar::OperandKind as K;

pub struct Interp {
    pub b: Option<Builder>,
    pub model: dr::Module,
    /// the next fresh id lies in [lo, lo + slack]
    pub lo: u32,
    pub slack: u32,
    pub start: u32,
    pub env: Env,
    pub log: Vec<String>,
    pub version: Option<(u8, u8)>,
    pub ncalls: usize,
    /// planned calls of methods the scan of the sources cannot see (skipped)
    pub skipped_invisible: usize,
    pub errors_seen: Vec<String>,
    pub methods_called: Vec<&'static str>,
    pub selection_calls: usize,
    pub repeated_type_requests: usize,
    pub failed_reserving: usize,
    pub strict_ids: bool,
}

fn fail(clause: &str, disc: impl Into<String>, msg: impl Into<String>) -> Fail {
    Fail::new(clause, disc, msg)
}

/// is this method's opcode a block terminator per the specification?
pub fn closes_block(mm: &MethodMeta) -> bool {
    mm.gi.map(|g| refclass::is_block_terminator(&g.opname)).unwrap_or(false)
}

impl Interp {
    pub fn new() -> Interp {
        Interp {
            b: Some(Builder::new()),
            model: dr::Module::new(),
            lo: 1,
            slack: 0,
            start: 1,
            env: Env::default(),
            log: vec![],
            version: None,
            ncalls: 0,
            skipped_invisible: 0,
            errors_seen: vec![],
            methods_called: vec![],
            selection_calls: 0,
            repeated_type_requests: 0,
            failed_reserving: 0,
            strict_ids: true,
        }
    }

    /// Continue from an (empty) existing module with the given header bound.
    pub fn from_bound(bound: u32) -> Result<Interp, Fail> {
        let mut m = dr::Module::new();
        m.header = Some(dr::ModuleHeader::new(bound));
        let b = no_panic("Builder::new_from_module", || Builder::new_from_module(m))?;
        let mut i = Interp::new();
        i.b = Some(b);
        i.lo = bound;
        i.start = bound;
        i.log.push(format!("new_from_module(bound={})", bound));
        Ok(i)
    }

    /// Continue from a module produced by an earlier history (`prev` is the finished interpreter
    /// of that history): the model is the module itself, fresh ids start at its header bound.
    pub fn continue_from(prev: Interp, mut m: dr::Module, bound_override: Option<u32>) -> Result<Interp, Fail> {
        // an inaccurate header bound (as module_ref() snapshots have): fresh ids still start there
        if let (Some(b), Some(h)) = (bound_override, m.header.as_mut()) {
            h.bound = b;
        }
        let bound = m.header.as_ref().map(|h| h.bound).unwrap_or(0);
        let model = m.clone();
        let b = no_panic("Builder::new_from_module", || Builder::new_from_module(m))?;
        let mut i = Interp::new();
        i.b = Some(b);
        i.model = model;
        i.lo = bound;
        i.start = bound;
        i.env = prev.env;
        if bound_override.is_some() {
            // "exceeds every allocated id" speaks of the ids this builder allocates
            i.env.ids.clear();
        }
        i.log = prev.log;
        i.log.push(format!("module(); new_from_module(bound={})", bound));
        let (f, bl) = i.selection();
        if f.is_some() || bl.is_some() {
            return Err(i.wrap(fail("selection-after", "new_from_module", format!("a builder continued from a module starts with selection {:?}/{:?}", f, bl))));
        }
        i.compare_module("new_from_module")?;
        Ok(i)
    }

    pub fn render(&self) -> String {
        self.log.join("\n")
    }

    /// declares, through the modelled calls, the sub-lists of the vocabulary that `code` selects
    /// (capabilities, extension names, extended instruction sets; the import ids join the id pool)
    pub fn preload_vocabulary(&mut self, code: usize) -> R {
        // straight on the Builder (these calls are swept on their own elsewhere); the model is then
        // re-synchronised from the module under construction, so that the calls that follow are
        // compared against a module that already holds the vocabulary
        let ids = no_panic("Builder preload (capability / extension / ext_inst_import)", || preload_vocabulary(self.b.as_mut().unwrap(), code)).map_err(|f| self.wrap(f))?;
        self.model = self.b.as_ref().unwrap().module_ref().clone();
        if let Some(m) = ids.iter().max() {
            self.lo = self.lo.max(m + 1);
        }
        self.log.push(format!("preload of vocabulary code {} ({} imports: ids {:?})", code, ids.len(), ids));
        self.env.ids.extend(ids);
        Ok(())
    }

    fn wrap(&self, f: Fail) -> Fail {
        f.with_decoded(self.render())
    }

    pub fn selection(&self) -> (Option<usize>, Option<usize>) {
        let b = self.b.as_ref().unwrap();
        (b.selected_function(), b.selected_block())
    }

    /// invariant: the selection designates an existing function and block or nothing
    pub fn check_selection(&self, when: &str) -> R {
        let b = self.b.as_ref().unwrap();
        let (f, bl) = (b.selected_function(), b.selected_block());
        let m = b.module_ref();
        let ok = match (f, bl) {
            (None, None) => true,
            (None, Some(_)) => false,
            (Some(f), None) => f < m.functions.len(),
            (Some(f), Some(x)) => f < m.functions.len() && x < m.functions[f].blocks.len(),
        };
        if !ok {
            let nf = m.functions.len();
            let nb = f.and_then(|f| m.functions.get(f)).map(|f| f.blocks.len());
            return Err(self.wrap(fail(
                "selection-invariant",
                format!("{}:{}", when.split('(').next().unwrap_or(""), match (f, bl) {
                    (None, Some(_)) => "block-without-function",
                    (Some(_), None) => "function-out-of-range",
                    _ => "block-out-of-range",
                }),
                format!(
                    "after {}: selected_function={:?} selected_block={:?} but the module has {} functions / {:?} blocks",
                    when, f, bl, nf, nb
                ),
            )));
        }
        Ok(())
    }

    fn compare_module(&mut self, when: &str) -> R {
        let actual = self.b.as_ref().unwrap().module_ref();
        self.model.header = actual.header.clone();
        if let Some(d) = module_diff(actual, &self.model) {
            return Err(self.wrap(fail(
                "module-effect",
                when.split('(').next().unwrap_or("").to_string(),
                format!("after {}: module under construction differs from the model: {}", when, d),
            )));
        }
        Ok(())
    }

    fn note_fresh(&mut self, id: u32, what: &str) -> R {
        let hi = self.lo as u64 + self.slack as u64;
        if (id as u64) < self.lo as u64 || (id as u64) > hi {
            return Err(self.wrap(fail(
                "fresh-id",
                what.split('(').next().unwrap_or("").to_string(),
                format!(
                    "{} returned fresh id {} but the next fresh id must lie in [{}, {}] (ids strictly increasing from {})",
                    what, id, self.lo, hi, self.start
                ),
            )));
        }
        self.lo = id + 1;
        self.slack = 0;
        self.env.ids.push(id);
        Ok(())
    }

    pub fn alloc_id(&mut self) -> Result<u32, Fail> {
        let id = no_panic("Builder::id", || self.b.as_mut().unwrap().id()).map_err(|f| self.wrap(f))?;
        self.log.push(format!("id() -> {}", id));
        self.note_fresh(id, "id()")?;
        Ok(id)
    }

    fn block_len(&self) -> Option<usize> {
        let b = self.b.as_ref().unwrap();
        match (b.selected_function(), b.selected_block()) {
            (Some(f), Some(x)) => b
                .module_ref()
                .functions
                .get(f)
                .and_then(|f| f.blocks.get(x))
                .map(|bl| bl.instructions.len()),
            _ => None,
        }
    }

    /// Calls a generated call site with planned arguments and checks the effect.
    pub fn call(&mut self, cs: &mut Cs, mm: &'static MethodMeta) -> R {
        if is_absent(mm) {
            self.skipped_invisible += 1;
            return Ok(());
        }
        self.env.block_len = self.block_len();
        self.env.ip_end_only = self.env.conforming && closes_block(mm);
        let env = self.env.clone();
        let planned = {
            let b = self.b.as_mut().unwrap();
            let mut taken: Vec<u32> = vec![];
            let mut fresh = || {
                let v = b.id();
                taken.push(v);
                v
            };
            let p = plan_call(cs, mm, &env, &mut fresh);
            (p, taken)
        };
        let (planned, taken) = planned;
        for t in &taken {
            self.log.push(format!("id() -> {}", t));
            self.note_fresh(*t, "id()")?;
        }
        let Some(planned) = planned else { return Ok(()) };
        self.call_with(mm, planned.args, planned.explicit_id)
    }

    pub fn call_with(&mut self, mm: &'static MethodMeta, args: Vec<ArgVal>, explicit_id: Option<u32>) -> R {
        if is_absent(mm) {
            self.skipped_invisible += 1;
            return Ok(());
        }
        let what = render_args(mm, &args);
        let (pre_f, pre_b) = self.selection();
        let callf = mm.mi.call.expect("callable method");
        let mut a = Args::new(args.clone());
        let out = no_panic(&format!("Builder::{}", mm.mi.name), || callf(self.b.as_mut().unwrap(), &mut a)).map_err(|f| {
            let mut f = f;
            f.msg = format!("{} (call: {})", f.msg, what);
            self.wrap(f)
        })?;
        self.ncalls += 1;
        self.methods_called.push(mm.mi.name);
        self.log.push(format!(
            "{} [sel {:?}/{:?}] -> {}",
            what,
            pre_f,
            pre_b,
            match (&out.err, out.id) {
                (Some(e), _) => format!("Err({})", e),
                (None, Some(i)) => format!("{}", i),
                _ => "()".into(),
            }
        ));
        self.check_selection(&what)?;
        let (post_f, post_b) = self.selection();
        let has_rid = mm.kind == MKind::Type || mm.gi.map(|g| g.operands.iter().any(|(k, _)| *k == K::IdResult)).unwrap_or(false);
        // expected success
        let must_fail: Option<&str> = match mm.kind {
            MKind::BeginFunction => pre_f.map(|_| "a function is open"),
            MKind::BeginBlock => {
                if pre_f.is_none() {
                    Some("no function is open")
                } else if pre_b.is_some() {
                    Some("a block is open")
                } else {
                    None
                }
            }
            MKind::BlockInst | MKind::BlockInsert | MKind::Terminator | MKind::TerminatorInsert => {
                if pre_b.is_none() {
                    Some("no block is selected")
                } else {
                    None
                }
            }
            MKind::FunctionParameter | MKind::EndFunction => {
                if pre_f.is_none() {
                    Some("no function is open")
                } else {
                    None
                }
            }
            _ => None,
        };
        if let Some(why) = must_fail {
            if out.ok {
                return Err(self.wrap(fail(
                    "structure-enforced",
                    format!("{:?}:accepted", mm.kind),
                    format!("{} succeeded although {}", what, why),
                )));
            }
            self.errors_seen.push(out.err.clone().unwrap_or_default());
            if has_rid && explicit_id.is_none() {
                self.slack += 1;
                self.failed_reserving += 1;
            }
            // a failed call changes nothing
            if (post_f, post_b) != (pre_f, pre_b) {
                return Err(self.wrap(fail(
                    "failed-call-selection",
                    mm.mi.name.to_string(),
                    format!("{} failed but changed the selection {:?}/{:?} -> {:?}/{:?}", what, pre_f, pre_b, post_f, post_b),
                )));
            }
            return self.compare_module(&what).map_err(|mut f| {
                f.clause = "failed-call-changed-module".into();
                f
            });
        }
        if !out.ok {
            return Err(self.wrap(fail(
                "structure-enforced",
                format!("{:?}:rejected:{}", mm.kind, out.err.clone().unwrap_or_default()),
                format!("{} failed with {:?} although the structure allows it (selection {:?}/{:?})", what, out.err, pre_f, pre_b),
            )));
        }
        // result id
        let rid = if has_rid {
            match (explicit_id, out.id) {
                (Some(e), Some(r)) => {
                    if e != r {
                        return Err(self.wrap(fail("explicit-id", mm.mi.name.to_string(), format!("{} returned {} for explicit id {}", what, r, e))));
                    }
                    Some(e)
                }
                (None, Some(r)) => Some(r),
                (e, None) => e,
            }
        } else {
            None
        };
        let Some(mut exp) = expected_inst(mm, &args, rid) else {
            return Err(fail("harness", "expected_inst", format!("no expectation for {}", what)));
        };
        // types: dedup
        if mm.kind == MKind::Type {
            if explicit_id.is_none() {
                let existing: Vec<u32> = self
                    .model
                    .types_global_values
                    .iter()
                    .filter(|i| i.class.opcode == exp.class.opcode && i.operands == exp.operands)
                    .filter_map(|i| i.result_id)
                    .collect();
                let r = out.id.unwrap_or(0);
                if !existing.is_empty() {
                    self.repeated_type_requests += 1;
                    if !existing.contains(&r) {
                        return Err(self.wrap(fail(
                            "type-dedup",
                            format!("{}:not-reused", exp.class.opname),
                            format!("{} returned {} although identical declarations exist with ids {:?}", what, r, existing),
                        )));
                    }
                    self.track_types(&exp, r);
                    return self.compare_module(&what).map_err(|mut f| {
                        f.clause = "type-dedup-changed-module".into();
                        f
                    });
                }
                self.note_fresh(r, &what)?;
                exp.result_id = Some(r);
                self.model.types_global_values.push(exp.clone());
                self.track_types(&exp, r);
                return self.compare_module(&what);
            } else {
                self.model.types_global_values.push(exp.clone());
                self.track_types(&exp, explicit_id.unwrap());
                return self.compare_module(&what);
            }
        }
        // `type_opaque` is hand-written and takes no explicit id: the statement's dedup clause is
        // quantified over the generated type methods and type_pointer, so whether this method reuses
        // an identical earlier OpTypeOpaque (adding nothing) or declares a fresh one is left open
        if mm.mi.name == "type_opaque" {
            if let Some(r) = out.id {
                let reused = self
                    .model
                    .types_global_values
                    .iter()
                    .any(|i| i.class.opcode == exp.class.opcode && i.operands == exp.operands && i.result_id == Some(r));
                if reused {
                    return self.compare_module(&what).map_err(|mut f| {
                        f.clause = "type-dedup-changed-module".into();
                        f
                    });
                }
            }
        }
        // fresh id discipline for implicit results
        if has_rid && explicit_id.is_none() {
            if let Some(r) = out.id {
                self.note_fresh(r, &what)?;
            }
        }
        self.track_value(&exp);
        // effect on the module
        let ip = args.iter().find_map(|a| match a {
            ArgVal::InsertPoint(ip) => Some(*ip),
            _ => None,
        });
        match mm.kind {
            MKind::BeginFunction => {
                let mut f = dr::Function::new();
                f.def = Some(exp);
                self.model.functions.push(f);
                let want = Some(self.model.functions.len() - 1);
                if post_f != want || post_b.is_some() {
                    return Err(self.wrap(fail("selection-after", "begin_function", format!("after {} the selection is {:?}/{:?}, expected {:?}/None", what, post_f, post_b, want))));
                }
            }
            MKind::EndFunction => {
                self.model.functions[pre_f.unwrap()].end = Some(exp);
                if post_f.is_some() || post_b.is_some() {
                    return Err(self.wrap(fail("selection-after", "end_function", format!("after {} the selection is {:?}/{:?}: ending a function must close it", what, post_f, post_b))));
                }
            }
            MKind::BeginBlock => {
                let f = pre_f.unwrap();
                let mut b = dr::Block::new();
                b.label = Some(exp);
                self.model.functions[f].blocks.push(b);
                let want = Some(self.model.functions[f].blocks.len() - 1);
                if post_f != pre_f || post_b != want {
                    return Err(self.wrap(fail("selection-after", "begin_block", format!("after {} the selection is {:?}/{:?}, expected {:?}/{:?}", what, post_f, post_b, pre_f, want))));
                }
            }
            MKind::FunctionParameter => {
                self.model.functions[pre_f.unwrap()].parameters.push(exp);
            }
            MKind::BlockInst | MKind::BlockInsert | MKind::Terminator | MKind::TerminatorInsert => {
                let (f, bl) = (pre_f.unwrap(), pre_b.unwrap());
                let list = &mut self.model.functions[f].blocks[bl].instructions;
                let at = ip.map(|i| i.index(list.len())).unwrap_or(list.len());
                list.insert(at, exp.clone());
                let closes = closes_block(mm);
                let closed = post_b.is_none();
                if closes != closed || post_f != pre_f {
                    return Err(self.wrap(fail(
                        "terminator-closes-block",
                        format!("{}:{}", exp.class.opname, if closed { "closed" } else { "left-open" }),
                        format!(
                            "Op{} {} a block terminator, but after {} the selection is {:?}/{:?}",
                            exp.class.opname,
                            if closes { "is" } else { "is not" },
                            what,
                            post_f,
                            post_b
                        ),
                    )));
                }
            }
            MKind::BlockOrGlobal => match (pre_f, pre_b) {
                (Some(f), Some(bl)) => self.model.functions[f].blocks[bl].instructions.push(exp.clone()),
                _ => self.model.types_global_values.push(exp.clone()),
            },
            MKind::ModuleLevel => {
                let m = &mut self.model;
                match layout(exp.class.opname) {
                    Layout::Capability => m.capabilities.push(exp.clone()),
                    Layout::Extension => m.extensions.push(exp.clone()),
                    Layout::ExtInstImport => m.ext_inst_imports.push(exp.clone()),
                    Layout::MemoryModel => m.memory_model = Some(exp.clone()),
                    Layout::EntryPoint => m.entry_points.push(exp.clone()),
                    Layout::ExecutionMode => m.execution_modes.push(exp.clone()),
                    Layout::DebugStringSource => m.debug_string_source.push(exp.clone()),
                    Layout::DebugName => m.debug_names.push(exp.clone()),
                    Layout::ModuleProcessed => m.debug_module_processed.push(exp.clone()),
                    Layout::Annotation => m.annotations.push(exp.clone()),
                    Layout::TypeConst => m.types_global_values.push(exp.clone()),
                    other => {
                        return Err(fail("harness", "module-level-layout", format!("{} has layout {:?}", exp.class.opname, other)));
                    }
                }
                if let Some(r) = exp.result_id {
                    self.track_types(&exp, r);
                }
            }
            MKind::Type | MKind::Other => {}
        }
        if !matches!(mm.kind, MKind::BeginFunction | MKind::EndFunction | MKind::BeginBlock | MKind::BlockInst | MKind::BlockInsert | MKind::Terminator | MKind::TerminatorInsert)
            && (post_f, post_b) != (pre_f, pre_b)
        {
            return Err(self.wrap(fail("selection-after", mm.mi.name.to_string(), format!("{} changed the selection {:?}/{:?} -> {:?}/{:?}", what, pre_f, pre_b, post_f, post_b))));
        }
        self.compare_module(&what)
    }

    /// R3 on the builder side: a result whose result type is a tracked type (or typed value)
    /// is a typed value (literal width of OpSwitch cases on it)
    fn track_value(&mut self, inst: &dr::Instruction) {
        if let (Some(rt), Some(rid)) = (inst.result_type, inst.result_id) {
            if crate::refclass::is_type(inst.class.opname) == crate::refclass::Tri::Yes {
                return;
            }
            // only through declared int/float types: they precede every use in the assembled
            // order, whereas a value used as "result type" may be assembled after its user
            let w = self.env.lit_types.iter().find(|t| t.0 == rt).map(|t| t.1);
            if let Some(w) = w {
                if !self.env.typed_values.iter().any(|t| t.0 == rid) {
                    self.env.typed_values.push((rid, w));
                }
            }
        }
    }

    /// remember int/float type declarations and wide constants for later typed literals
    fn track_types(&mut self, inst: &dr::Instruction, id: u32) {
        match inst.class.opname {
            "TypeInt" | "TypeFloat" => {
                if let Some(dr::Operand::LiteralBit32(w)) = inst.operands.first() {
                    let words = match (inst.class.opname, *w) {
                        ("TypeInt", 8 | 16 | 32) | ("TypeFloat", 16 | 32) => 1,
                        (_, 64) => 2,
                        _ => 0,
                    };
                    if words > 0 && !self.env.lit_types.iter().any(|t| t.0 == id) {
                        self.env.lit_types.push((id, words));
                    }
                }
            }
            "Constant" | "SpecConstant" => {
                if let Some(t) = inst.result_type {
                    if self.env.lit_types.iter().any(|x| x.0 == t && x.1 == 2) {
                        self.env.wide_values.push(id);
                    }
                }
            }
            _ => {}
        }
    }

    pub fn select_function(&mut self, idx: Option<usize>) -> R {
        let what = format!("select_function({:?})", idx);
        let (pre_f, pre_b) = self.selection();
        let nf = self.b.as_ref().unwrap().module_ref().functions.len();
        let r = no_panic("Builder::select_function", || self.b.as_mut().unwrap().select_function(idx)).map_err(|f| self.wrap(f))?;
        self.selection_calls += 1;
        self.log.push(format!("{} [sel {:?}/{:?}] -> {:?}", what, pre_f, pre_b, r.as_ref().map_err(err_name)));
        self.check_selection(&what)?;
        let (post_f, post_b) = self.selection();
        match idx {
            Some(i) if i >= nf => {
                if r.is_ok() {
                    return Err(self.wrap(fail("select-out-of-range", "select_function:accepted", format!("{} succeeded with {} functions", what, nf))));
                }
                self.errors_seen.push(err_name(r.as_ref().err().unwrap()));
                if (post_f, post_b) != (pre_f, pre_b) {
                    return Err(self.wrap(fail("failed-call-selection", "select_function", format!("{} failed but changed the selection", what))));
                }
            }
            Some(i) => {
                if r.is_err() || post_f != Some(i) {
                    return Err(self.wrap(fail("select-in-range", "select_function", format!("{} -> {:?}, selection {:?}/{:?}", what, r.as_ref().map_err(err_name), post_f, post_b))));
                }
            }
            None => {
                if r.is_err() || post_f.is_some() || post_b.is_some() {
                    return Err(self.wrap(fail("select-none", "select_function", format!("{} left selection {:?}/{:?}", what, post_f, post_b))));
                }
            }
        }
        self.compare_module(&what)
    }

    /// select_function_by_name: the first OpName whose string is `name` and whose target is the
    /// result id of some function's OpFunction selects that function like select_function(Some(i))
    pub fn select_function_by_name(&mut self, name: &str) -> R {
        let what = format!("select_function_by_name({:?})", name);
        let (pre_f, pre_b) = self.selection();
        let mut want: Option<usize> = None;
        'outer: for d in &self.model.debug_names {
            if d.class.opname != "Name" {
                continue;
            }
            if let (Some(dr::Operand::IdRef(t)), Some(dr::Operand::LiteralString(s))) = (d.operands.first(), d.operands.get(1)) {
                if s == name {
                    for (i, f) in self.model.functions.iter().enumerate() {
                        if f.def.as_ref().and_then(|d| d.result_id) == Some(*t) {
                            want = Some(i);
                            break 'outer;
                        }
                    }
                }
            }
        }
        let r = no_panic("Builder::select_function_by_name", || self.b.as_mut().unwrap().select_function_by_name(name)).map_err(|f| self.wrap(f))?;
        self.selection_calls += 1;
        self.log.push(format!("{} [sel {:?}/{:?}] -> {:?}", what, pre_f, pre_b, r.as_ref().map_err(err_name)));
        self.check_selection(&what)?;
        let (post_f, post_b) = self.selection();
        match want {
            Some(i) => {
                if r.is_err() || post_f != Some(i) {
                    return Err(self.wrap(fail("select-by-name", "select_function_by_name", format!("{} -> {:?}, selection {:?}/{:?}, the named function is #{}", what, r.as_ref().map_err(err_name), post_f, post_b, i))));
                }
            }
            None => {
                if r.is_ok() {
                    return Err(self.wrap(fail("select-by-name", "select_function_by_name:accepted", format!("{} succeeded although no function carries that name", what))));
                }
                self.errors_seen.push(err_name(r.as_ref().err().unwrap()));
                if (post_f, post_b) != (pre_f, pre_b) {
                    return Err(self.wrap(fail("failed-call-selection", "select_function_by_name", format!("{} failed but changed the selection", what))));
                }
            }
        }
        self.compare_module(&what)
    }

    pub fn select_block(&mut self, idx: Option<usize>) -> R {
        let what = format!("select_block({:?})", idx);
        let (pre_f, pre_b) = self.selection();
        let nb = pre_f.map(|f| self.b.as_ref().unwrap().module_ref().functions[f].blocks.len());
        let r = no_panic("Builder::select_block", || self.b.as_mut().unwrap().select_block(idx)).map_err(|f| self.wrap(f))?;
        self.selection_calls += 1;
        self.log.push(format!("{} [sel {:?}/{:?}] -> {:?}", what, pre_f, pre_b, r.as_ref().map_err(err_name)));
        self.check_selection(&what)?;
        let (post_f, post_b) = self.selection();
        match idx {
            Some(j) => {
                let in_range = nb.map(|n| j < n).unwrap_or(false);
                if in_range {
                    if r.is_err() || post_b != Some(j) || post_f != pre_f {
                        return Err(self.wrap(fail("select-in-range", "select_block", format!("{} -> {:?}, selection {:?}/{:?}", what, r.as_ref().map_err(err_name), post_f, post_b))));
                    }
                } else {
                    if r.is_ok() {
                        return Err(self.wrap(fail("select-out-of-range", "select_block:accepted", format!("{} succeeded with {:?} blocks", what, nb))));
                    }
                    self.errors_seen.push(err_name(r.as_ref().err().unwrap()));
                    if (post_f, post_b) != (pre_f, pre_b) {
                        return Err(self.wrap(fail("failed-call-selection", "select_block", format!("{} failed but changed the selection", what))));
                    }
                }
            }
            None => {
                if r.is_err() || post_b.is_some() || post_f != pre_f {
                    return Err(self.wrap(fail("select-none", "select_block", format!("{} left selection {:?}/{:?}", what, post_f, post_b))));
                }
            }
        }
        self.compare_module(&what)
    }

    pub fn pop_instruction(&mut self) -> R {
        let what = "pop_instruction()".to_string();
        let (pre_f, pre_b) = self.selection();
        let r = no_panic("Builder::pop_instruction", || self.b.as_mut().unwrap().pop_instruction()).map_err(|f| self.wrap(f))?;
        self.log.push(format!("{} [sel {:?}/{:?}] -> {:?}", what, pre_f, pre_b, r.as_ref().map(show_inst).map_err(err_name)));
        self.check_selection(&what)?;
        let post = self.selection();
        if post != (pre_f, pre_b) {
            return Err(self.wrap(fail("selection-after", "pop_instruction", "pop_instruction changed the selection".to_string())));
        }
        match (pre_f, pre_b) {
            (Some(f), Some(bl)) => {
                let last = self.model.functions[f].blocks[bl].instructions.pop();
                match (last, r) {
                    (Some(l), Ok(got)) => {
                        if l != got {
                            return Err(self.wrap(fail("pop-value", "pop_instruction", format!("popped {} but the last instruction is {}", show_inst(&got), show_inst(&l)))));
                        }
                    }
                    (None, Err(e)) => self.errors_seen.push(err_name(&e)),
                    (Some(l), Err(e)) => {
                        self.model.functions[f].blocks[bl].instructions.push(l);
                        return Err(self.wrap(fail("structure-enforced", "pop_instruction:rejected", format!("pop_instruction failed with {} on a non-empty block", err_name(&e)))));
                    }
                    (None, Ok(got)) => {
                        return Err(self.wrap(fail("structure-enforced", "pop_instruction:accepted", format!("pop_instruction returned {} from an empty block", show_inst(&got)))));
                    }
                }
            }
            _ => {
                if let Ok(got) = r {
                    return Err(self.wrap(fail("structure-enforced", "pop_instruction:accepted", format!("pop_instruction returned {} with no block selected", show_inst(&got)))));
                }
                self.errors_seen.push("DetachedInstruction".into());
            }
        }
        self.compare_module(&what)
    }

    pub fn set_version(&mut self, major: u8, minor: u8) -> R {
        no_panic("Builder::set_version", || self.b.as_mut().unwrap().set_version(major, minor)).map_err(|f| self.wrap(f))?;
        self.version = Some((major, minor));
        self.log.push(format!("set_version({}, {})", major, minor));
        self.compare_module("set_version")
    }

    /// Ends the history: probes the next id, takes the module, checks the bound.
    pub fn finish(mut self) -> Result<(dr::Module, Interp), Fail> {
        let probe = self.alloc_id()?;
        let b = self.b.take().unwrap();
        let m = no_panic("Builder::module", || b.module()).map_err(|f| self.wrap(f))?;
        let Some(h) = &m.header else {
            return Err(self.wrap(fail("bound", "no-header", "module() returned a module without header".to_string())));
        };
        if h.bound != probe.wrapping_add(1) {
            return Err(self.wrap(fail(
                "bound",
                "not-next-id",
                format!("header bound {} but the next id that would have been allocated is {}", h.bound, probe.wrapping_add(1)),
            )));
        }
        for id in &self.env.ids {
            if *id >= h.bound {
                return Err(self.wrap(fail("bound", "not-above-ids", format!("bound {} does not exceed allocated id {}", h.bound, id))));
            }
        }
        // "the version set on the builder": when none was set the statement fixes no value
        // (the round trip still compares the loaded header with the built one)
        if let Some(want_v) = self.version {
            if h.version() != want_v {
                return Err(self.wrap(fail("version", "header", format!("header version {:?}, expected {:?}", h.version(), want_v))));
            }
        }
        Ok((m, self))
    }
}

impl Default for Interp {
    fn default() -> Self {
        Self::new()
    }
}

// ---------------------------------------------------------------------------
// method pools

pub struct Pools {
    pub block: Vec<&'static MethodMeta>,
    pub block_append: Vec<&'static MethodMeta>,
    pub term: Vec<&'static MethodMeta>,
    pub term_append: Vec<&'static MethodMeta>,
    pub module_level: Vec<&'static MethodMeta>,
    pub types: Vec<&'static MethodMeta>,
    pub block_or_global: Vec<&'static MethodMeta>,
    pub emitting: Vec<&'static MethodMeta>,
}

pub fn pools() -> &'static Pools {
    static P: std::sync::OnceLock<Pools> = std::sync::OnceLock::new();
    P.get_or_init(|| {
        let ms = methods();
        let sel = |f: &dyn Fn(&MethodMeta) -> bool| -> Vec<&'static MethodMeta> { ms.iter().filter(|m| f(m)).collect() };
        let is_block = |m: &MethodMeta| matches!(m.kind, MKind::BlockInst | MKind::BlockInsert | MKind::Terminator | MKind::TerminatorInsert);
        Pools {
            block: sel(&|m| is_block(m) && !closes_block(m)),
            block_append: sel(&|m| matches!(m.kind, MKind::BlockInst | MKind::Terminator) && !closes_block(m)),
            term: sel(&|m| is_block(m) && closes_block(m)),
            term_append: sel(&|m| matches!(m.kind, MKind::BlockInst | MKind::Terminator) && closes_block(m)),
            module_level: sel(&|m| m.kind == MKind::ModuleLevel),
            types: sel(&|m| m.kind == MKind::Type),
            block_or_global: sel(&|m| m.kind == MKind::BlockOrGlobal),
            emitting: sel(&|m| m.kind != MKind::Other),
        }
    })
}

fn pick<'a>(cs: &mut Cs, v: &'a [&'static MethodMeta]) -> &'static MethodMeta {
    v[cs.below(v.len())]
}

// ---------------------------------------------------------------------------
// C12: arbitrary histories

/// one call of the C12 mix
fn c12_step(cs: &mut Cs, it: &mut Interp, p: &Pools) -> R {
    match cs.below(32) {
        0..=3 => it.call(cs, method("begin_function"))?,
        4..=6 => it.call(cs, method("end_function"))?,
        7..=10 => it.call(cs, method("begin_block"))?,
        11..=13 => { let mm = pick(cs, &p.term); it.call(cs, mm)? },
        14..=19 => { let mm = pick(cs, &p.block); it.call(cs, mm)? },
        20 => it.call(cs, method("function_parameter"))?,
        21 | 22 => { let mm = pick(cs, &p.module_level); it.call(cs, mm)? },
        23 => { let mm = pick(cs, &p.types); it.call(cs, mm)? },
        24 => { let mm = pick(cs, &p.block_or_global); it.call(cs, mm)? },
        25 | 26 => {
            let nf = it.b.as_ref().unwrap().module_ref().functions.len();
            let idx = if cs.below(4) == 0 { None } else { Some(cs.below(nf + 2)) };
            it.select_function(idx)?
        }
        27 | 28 => {
            let nb = it
                .selection()
                .0
                .map(|f| it.b.as_ref().unwrap().module_ref().functions[f].blocks.len())
                .unwrap_or(0);
            let idx = if cs.below(4) == 0 { None } else { Some(cs.below(nb + 2)) };
            it.select_block(idx)?
        }
        29 | 30 => it.pop_instruction()?,
        _ => {
            it.alloc_id()?;
        }
    }
    Ok(())
}

/// naming functions and selecting them by name (kept out of `c12_step` so that stored streams
/// keep their meaning)
fn c12_name_step(cs: &mut Cs, it: &mut Interp) -> R {
    const NAMES: [&str; 4] = ["f0", "f1", "main", ""];
    if cs.bool() {
        // OpName for a function (or, rarely, some other id)
        let fids: Vec<u32> = it.model.functions.iter().filter_map(|f| f.def.as_ref().and_then(|d| d.result_id)).collect();
        let target = if !fids.is_empty() && cs.below(5) != 0 { fids[cs.below(fids.len())] } else { 1 + cs.below(6) as u32 };
        let name = NAMES[cs.below(NAMES.len())];
        it.call_with(method("name"), vec![ArgVal::Word(target), ArgVal::Str(name.to_string())], None)
    } else {
        it.select_function_by_name(NAMES[cs.below(NAMES.len())])
    }
}

fn sub_c12_histories(input: &[u8], st: &mut Stats) -> R {
    let mut cs = Cs::new(input);
    let p = pools();
    let mut it = Interp::new();
    let n = cs.below(61);
    for _ in 0..n {
        c12_step(&mut cs, &mut it, p)?;
    }
    let nfun = it.b.as_ref().unwrap().module_ref().functions.len();
    for e in &it.errors_seen {
        st.count(&format!("error_{}", e));
    }
    if it.selection_calls > 0 {
        st.count("histories_with_selection_call");
    }
    if (it.selection_calls > 0 || !it.errors_seen.is_empty()) && nfun >= 2 {
        st.nontrivial(hash_str(&it.render()));
    }
    st.add("builder_calls", it.ncalls as u64);
    st.sample(|| it.render());
    Ok(())
}

/// `vocabulary-histories`: the C12 mix on a Builder whose module already declares a coded half of
/// every capability, extension name and extended instruction set (the import ids are in the id pool,
/// so calls refer to them): what a call may do is decided by the selection, never by what the module
/// declares or what an argument names
fn sub_c12_vocabulary(input: &[u8], st: &mut Stats) -> R {
    let mut cs = Cs::new(input);
    let p = pools();
    let mut it = Interp::new();
    let code = cs.below(vocabulary_codes());
    it.preload_vocabulary(code)?;
    it.env.small = true;
    let n = cs.below(41);
    for _ in 0..n {
        // the methods that take an extended instruction set are called far more often than in the
        // general mix
        if cs.below(4) == 0 {
            let mm = method(["ext_inst", "ext_inst", "insert_ext_inst", "ext_inst_with_forward_refs_khr", "ext_inst_import"][cs.below(5)]);
            it.call(&mut cs, mm)?;
        } else {
            c12_step(&mut cs, &mut it, p)?;
        }
    }
    for e in &it.errors_seen {
        st.count(&format!("error_{}", e));
    }
    st.count("vocabulary_histories");
    if !it.errors_seen.is_empty() {
        st.nontrivial(hash_str(&it.render()));
    }
    st.add("builder_calls", it.ncalls as u64);
    Ok(())
}

/// histories of the C12 mix in which functions are also named (OpName) and selected by name
fn sub_c12_named(input: &[u8], st: &mut Stats) -> R {
    let mut cs = Cs::new(input);
    let p = pools();
    let mut it = Interp::new();
    let n = cs.below(61);
    for _ in 0..n {
        if cs.below(4) == 0 {
            c12_name_step(&mut cs, &mut it)?;
        } else {
            c12_step(&mut cs, &mut it, p)?;
        }
    }
    for e in &it.errors_seen {
        st.count(&format!("error_{}", e));
    }
    if it.methods_called.contains(&"name") && it.selection_calls > 0 {
        st.nontrivial(hash_str(&it.render()));
    }
    st.add("builder_calls", it.ncalls as u64);
    Ok(())
}

/// medium-sized histories (260-1160 calls) dominated by one kind of call, so that a single
/// function collects hundreds of parameters / blocks, a block hundreds of instructions, a
/// module hundreds of functions, types or module-level instructions
fn sub_c12_long(input: &[u8], st: &mut Stats) -> R {
    let mut cs = Cs::new(input);
    let p = pools();
    let mut it = Interp::new();
    let dom = cs.below(8);
    if dom == 7 {
        // a few calls with very long operand lists (around the 16-bit word-count boundary)
        it.call(&mut cs, method("begin_function"))?;
        it.call(&mut cs, method("begin_block"))?;
        let with_list: Vec<&'static MethodMeta> = p
            .block
            .iter()
            .chain(p.term.iter())
            .copied()
            .filter(|m| m.mi.params.iter().any(|(_, t)| t.starts_with("implIntoIterator") || t.starts_with("implAsRef")))
            .collect();
        let k = 1 + cs.below(3);
        for _ in 0..k {
            if it.selection().1.is_none() {
                it.call(&mut cs, method("begin_block"))?;
            }
            let mm = pick(&mut cs, &with_list);
            it.env.list_len = Some([65_530usize, 65_531, 65_532, 65_533, 65_534, 65_535, 65_536, 70_000, 20_000][cs.below(9)]);
            let r = it.call(&mut cs, mm);
            it.env.list_len = None;
            r?;
            c12_step(&mut cs, &mut it, p)?;
        }
        st.count("long_run_dominant_huge_operand_lists");
        st.add("builder_calls", it.ncalls as u64);
        st.nontrivial(hash_str(&format!("{:?}", it.methods_called)));
        return Ok(());
    }
    let n = 260 + cs.below(900);
    it.call(&mut cs, method("begin_function"))?;
    if dom == 1 {
        it.call(&mut cs, method("begin_block"))?;
    }
    for _ in 0..n {
        if cs.below(12) == 0 {
            c12_step(&mut cs, &mut it, p)?;
            continue;
        }
        match dom {
            0 => it.call(&mut cs, method("function_parameter"))?,
            1 => {
                let mm = pick(&mut cs, &p.block);
                it.call(&mut cs, mm)?
            }
            2 => {
                if it.selection().1.is_none() {
                    it.call(&mut cs, method("begin_block"))?
                } else {
                    let mm = pick(&mut cs, &p.term);
                    it.call(&mut cs, mm)?
                }
            }
            3 => {
                if it.selection().0.is_none() {
                    it.call(&mut cs, method("begin_function"))?
                } else {
                    it.call(&mut cs, method("end_function"))?
                }
            }
            4 => {
                let mm = pick(&mut cs, &p.module_level);
                it.call(&mut cs, mm)?
            }
            5 => {
                let mm = pick(&mut cs, &p.types);
                it.call(&mut cs, mm)?
            }
            _ => {
                it.alloc_id()?;
            }
        }
    }
    for e in &it.errors_seen {
        st.count(&format!("error_{}", e));
    }
    st.count(&format!("long_run_dominant_{}", ["function_parameter", "block_instruction", "blocks", "functions", "module_level", "types", "id"][dom]));
    st.add("builder_calls", it.ncalls as u64);
    st.nontrivial(hash_str(&it.render()));
    Ok(())
}

/// Hand-minimised histories (plain regression checks)
fn sub_c12_fixed(input: &[u8], st: &mut Stats) -> R {
    let k = idx(input);
    let empty = [0u8; 64];
    let mut cs = Cs::new(&empty);
    let mut it = Interp::new();
    match k {
        0 => {
            // D10: end_function with an open block, then a new function and an instruction
            it.call(&mut cs, method("begin_function"))?;
            it.call(&mut cs, method("begin_block"))?;
            it.call(&mut cs, method("end_function"))?;
            it.call(&mut cs, method("begin_function"))?;
            it.call(&mut cs, method("nop"))?;
        }
        1 => {
            // D10: select_function(Some) with a stale block index
            it.call(&mut cs, method("begin_function"))?;
            it.call(&mut cs, method("begin_block"))?;
            it.call(&mut cs, method("ret"))?;
            it.call(&mut cs, method("begin_block"))?;
            it.call(&mut cs, method("end_function"))?;
            it.call(&mut cs, method("begin_function"))?;
            it.call(&mut cs, method("end_function"))?;
            it.select_function(Some(1))?;
            it.call(&mut cs, method("nop"))?;
        }
        2 => {
            it.call(&mut cs, method("begin_function"))?;
            it.call(&mut cs, method("begin_block"))?;
            it.call(&mut cs, method("ret"))?;
            it.call(&mut cs, method("end_function"))?;
            it.select_function(Some(0))?;
            it.select_block(Some(0))?;
            it.pop_instruction()?;
            it.pop_instruction()?;
            it.select_block(Some(1))?;
            it.select_function(Some(7))?;
        }
        _ => return Ok(()),
    }
    st.nontrivial(hash_str(&it.render()));
    Ok(())
}

/// `huge-runs`: one kind of structural call repeated 65 530 - 135 000 times on a single Builder - a
/// function collecting that many parameters or blocks, a block that many instructions, a module that
/// many functions, that many rejected calls in a row - checked against the structural rule after
/// every call and against the expected module at the end. The rules of C12 carry no counts.
fn sub_c12_huge(input: &[u8], st: &mut Stats) -> R {
    let mut cs = Cs::new(input);
    let n = cs.big_count();
    let pat = cs.below(6);
    let what = ["function_parameter", "begin_block+ret", "begin_function+end_function", "nop in one block", "rejected ret / begin_block / function_parameter / end_function", "begin_block+ret in a second function"][pat];
    let f = |clause: &str, k: usize, msg: String| Fail::new(clause, format!("huge:{}", what), format!("{} (pattern `{}` repeated, call #{} of {})", msg, what, k, n));
    let mut b = Builder::new();
    let void = b.type_void();
    let fty = b.type_function(void, vec![void]);
    let e = |k: usize, r: Result<u32, rspirv::dr::Error>, name: &str| r.map_err(|e| f("structure-enforced", k, format!("{} failed with {:?} although the structure allows it", name, e)));
    let e0 = |k: usize, r: Result<(), rspirv::dr::Error>, name: &str| r.map_err(|e| f("structure-enforced", k, format!("{} failed with {:?} although the structure allows it", name, e)));
    if pat == 5 {
        e(0, no_panic("begin_function", || b.begin_function(void, None, spirv::FunctionControl::NONE, fty))?, "begin_function")?;
        e0(0, no_panic("end_function", || b.end_function())?, "end_function")?;
    }
    if pat != 2 && pat != 4 {
        e(0, no_panic("begin_function", || b.begin_function(void, None, spirv::FunctionControl::NONE, fty))?, "begin_function")?;
    }
    if pat == 3 {
        e(0, no_panic("begin_block", || b.begin_block(None))?, "begin_block")?;
    }
    for k in 1..=n {
        match pat {
            0 => {
                e(k, no_panic("function_parameter", || b.function_parameter(void))?, "function_parameter with a function open")?;
            }
            1 | 5 => {
                e(k, no_panic("begin_block", || b.begin_block(None))?, "begin_block in an open function without a selected block")?;
                e0(k, no_panic("ret", || b.ret())?, "ret in a selected block")?;
                if b.selected_block().is_some() {
                    return Err(f("terminator-ends-block", k, "ret left the block selected".into()));
                }
            }
            2 => {
                e(k, no_panic("begin_function", || b.begin_function(void, None, spirv::FunctionControl::NONE, fty))?, "begin_function with no function open")?;
                e0(k, no_panic("end_function", || b.end_function())?, "end_function with a function open")?;
            }
            3 => {
                e0(k, no_panic("nop", || b.nop())?, "nop in a selected block")?;
            }
            _ => {
                let r: Result<(), rspirv::dr::Error> = match k % 4 {
                    0 => no_panic("ret", || b.ret())?,
                    1 => no_panic("begin_block", || b.begin_block(None))?.map(|_| ()),
                    2 => no_panic("function_parameter", || b.function_parameter(void))?.map(|_| ()),
                    _ => no_panic("end_function", || b.end_function())?,
                };
                if r.is_ok() {
                    return Err(f("structure-enforced", k, format!("{} succeeded although no function is open", ["ret", "begin_block", "function_parameter", "end_function"][k % 4])));
                }
            }
        }
    }
    // close what is open; then the rules once more
    match pat {
        0 => {
            e(n, no_panic("begin_block", || b.begin_block(None))?, "begin_block")?;
            e0(n, no_panic("ret", || b.ret())?, "ret")?;
            e0(n, no_panic("end_function", || b.end_function())?, "end_function")?;
        }
        1 | 5 => e0(n, no_panic("end_function", || b.end_function())?, "end_function")?,
        3 => {
            e0(n, no_panic("ret", || b.ret())?, "ret")?;
            e0(n, no_panic("end_function", || b.end_function())?, "end_function")?;
        }
        _ => {}
    }
    if no_panic("function_parameter", || b.function_parameter(void))?.is_ok() {
        return Err(f("structure-enforced", n, "function_parameter succeeded although no function is open".into()));
    }
    if no_panic("end_function", || b.end_function())?.is_ok() {
        return Err(f("structure-enforced", n, "end_function succeeded although no function is open".into()));
    }
    let m = no_panic("Builder::module", || b.module())?;
    let (nf, np, nb, ni): (usize, usize, usize, usize) = (
        m.functions.len(),
        m.functions.iter().map(|x| x.parameters.len()).sum(),
        m.functions.iter().map(|x| x.blocks.len()).sum(),
        m.functions.iter().flat_map(|x| x.blocks.iter()).map(|x| x.instructions.len()).sum(),
    );
    let want = match pat {
        0 => (1, n, 1, 1),
        1 => (1, 0, n, n),
        2 => (n, 0, 0, 0),
        3 => (1, 0, 1, n + 1),
        4 => (0, 0, 0, 0),
        _ => (2, 0, n, n),
    };
    if (nf, np, nb, ni) != want {
        return Err(f("module-shape", n, format!("the module holds (functions, parameters, blocks, block instructions) = {:?}, the accepted calls amount to {:?}", (nf, np, nb, ni), want)));
    }
    st.count(&format!("huge_runs_pattern_{}", pat));
    st.add("builder_calls", n as u64);
    st.nontrivial(hash_str(&format!("{}#{}", pat, n)));
    Ok(())
}

pub const C12_SUBS: &[Sub] = &[
    Sub { name: "fixed-histories", f: sub_c12_fixed },
    Sub { name: "histories", f: sub_c12_histories },
    Sub { name: "long-runs", f: sub_c12_long },
    Sub { name: "named-histories", f: sub_c12_named },
    Sub { name: "huge-runs", f: sub_c12_huge },
    Sub { name: "vocabulary-histories", f: sub_c12_vocabulary },
];

pub fn c12_run(ctx: &Ctx) {
    run_regress(ctx, C12_SUBS);
    drive_enum(ctx, &C12_SUBS[0], 3);
    drive_random(ctx, &C12_SUBS[1], ctx.n(30_000, 15_000_000), 1500);
    drive_random(ctx, &C12_SUBS[2], ctx.n(250, 100_000), 24_000);
    drive_random(ctx, &C12_SUBS[3], ctx.n(15_000, 7_000_000), 1500);
    drive_random_costly(ctx, &C12_SUBS[4], ctx.n(24, 6_000), 64);
    drive_random(ctx, &C12_SUBS[5], ctx.n(10_000, 3_000_000), 1200);
    if !ctx.quick() && !ctx.failed() {
        crate::fuzzing::drive_fuzz(ctx, "builder", 200_000);
    }
}

pub fn c12_finish(ctx: &Ctx) -> i32 {
    crate::engine::finish(
        ctx,
        Finish {
            rule: "cases: call histories of 0-60 calls (and, in `long-runs`, 260-1160 calls dominated by one kind of call: parameters of one function, instructions of one block, blocks, functions, module-level instructions, types, ids) over begin/end function, begin block, every terminator method, every block-instruction method (append and insert_* with offsets within the selected block), function_parameter, module-level and type methods, variable/undef/line/no_line, select_function/select_block with in- and out-of-range indices, OpName + select_function_by_name (`named-histories`), pop_instruction, id(); arguments planned from the grammar. Oracle (model R4): catch_unwind around every call; selection observed before/after every call and checked against the validity invariant; success/failure of each call decided by the observed pre-state as the statement says; after every call a full structural comparison of module_ref() with the model (Err => unchanged, Ok => exactly the modelled insertion/removal). non-trivial = history with a selection call or an error return and >= 2 functions; distinct = hash of the rendered history. Added in rounds 18-19: huge-runs (one structural call repeated up to 10^6 times) and vocabulary-histories (Builder preloaded with a coded half of every capability / extension / set import).",
            assumptions: vec!["InsertPoint offsets beyond the selected block's length are outside the stated precondition and never generated".into()],
            trusted_base: vec!["builder model R4".into(), "generated call sites (build.rs, syn)".into(), "golden grammar".into()],
        },
    )
}

// ---------------------------------------------------------------------------
// C13: id discipline and type dedup

fn sub_c13_histories(input: &[u8], st: &mut Stats) -> R {
    let mut cs = Cs::new(input);
    let p = pools();
    let mut it = match cs.below(4) {
        0 => {
            let bound = match cs.below(5) {
                0 => 0,
                1 => 1,
                2 => u32::MAX - 1000 - cs.below(1000) as u32,
                3 => 0x8000_0000,
                _ => cs.u32() % (u32::MAX - 2000),
            };
            Interp::from_bound(bound)?
        }
        _ => Interp::new(),
    };
    it.env.small = cs.below(3) != 0;
    let n = cs.below(50);
    for _ in 0..n {
        match cs.below(24) {
            0..=8 => { let mm = pick(&mut cs, &p.types); it.call(&mut cs, mm)? },
            9 => {
                // a few frequent simple types so that repeats are common
                let names = ["type_void", "type_bool", "type_int", "type_float", "type_vector", "type_pointer", "type_int_id", "type_void_id", "type_pointer", "type_function"];
                { let mm = method(names[cs.below(names.len())]); it.call(&mut cs, mm)? }
            }
            10 | 11 => {
                it.alloc_id()?;
            }
            12 | 13 => {
                let names = ["constant_bit32", "constant_true", "constant_null", "constant_composite", "spec_constant_bit32", "constant_bit64"];
                { let mm = method(names[cs.below(names.len())]); it.call(&mut cs, mm)? }
            }
            14 => { let mm = pick(&mut cs, &p.module_level); it.call(&mut cs, mm)? },
            15 => it.call(&mut cs, method("begin_function"))?,
            16 => it.call(&mut cs, method("begin_block"))?,
            17 | 18 => { let mm = pick(&mut cs, &p.block); it.call(&mut cs, mm)? },
            19 => { let mm = pick(&mut cs, &p.term); it.call(&mut cs, mm)? },
            20 => it.call(&mut cs, method("end_function"))?,
            21 => it.call(&mut cs, method("function_parameter"))?,
            22 => { let mm = pick(&mut cs, &p.block_or_global); it.call(&mut cs, mm)? },
            _ => it.call(&mut cs, method("type_forward_pointer"))?,
        }
    }
    let (m, it) = it.finish()?;
    // consequence: all-implicit type declarations are pairwise different
    let _ = m;
    st.add("repeated_implicit_type_requests", it.repeated_type_requests as u64);
    st.add("failed_calls_reserving_an_id", it.failed_reserving as u64);
    if it.start != 1 {
        st.count("continued_from_existing_module");
    }
    if it.repeated_type_requests > 0 && it.failed_reserving > 0 {
        st.nontrivial(hash_str(&it.render()));
    }
    for n in &it.methods_called {
        if n.starts_with("type_") {
            st.set_insert("type_methods", *n);
        }
    }
    st.sample(|| it.render());
    Ok(())
}

/// two-phase histories: build a module, take it with module(), continue it with
/// new_from_module: fresh ids start at the header bound, implicit type requests are
/// deduplicated against the declarations already in the module
fn sub_c13_continued(input: &[u8], st: &mut Stats) -> R {
    let mut cs = Cs::new(input);
    let p = pools();
    let mut it = Interp::new();
    it.env.small = true;
    let phase = |cs: &mut Cs, it: &mut Interp, n: usize| -> R {
        for _ in 0..n {
            match cs.below(16) {
                0..=6 => {
                    let names = ["type_void", "type_bool", "type_int", "type_float", "type_vector", "type_pointer", "type_int_id", "type_void_id", "type_pointer", "type_function", "type_struct", "type_array"];
                    let mm = method(names[cs.below(names.len())]);
                    it.call(cs, mm)?
                }
                7 | 8 => {
                    let mm = pick(cs, &p.types);
                    it.call(cs, mm)?
                }
                9 => {
                    it.alloc_id()?;
                }
                10 => {
                    let names = ["constant_bit32", "constant_true", "constant_null", "spec_constant_bit32"];
                    let mm = method(names[cs.below(names.len())]);
                    it.call(cs, mm)?
                }
                11 => it.call(cs, method("begin_function"))?,
                12 => it.call(cs, method("begin_block"))?,
                13 => {
                    let mm = pick(cs, &p.block);
                    it.call(cs, mm)?
                }
                14 => {
                    let mm = pick(cs, &p.term);
                    it.call(cs, mm)?
                }
                _ => it.call(cs, method("end_function"))?,
            }
        }
        Ok(())
    };
    let n1 = cs.below(20);
    phase(&mut cs, &mut it, n1)?;
    let rounds = 1 + cs.below(2);
    let mut repeated_after = 0;
    for _ in 0..rounds {
        let (m, prev) = it.finish()?;
        let before = prev.repeated_type_requests;
        let over = match cs.below(6) {
            0 => Some(0),
            1 => Some(1 + cs.below(12) as u32),
            2 => m.header.as_ref().map(|h| h.bound.saturating_sub(1 + cs.below(3) as u32)),
            _ => None,
        };
        if over.is_some() {
            st.count("continued_with_inaccurate_bound");
        }
        it = Interp::continue_from(prev, m, over)?;
        let n2 = cs.below(20);
        phase(&mut cs, &mut it, n2)?;
        repeated_after += it.repeated_type_requests;
        let _ = before;
    }
    let (_m, it) = it.finish()?;
    st.add("repeated_implicit_type_requests_after_continuing", repeated_after as u64);
    if repeated_after > 0 {
        st.nontrivial(hash_str(&it.render()));
    }
    st.sample(|| it.render());
    Ok(())
}

/// long runs of type requests (300-800 calls) over a small argument alphabet: hundreds of
/// distinct declarations, every one of them requested again many times, explicit ids and
/// id-less instructions (forward pointers, module-scope lines) in between
fn sub_c13_long(input: &[u8], st: &mut Stats) -> R {
    let mut cs = Cs::new(input);
    let p = pools();
    let mut it = Interp::new();
    it.env.small = cs.below(4) != 0;
    let n = 300 + cs.below(500);
    for _ in 0..n {
        match cs.below(16) {
            0..=8 => {
                let mm = pick(&mut cs, &p.types);
                it.call(&mut cs, mm)?
            }
            9 | 10 => {
                let names = ["type_void", "type_bool", "type_int", "type_float", "type_vector", "type_pointer", "type_function", "type_struct", "type_array", "type_matrix"];
                let mm = method(names[cs.below(names.len())]);
                it.call(&mut cs, mm)?
            }
            11 => {
                it.alloc_id()?;
            }
            12 => it.call(&mut cs, method("type_forward_pointer"))?,
            13 => {
                let mm = pick(&mut cs, &p.block_or_global);
                it.call(&mut cs, mm)?
            }
            14 => {
                let names = ["constant_bit32", "constant_true", "constant_null", "spec_constant_bit32"];
                let mm = method(names[cs.below(names.len())]);
                it.call(&mut cs, mm)?
            }
            _ => it.call(&mut cs, method("line"))?,
        }
    }
    let (_m, it) = it.finish()?;
    st.add("repeated_implicit_type_requests", it.repeated_type_requests as u64);
    st.add("type_declarations_in_long_runs", it.model.types_global_values.len() as u64);
    st.nontrivial(hash_str(&format!("{:?}{}", it.methods_called.len(), it.repeated_type_requests)) ^ hash64(input));
    Ok(())
}

/// every generated type method: twice implicitly (same arguments), once explicitly
fn sub_c13_type_sweep(input: &[u8], st: &mut Stats) -> R {
    let i = idx(input) as usize;
    let p = pools();
    let Some(mm) = p.types.get(i).copied() else { return Ok(()) };
    let stream = crate::sweep::stream_for(i as u64, 256);
    let mut cs = Cs::new(&stream);
    let mut it = Interp::new();
    for _ in 0..4 {
        it.alloc_id()?;
    }
    let env = it.env.clone();
    let has_id_param = mm.mi.params.iter().any(|p| p.0 == "result_id");
    // plan once, replay the same arguments
    // a plan that asks for a fresh id (explicit result id) is discarded and re-drawn
    let asked = std::cell::Cell::new(false);
    let mut none = || -> u32 {
        asked.set(true);
        0
    };
    let planned = {
        let mut tries = 0;
        loop {
            let mut c2 = Cs::new(&stream[tries..]);
            asked.set(false);
            let r = plan_call(&mut c2, mm, &env, &mut none);
            match r {
                Some(p) if p.explicit_id.is_none() && !asked.get() => break Some(p),
                _ => {
                    tries += 1;
                    if tries > 40 {
                        break None;
                    }
                }
            }
        }
    };
    let _ = &mut cs;
    let Some(planned) = planned else {
        st.count("type_sweep_skipped");
        return Ok(());
    };
    it.call_with(mm, planned.args.clone(), None)?;
    it.call_with(mm, planned.args.clone(), None)?;
    if has_id_param {
        let e = it.alloc_id()?;
        let mut args = planned.args.clone();
        for (a, pinfo) in args.iter_mut().zip(mm.mi.params) {
            if pinfo.0 == "result_id" {
                *a = ArgVal::OptWord(Some(e));
            }
        }
        it.call_with(mm, args, Some(e))?;
        it.call_with(mm, planned.args.clone(), None)?;
    }
    let ntypes = it.model.types_global_values.len();
    let want = if has_id_param { 2 } else { 1 };
    if ntypes != want {
        return Err(Fail::new("type-dedup", format!("{}:count", mm.mi.name), format!("{} declarations after the sweep, expected {}", ntypes, want)).with_decoded(it.render()));
    }
    it.finish()?;
    st.set_insert("type_methods", mm.mi.name);
    st.nontrivial(hash_str(mm.mi.name));
    Ok(())
}

/// `referenced-types`: a type requested implicitly, then referred to by another instruction - each
/// annotation method (decorate, member_decorate, decorate_id, decorate_string) with EVERY declared
/// Decoration naming the type as target, or a debug name, or a variable / constant of that type - and
/// then requested again with the same operands: the earlier id comes back and nothing is added,
/// whatever else in the module mentions that id.
fn c13_ref_methods() -> Vec<&'static str> {
    vec!["decorate", "member_decorate", "decorate_id", "decorate_string", "member_decorate_string", "name", "member_name", "variable", "constant_null", "undef"]
}
fn sub_c13_referenced(input: &[u8], st: &mut Stats) -> R {
    let i = idx(input) as usize;
    let p = pools();
    let g = golden();
    let decos: Vec<u32> = g.enums.get("Decoration").map(|e| e.value_set.iter().copied().collect()).unwrap_or_default();
    let refs = c13_ref_methods();
    let per_type = decos.len() * 5 + 5;
    let base_total = p.types.len() * per_type;
    // beyond the plain sweep: `decorate` only, on a Builder that already declares a coded half of
    // every capability / extension / extended instruction set (one block of cases per code)
    let (i, preload) = if i < base_total {
        (i, None)
    } else {
        let j = i - base_total;
        let per_code = p.types.len() * decos.len();
        let (code, k) = (j / per_code, j % per_code);
        ((k / decos.len()) * per_type + k % decos.len(), Some(code))
    };
    let Some(mm) = p.types.get(i / per_type).copied() else { return Ok(()) };
    let r = i % per_type;
    let (rname, deco) = if r < decos.len() * 5 { (refs[r / decos.len()], Some(decos[r % decos.len()])) } else { (refs[5 + r - decos.len() * 5], None) };
    let rm = method(rname);
    if is_absent(rm) {
        st.count("referenced_types_skipped");
        return Ok(());
    }
    let stream = crate::sweep::stream_for(i as u64 ^ 0xc13, 256);
    let mut it = Interp::new();
    if let Some(code) = preload {
        it.preload_vocabulary(code)?;
    }
    for _ in 0..4 {
        it.alloc_id()?;
    }
    let env = it.env.clone();
    let asked = std::cell::Cell::new(false);
    let mut none = || -> u32 {
        asked.set(true);
        0
    };
    let mut planned = None;
    for tries in 0..40 {
        let mut c2 = Cs::new(&stream[tries..]);
        asked.set(false);
        match plan_call(&mut c2, mm, &env, &mut none) {
            Some(p) if p.explicit_id.is_none() && !asked.get() => {
                planned = Some(p);
                break;
            }
            _ => {}
        }
    }
    let Some(planned) = planned else {
        st.count("referenced_types_skipped");
        return Ok(());
    };
    it.call_with(mm, planned.args.clone(), None)?;
    let Some(t) = it.model.types_global_values.last().and_then(|x| x.result_id) else {
        st.count("referenced_types_skipped");
        return Ok(());
    };
    // the referring call: planned normally, then its first id argument (target / result type) is the type
    let mut c3 = Cs::new(&stream[64..]);
    let mut next = it.lo + it.slack + 1000;
    let mut fresh = || {
        next += 1;
        next
    };
    let Some(mut rp) = plan_call(&mut c3, rm, &it.env.clone(), &mut fresh) else {
        st.count("referenced_types_skipped");
        return Ok(());
    };
    let mut first = true;
    for a in rp.args.iter_mut() {
        match a {
            ArgVal::Word(x) if first => {
                *x = t;
                first = false;
            }
            ArgVal::Enum("Decoration", v) => {
                if let Some(d) = deco {
                    *v = d;
                }
            }
            _ => {}
        }
    }
    if rp.explicit_id.is_some() {
        st.count("referenced_types_skipped");
        return Ok(());
    }
    let before = it.model.types_global_values.len();
    it.call_with(rm, rp.args.clone(), None)?;
    let added = it.model.types_global_values.len() - before;
    // the same request again
    it.call_with(mm, planned.args.clone(), None)?;
    let after = it.model.types_global_values.len() - before - added;
    if after != 0 {
        return Err(Fail::new("type-dedup", format!("{}:after-{}", mm.mi.name, rname), format!("the repeated request added {} declaration(s)", after)).with_decoded(it.render()));
    }
    it.finish()?;
    st.set_insert("referenced_type_methods", mm.mi.name);
    st.nontrivial(hash_str(&format!("{}#{}#{:?}#{:?}", mm.mi.name, rname, deco, preload)));
    Ok(())
}

/// `placed-declarations` (round 22): a scalar type declaration placed by the caller anywhere in the
/// section with `insert_types_global_values` (the instruction is a copy of what the Builder itself
/// emits for that request, so its operands are the Builder's own spelling), between implicit
/// requests; the implicit request for that type then returns the id of one of the identical
/// declarations present and adds nothing.
fn c13_scalar(b: &mut Builder, k: usize) -> u32 {
    match k {
        0 => b.type_void(),
        1 => b.type_bool(),
        2..=9 => b.type_int([8, 16, 32, 64][(k - 2) / 2], ((k - 2) % 2) as u32),
        _ => b.type_float([16, 32, 64][(k - 10) % 3], None),
    }
}
fn sub_c13_placed(input: &[u8], st: &mut Stats) -> R {
    let mut cs = Cs::new(input);
    let mut b = Builder::new();
    let mut log = String::new();
    for _ in 0..cs.below(4) {
        let k = cs.below(13);
        let id = c13_scalar(&mut b, k);
        log.push_str(&format!("request({})=%{}; ", k, id));
    }
    let k = cs.below(13);
    let mut scratch = Builder::new();
    c13_scalar(&mut scratch, k);
    let Some(mut inst) = scratch.module_ref().types_global_values.last().cloned() else { return Ok(()) };
    let placed = b.id();
    inst.result_id = Some(placed);
    let len = b.module_ref().types_global_values.len();
    let (at, at_s) = match cs.below(4) {
        0 => (dr::InsertPoint::Begin, "Begin".to_string()),
        1 => (dr::InsertPoint::End, "End".to_string()),
        2 => {
            let o = cs.below(len + 1);
            (dr::InsertPoint::FromBegin(o), format!("FromBegin({})", o))
        }
        _ => {
            let o = cs.below(len + 1);
            (dr::InsertPoint::FromEnd(o), format!("FromEnd({})", o))
        }
    };
    log.push_str(&format!("place({})=%{} at {}; ", k, placed, at_s));
    let not_at_end = !matches!(at, dr::InsertPoint::End | dr::InsertPoint::FromEnd(0)) && len > 0;
    b.insert_types_global_values(at, inst.clone());
    for _ in 0..cs.below(3) {
        let k2 = cs.below(13);
        let id = c13_scalar(&mut b, k2);
        log.push_str(&format!("request({})=%{}; ", k2, id));
    }
    let same: Vec<u32> = b.module_ref().types_global_values.iter().filter(|x| x.class.opcode == inst.class.opcode && x.operands == inst.operands).filter_map(|x| x.result_id).collect();
    let before = b.module_ref().types_global_values.len();
    let got = c13_scalar(&mut b, k);
    log.push_str(&format!("request({})=%{}", k, got));
    let after = b.module_ref().types_global_values.len();
    if after != before || !same.contains(&got) {
        return Err(Fail::new("type-dedup", format!("placed-declaration:{:?}", inst.class.opcode), format!("identical declarations present: {:?}; the implicit request returned %{} and added {} declaration(s)", same, got, after - before)).with_decoded(log));
    }
    let probe = b.id();
    if probe <= got || probe <= placed || b.module().header.map(|h| h.bound) != Some(probe + 1) {
        return Err(Fail::new("bound", "placed-declaration", format!("probe id %{} after placing %{}", probe, placed)).with_decoded(log));
    }
    if not_at_end {
        st.nontrivial(hash_str(&log));
    }
    Ok(())
}

pub const C13_SUBS: &[Sub] = &[
    Sub { name: "type-sweep", f: sub_c13_type_sweep },
    Sub { name: "histories", f: sub_c13_histories },
    Sub { name: "continued-histories", f: sub_c13_continued },
    Sub { name: "long-type-runs", f: sub_c13_long },
    Sub { name: "referenced-types", f: sub_c13_referenced },
    Sub { name: "placed-declarations", f: sub_c13_placed },
];

pub fn c13_run(ctx: &Ctx) {
    run_regress(ctx, C13_SUBS);
    drive_enum(ctx, &C13_SUBS[0], pools().types.len() as u64);
    drive_random(ctx, &C13_SUBS[1], ctx.n(30_000, 15_000_000), 1500);
    drive_random(ctx, &C13_SUBS[2], ctx.n(10_000, 5_000_000), 1500);
    drive_random(ctx, &C13_SUBS[3], ctx.n(150, 60_000), 12_000);
    {
        let nd = golden().enums.get("Decoration").map(|e| e.value_set.len()).unwrap_or(0);
        drive_enum(ctx, &C13_SUBS[4], (pools().types.len() * (nd * 5 + 5) + vocabulary_codes() * pools().types.len() * nd) as u64);
    }
    drive_random(ctx, &C13_SUBS[5], ctx.n(40_000, 4_000_000), 300);
    if !ctx.quick() && !ctx.failed() {
        crate::fuzzing::drive_fuzz(ctx, "builder", 200000);
    }
}

pub fn c13_finish(ctx: &Ctx) -> i32 {
    crate::engine::finish(
        ctx,
        Finish {
            rule: "cases: (a) every generated type method (and type_pointer): requested twice implicitly with equal arguments, once with an explicit id, once more implicitly; (b) histories of 0-50 calls dominated by type requests over a small argument alphabet (so repeats are frequent) with and without explicit ids, interleaved with id(), constants, module-level and block-level calls that fail after reserving an id, optionally continuing from new_from_module with bound 0 / 1 / random / near u32::MAX. (b') long runs of 300-800 calls dominated by type requests (hundreds of declarations, each requested again many times); (c) two- and three-phase histories: module() then new_from_module(module) and on, with type requests repeating declarations made before the hand-over. Oracle (model R4): fresh ids strictly increasing from 1 / the bound (a failed id-reserving call may skip one id), explicit ids returned unchanged; implicit type request returns the id of an earlier identical declaration and leaves the module unchanged, otherwise appends exactly one declaration with a fresh id; explicit request always appends; final probe = id(), module().header.bound == probe + 1 and > every allocated id. non-trivial = history with >= 1 repeated implicit type request and >= 1 failing id-reserving call (sweep: each type method); distinct = hash of the rendered history. Added in rounds 18-19: referenced-types (type id named by every decoration / name / typed declaration, alone and under vocabulary preloads, before the repeated request). Added in round 22: placed-declarations (a scalar type declaration placed anywhere in the section through insert_types_global_values between implicit requests; the implicit request then returns one of the identical declarations present and adds nothing; non-trivial = placed before the end of a non-empty section).",
            assumptions: vec!["histories never exhaust 2^32 ids".into()],
            trusted_base: vec!["builder model R4".into(), "generated call sites".into()],
        },
    )
}

// ---------------------------------------------------------------------------
// C06: complete histories survive assemble-then-load

fn complete_history(cs: &mut Cs, it: &mut Interp, st: &mut Stats, single: Option<&'static MethodMeta>) -> R {
    let p = pools();
    it.env.conforming = true;
    if cs.below(3) == 0 {
        let v = [(1u8, 0u8), (1, 3), (1, 5), (1, 6), (1, 2)][cs.below(5)];
        it.set_version(v.0, v.1)?;
    }
    // ids "taken from the builder"
    for _ in 0..6 {
        it.alloc_id()?;
    }
    // some literal types first, so that typed constants exist
    for name in ["type_int", "type_float", "type_int", "type_float"] {
        if cs.bool() {
            it.call(cs, method(name))?;
        }
    }
    let module_level = |cs: &mut Cs, it: &mut Interp| -> R {
        let mm = match cs.below(6) {
            0 | 1 => pick(cs, &p.types),
            2 => pick(cs, &p.block_or_global),
            _ => pick(cs, &p.module_level),
        };
        it.call(cs, mm)
    };
    let nml = cs.below(6);
    for _ in 0..nml {
        module_level(cs, it)?;
    }
    if let Some(mm) = single {
        // the method under sweep, in the smallest complete context
        match mm.kind {
            MKind::ModuleLevel | MKind::Type | MKind::BlockOrGlobal => it.call(cs, mm)?,
            MKind::BeginFunction | MKind::EndFunction => {
                it.call(cs, method("begin_function"))?;
                it.call(cs, method("end_function"))?;
            }
            MKind::FunctionParameter => {
                it.call(cs, method("begin_function"))?;
                it.call(cs, mm)?;
                it.call(cs, method("end_function"))?;
            }
            MKind::BeginBlock => {
                it.call(cs, method("begin_function"))?;
                it.call(cs, mm)?;
                it.call(cs, method("ret"))?;
                it.call(cs, method("end_function"))?;
            }
            _ => {
                it.call(cs, method("begin_function"))?;
                it.call(cs, method("begin_block"))?;
                if mm.kind == MKind::BlockInsert || mm.kind == MKind::TerminatorInsert {
                    it.call(cs, method("nop"))?;
                    it.call(cs, method("nop"))?;
                }
                it.call(cs, mm)?;
                if it.selection().1.is_some() {
                    it.call(cs, method("ret"))?;
                }
                it.call(cs, method("end_function"))?;
            }
        }
        return Ok(());
    }
    let nf = cs.below(4);
    for _ in 0..nf {
        it.call(cs, method("begin_function"))?;
        for _ in 0..cs.below(3) {
            it.call(cs, method("function_parameter"))?;
        }
        let nb = cs.below(4);
        for _ in 0..nb {
            it.call(cs, method("begin_block"))?;
            let ni = cs.below(6);
            for _ in 0..ni {
                match cs.below(10) {
                    0 => module_level(cs, it)?,
                    1 => { let mm = pick(cs, &p.block_or_global); it.call(cs, mm)? },
                    2 | 3 => { let mm = pick(cs, &p.block); it.call(cs, mm)? },
                    _ => { let mm = pick(cs, &p.block_append); it.call(cs, mm)? },
                }
            }
            // "each begun block ended by a terminator call"
            { let mm = pick(cs, &p.term_append); it.call(cs, mm)? };
            if it.selection().1.is_some() {
                // the chosen method did not close the block although its opcode is a terminator:
                // already reported by the interpreter; unreachable here
                st.count("terminator_left_block_open");
            }
        }
        it.call(cs, method("end_function"))?;
        if cs.below(3) == 0 {
            module_level(cs, it)?;
        }
    }
    Ok(())
}

/// Complete histories in which functions and blocks are parked (deselected) and resumed later
/// through select_function / select_block: still "each begun block ended by a terminator call,
/// each begun function ended", but not in one go.
fn parked_history(cs: &mut Cs, it: &mut Interp, st: &mut Stats) -> R {
    struct F {
        params_left: usize,
        blocks_left: usize,
        blocks_begun: usize,
        open: Option<usize>,
        insts_left: usize,
        done: bool,
        /// typed values defined inside this function: usable as OpSwitch selectors only here
        /// (elsewhere the use could precede the definition in the assembled order, and the
        /// literal width the arguments must have is defined by that order)
        typed: Vec<(u32, usize)>,
    }
    let p = pools();
    it.env.conforming = true;
    if cs.below(3) == 0 {
        let v = [(1u8, 0u8), (1, 3), (1, 5), (1, 6), (1, 2)][cs.below(5)];
        it.set_version(v.0, v.1)?;
    }
    for _ in 0..4 {
        it.alloc_id()?;
    }
    for name in ["type_int", "type_float", "type_int"] {
        if cs.bool() {
            it.call(cs, method(name))?;
        }
    }
    // one history in twenty-four is several times larger (up to nine functions of up to a dozen blocks)
    let scale = if cs.below(24) == 0 { 3 } else { 1 };
    let nf = 1 + cs.below(3 * scale);
    let mut fs: Vec<F> = vec![];
    let mut steps = 0usize;
    let mut parks = 0usize;
    let mut rejected = 0usize;
    let mut resumed_nonlast = 0usize;
    loop {
        steps += 1;
        if steps > 400 * scale * scale {
            return Err(fail("harness", "parked-history-does-not-terminate", it.render()));
        }
        let calm = steps > 120 * scale * scale; // no more parking: run to completion
        let (sf, sb) = it.selection();
        match sf {
            None => {
                // calls that are REJECTED (nothing selected): a complete history may contain
                // them; they must leave the ids and the module alone
                if !calm && cs.below(8) == 0 {
                    let mm = match cs.below(4) {
                        0 => pick(cs, &p.term),
                        1 => method("end_function"),
                        2 => method("function_parameter"),
                        _ => pick(cs, &p.block),
                    };
                    it.call(cs, mm)?;
                    rejected += 1;
                    continue;
                }
                let unfinished: Vec<usize> = fs.iter().enumerate().filter(|(_, f)| !f.done).map(|(i, _)| i).collect();
                if fs.len() < nf && (unfinished.is_empty() || cs.bool()) {
                    it.call(cs, method("begin_function"))?;
                    fs.push(F { params_left: cs.below(3), blocks_left: cs.below(4 * scale), blocks_begun: 0, open: None, insts_left: 0, done: false, typed: vec![] });
                } else if !unfinished.is_empty() {
                    let i = unfinished[cs.below(unfinished.len())];
                    if i + 1 < fs.len() {
                        resumed_nonlast += 1;
                    }
                    it.select_function(Some(i))?;
                    it.env.typed_values = std::mem::take(&mut fs[i].typed);
                    if let Some(b) = fs[i].open {
                        it.select_block(Some(b))?;
                    }
                } else {
                    break;
                }
                if cs.below(6) == 0 {
                    let mm = match cs.below(3) {
                        0 => pick(cs, &p.types),
                        _ => pick(cs, &p.module_level),
                    };
                    it.call(cs, mm)?;
                }
            }
            Some(f) => {
                if !calm && cs.below(4) == 0 {
                    parks += 1;
                    if sb.is_some() && cs.bool() {
                        it.select_block(None)?;
                    } else {
                        it.select_function(None)?;
                        fs[f].typed = std::mem::take(&mut it.env.typed_values);
                    }
                    continue;
                }
                let fx = &mut fs[f];
                match sb {
                    Some(_) => {
                        if fx.insts_left > 0 {
                            fx.insts_left -= 1;
                            let mm = match cs.below(8) {
                                0 => pick(cs, &p.block_or_global),
                                1 | 2 => pick(cs, &p.block),
                                _ => pick(cs, &p.block_append),
                            };
                            it.call(cs, mm)?;
                        } else {
                            let mm = pick(cs, &p.term_append);
                            it.call(cs, mm)?;
                            if it.selection().1.is_none() {
                                fx.open = None;
                                fx.blocks_left -= 1;
                            }
                        }
                    }
                    None => {
                        if let Some(b) = fx.open {
                            it.select_block(Some(b))?;
                        } else if fx.params_left > 0 && (fx.blocks_begun == 0 || cs.bool()) {
                            fx.params_left -= 1;
                            it.call(cs, method("function_parameter"))?;
                        } else if fx.blocks_left > 0 {
                            it.call(cs, method("begin_block"))?;
                            if it.selection().1.is_some() {
                                fx.open = Some(fx.blocks_begun);
                                fx.blocks_begun += 1;
                                fx.insts_left = cs.below(4 * scale);
                            }
                        } else {
                            it.call(cs, method("end_function"))?;
                            fx.done = true;
                            it.env.typed_values.clear();
                        }
                    }
                }
            }
        }
    }
    st.add("parks", parks as u64);
    st.add("rejected_calls_in_parked_histories", rejected as u64);
    if resumed_nonlast > 0 {
        st.count("resumed_a_function_that_is_not_the_last");
    }
    Ok(())
}

fn sub_c06_parked(input: &[u8], st: &mut Stats) -> R {
    let mut cs = Cs::new(input);
    let mut it = Interp::new();
    parked_history(&mut cs, &mut it, st)?;
    roundtrip(it, st)
}

fn roundtrip(it: Interp, st: &mut Stats) -> R {
    let (m, it) = it.finish()?;
    let wrap = |f: Fail| f.with_decoded(it.render());
    let words = no_panic("Module::assemble", || m.assemble()).map_err(wrap)?;
    let bytes = crate::model::words_to_bytes(&words);
    // self-check of the generator: the arguments were grammar-conforming
    let rp = crate::model::ref_parse(&bytes);
    if rp.end != crate::model::End::Clean {
        st.count("skipped_arguments_not_conforming");
        st.sample(|| format!("NON-CONFORMING (generator): {:?}\n{}", rp.end, it.render()));
        return Ok(());
    }
    let loaded = load_words(&words).map_err(wrap)?;
    let m2 = match loaded {
        Ok(x) => x,
        Err(e) => {
            let opn = match &e {
                rspirv::binary::ParseState::ConsumerError(b) => match b.downcast_ref::<dr::Error>() {
                    Some(dr::Error::DetachedInstruction(Some(i))) => i.class.opname.to_string(),
                    Some(o) => err_name(o),
                    None => String::new(),
                },
                o => state_name(o),
            };
            return Err(wrap(Fail::new(
                "built-module-not-loadable",
                opn,
                format!("the loader rejects the assembled Builder module: {}", e),
            )));
        }
    };
    if let Some(d) = module_diff(&m, &m2) {
        // name the first differing instruction's opcode
        let a: Vec<&dr::Instruction> = m.all_inst_iter().collect();
        let b: Vec<&dr::Instruction> = m2.all_inst_iter().collect();
        let opn = a
            .iter()
            .zip(&b)
            .find(|(x, y)| x != y)
            .map(|(x, _)| x.class.opname.to_string())
            .unwrap_or_else(|| "count".into());
        return Err(wrap(Fail::new("built-vs-loaded", opn, format!("loaded module differs from the built one: {}", d))));
    }
    for n in &it.methods_called {
        st.set_insert("methods", *n);
    }
    let blocks: usize = m.functions.iter().map(|f| f.blocks.len()).sum();
    if !m.functions.is_empty() && blocks >= 2 && it.ncalls >= 6 {
        st.nontrivial(hash_words(&words));
    }
    st.add("builder_calls", it.ncalls as u64);
    st.sample(|| it.render());
    Ok(())
}

fn sub_c06_histories(input: &[u8], st: &mut Stats) -> R {
    let mut cs = Cs::new(input);
    let mut it = Interp::new();
    complete_history(&mut cs, &mut it, st, None)?;
    roundtrip(it, st)
}

/// a complete history, module(), Builder::new_from_module(module), a second complete history on
/// top: the final module survives assemble-then-load, its bound is above every id of both phases
fn sub_c06_continued(input: &[u8], st: &mut Stats) -> R {
    let mut cs = Cs::new(input);
    let mut it = Interp::new();
    complete_history(&mut cs, &mut it, st, None)?;
    let rounds = 1 + cs.below(2);
    for _ in 0..rounds {
        let (m, prev) = it.finish()?;
        let all_ids = prev.env.ids.clone();
        // one time in three the module handed over carries a bound far above its ids (a bound only
        // has to exceed them), so that the ids of the second phase are large: beyond 2^22, 2^24, 2^31
        let cur = m.header.as_ref().map(|h| h.bound).unwrap_or(0);
        let raised = if cs.below(3) == 0 {
            Some([0x3f_fff0u32, 0x3f_ffff, 0x40_0000, 0x40_0001, 0x100_0000, 0x7fff_ff00, 0x8000_0000, 0xfff0_0000][cs.below(8)]).filter(|r| *r > cur)
        } else {
            None
        };
        if raised.is_some() {
            st.count("continued_with_raised_bound");
        }
        it = Interp::continue_from(prev, m, raised)?;
        it.env.ids = all_ids;
        it.version = None;
        complete_history(&mut cs, &mut it, st, None)?;
    }
    st.count("continued_complete_histories");
    roundtrip(it, st)
}

/// complete histories on a Builder continued from an empty module whose bound lies 0-40 below
/// 2^16, 2^17, 2^22 or 2^24: the ids of the history straddle the power of two (an int or float type,
/// a typed value, a label gets exactly that id)
fn sub_c06_straddle(input: &[u8], st: &mut Stats) -> R {
    let mut cs = Cs::new(input);
    let t = [1u32 << 16, 1 << 16, 1 << 17, 1 << 22, 1 << 24, 1 << 18, 1 << 20, 10_000, 100_000, 1_000_000, 1_000_000, 10_000_000, 1_000_000_000][cs.below(13)];
    let start = t - cs.below(41) as u32;
    let mut it = Interp::from_bound(start)?;
    it.model.header = Some(dr::ModuleHeader::new(start));
    complete_history(&mut cs, &mut it, st, None)?;
    st.count(&format!("histories_straddling_{:#x}", t));
    roundtrip(it, st)
}

/// every instruction-emitting method in a minimal complete history, distinct ids
fn sub_c06_method_sweep(input: &[u8], st: &mut Stats) -> R {
    let i = idx(input) as usize;
    let p = pools();
    let Some(mm) = p.emitting.get(i / 3).copied() else { return Ok(()) };
    let stream = crate::sweep::stream_for(i as u64 ^ 0xb1d, 512);
    let mut cs = Cs::new(&stream);
    let mut it = Interp::new();
    complete_history(&mut cs, &mut it, st, Some(mm))?;
    if it.methods_called.contains(&mm.mi.name) {
        st.set_insert("swept_methods", mm.mi.name);
        st.nontrivial(hash_str(&format!("{}#{}", mm.mi.name, i % 3)));
    } else {
        st.count("sweep_method_not_planned");
    }
    roundtrip(it, st)
}

/// hand-minimised histories
fn sub_c06_fixed(input: &[u8], st: &mut Stats) -> R {
    let k = idx(input);
    let mut it = Interp::new();
    it.env.conforming = true;
    match k {
        0 => {
            // F1: OpTypeStructContinuedINTEL is emitted with a result id
            let a = it.alloc_id()?;
            let b = it.alloc_id()?;
            it.call_with(method("type_struct_continued_intel"), vec![ArgVal::Words(vec![a, b])], None)?;
        }
        1 => {
            // D9: execution_mode_id parameters are ids
            let a = it.alloc_id()?;
            let b = it.alloc_id()?;
            it.call_with(
                method("execution_mode_id"),
                vec![ArgVal::Word(a), ArgVal::Enum("ExecutionMode", 37), ArgVal::U32s(vec![b])],
                None,
            )?;
        }
        _ => return Ok(()),
    }
    roundtrip(it, st)
}

pub const C06_SUBS: &[Sub] = &[
    Sub { name: "fixed-histories", f: sub_c06_fixed },
    Sub { name: "method-sweep", f: sub_c06_method_sweep },
    Sub { name: "histories", f: sub_c06_histories },
    Sub { name: "parked-histories", f: sub_c06_parked },
    Sub { name: "continued-histories", f: sub_c06_continued },
    Sub { name: "straddling-histories", f: sub_c06_straddle },
];

pub fn c06_run(ctx: &Ctx) {
    let ms = methods();
    let uncovered: Vec<&str> = ms
        .iter()
        .filter(|m| m.kind == MKind::Other)
        .map(|m| m.mi.name)
        .collect();
    ctx.note(format!(
        "builder methods: {} total, {} instruction-emitting with generated call sites; not instruction-emitting / handled by hand: {:?}",
        ms.len(),
        pools().emitting.len(),
        uncovered
    ));
    run_regress(ctx, C06_SUBS);
    drive_enum(ctx, &C06_SUBS[0], 2);
    drive_enum(ctx, &C06_SUBS[1], pools().emitting.len() as u64 * 3);
    drive_random(ctx, &C06_SUBS[2], ctx.n(20_000, 10_000_000), 2500);
    drive_random(ctx, &C06_SUBS[3], ctx.n(8_000, 4_000_000), 2500);
    drive_random(ctx, &C06_SUBS[4], ctx.n(4_000, 2_000_000), 4000);
    drive_random(ctx, &C06_SUBS[5], ctx.n(20_000, 6_000_000), 2500);
    if !ctx.quick() && !ctx.failed() {
        crate::fuzzing::drive_fuzz(ctx, "builder", 200000);
    }
}

pub fn c06_finish(ctx: &Ctx) -> i32 {
    crate::engine::finish(
        ctx,
        Finish {
            rule: "cases: (a) per-method sweep: every instruction-emitting Builder method (1153, call sites generated from the working tree by build.rs) x3 in the smallest complete history; (b) complete histories: optional set_version, ids from b.id(), int/float types, module-level/type/global calls, 0-3 functions x 0-3 blocks of block instructions (append and insert_*), each block ended by a terminator method, each function ended, module-level calls interleaved anywhere; arguments grammar-conforming (enumerant parameters via additional_params, optionals as trailing run, typed literals of the declared width). (c') continued histories: a complete history, module(), new_from_module, another complete history; (c) parked histories: 1-3 functions built interleaved - a function or block is deselected (select_function(None) / select_block(None)) at random points, other functions are begun or resumed, and it is later re-selected (select_function(Some(i)) + select_block(Some(j))) and completed. Oracle: per call, the emitted instruction (found where the model R4 places it) equals the method's opcode + arguments in grammar order; at the end load_words(module().assemble()) is Ok and field-wise equal to the built module; version = the one set on the builder; bound = next id > every id used. non-trivial = history with >= 1 function, >= 2 blocks, >= 6 calls (sweep: the swept method was called); distinct = hash of the assembled words. Added in rounds 18-19: straddling-histories (ids across powers of two and ten).",
            assumptions: vec![
                "excluded: begin_block_no_label (label-less block cannot be expressed in a binary); insert_into_block / insert_types_global_values with caller-made instructions; spec_constant_op only with opcodes whose embedded operand list can be empty; execution_mode / execution_mode_id only with modes whose parameters fit the [u32] signature; with several parameterised masks in one call only the last may carry parameters (single additional_params argument)".into(),
                "histories whose assembled words the reference parser R1 does not accept are generator errors and skipped (counted as skipped_arguments_not_conforming)".into(),
            ],
            trusted_base: vec!["builder model R4".into(), "generated call sites".into(), "golden grammar".into(), "reference parser R1".into()],
        },
    )
}

// ---------------------------------------------------------------------------
// C16 (Builder clause): a block-level method ends the block iff its opcode is a terminator

fn sub_c16_builder(input: &[u8], st: &mut Stats) -> R {
    let i = idx(input) as usize;
    let ms: Vec<&'static MethodMeta> = methods()
        .iter()
        .filter(|m| matches!(m.kind, MKind::BlockInst | MKind::BlockInsert | MKind::Terminator | MKind::TerminatorInsert))
        .collect();
    // history of the Builder before the call: 0 = fresh; 1 = a terminator and a block
    // instruction were REJECTED first (no block open); 2 = an earlier complete function exists
    // 3 = the version was pinned to 1.6 first; 4-7 = the same-typed arguments of the call all name
    // ONE id (both targets of a conditional branch, every member of an id list) and number lists are
    // empty (4: version 1.6, 5: no version, 6: version 1.0, 7: version 1.6, lists kept)
    let total = ms.len() * 6;
    let hist = i / total;
    let i = i % total;
    // 8.. = the module under construction already declares a coded half of everything tools know by
    // name - capabilities, extension names, extended instruction sets (`vocab::coded_subset`: over
    // the codes every "A declared, B not" combination occurs)
    let (hist, pinned, aliased, empty_lists, preload) = match hist {
        0..=2 => (hist, None, false, false, None),
        3 => (0, Some((1u8, 6u8)), false, false, None),
        4 => (0, Some((1, 6)), true, true, None),
        5 => (0, None, true, true, None),
        6 => (2, Some((1, 0)), true, true, None),
        7 => (0, Some((1, 6)), true, false, None),
        k => (0, None, false, false, Some(k - 8)),
    };
    let variant = i % 6;
    let Some(mm) = ms.get(i / 6).copied() else { return Ok(()) };
    let has_ip = mm.mi.params.first().map(|p| p.1) == Some("InsertPoint");
    if !has_ip && variant != 0 {
        return Ok(());
    }
    let stream = crate::sweep::stream_for(i as u64 ^ 0xc16, 256);
    let mut cs = Cs::new(&stream);
    let mut b = Builder::new();
    if let Some((ma, mi)) = pinned {
        b.set_version(ma, mi);
    }
    if let Some(code) = preload {
        preload_vocabulary(&mut b, code);
    }
    let ids: Vec<u32> = (0..6).map(|_| b.id()).collect();
    match hist {
        1 => {
            // rejected calls (nothing selected), also between function and block
            let _ = no_panic("Builder::ret", || b.ret())?;
            let _ = no_panic("Builder::nop", || b.nop())?;
            let _ = no_panic("Builder::branch", || b.branch(ids[2]))?;
            let _ = no_panic("Builder::end_function", || b.end_function())?;
        }
        2 => {
            let f = |e: rspirv::dr::Error| Fail::new("harness", "history", format!("{:?}", e));
            b.begin_function(ids[0], None, spirv::FunctionControl::NONE, ids[1]).map_err(f)?;
            b.begin_block(None).map_err(f)?;
            b.nop().map_err(f)?;
            b.ret().map_err(f)?;
            b.end_function().map_err(f)?;
        }
        _ => {}
    }
    b.begin_function(ids[0], None, spirv::FunctionControl::NONE, ids[1]).map_err(|e| Fail::new("harness", "begin_function", format!("{:?}", e)))?;
    if hist == 1 {
        let _ = no_panic("Builder::kill", || {
            let _ = b.kill();
        })?;
    }
    b.begin_block(None).map_err(|e| Fail::new("harness", "begin_block", format!("{:?}", e)))?;
    // two instructions already in the block so that every insert point is meaningful
    let _ = b.nop();
    let _ = b.nop();
    if b.selected_block().is_none() {
        return Err(Fail::new(
            "builder-ends-block-iff-terminator",
            "Nop:closed",
            format!("Builder::nop ended the block (history variant {}) but is_block_terminator(OpNop) = false", hist),
        ));
    }
    let env = Env {
        ids,
        block_len: Some(2),
        conforming: true,
        ..Default::default()
    };
    let mut fresh = || b.id();
    let Some(planned) = plan_call(&mut cs, mm, &env, &mut fresh) else {
        st.count("not_planned");
        return Ok(());
    };
    let callf = mm.mi.call.unwrap();
    let mut planned = planned;
    if has_ip {
        let ip = [IP::Begin, IP::End, IP::FromBegin(2), IP::FromEnd(0), IP::FromBegin(1), IP::FromEnd(1)][variant];
        for a in planned.args.iter_mut() {
            if let ArgVal::InsertPoint(x) = a {
                *x = ip;
            }
        }
    }
    if aliased {
        let one = env.ids[2];
        for a in planned.args.iter_mut() {
            match a {
                ArgVal::Word(x) => *x = one,
                ArgVal::Words(v) => v.iter_mut().for_each(|x| *x = one),
                ArgVal::PairsWW(v) => v.iter_mut().for_each(|x| *x = (one, one)),
                ArgVal::U32s(v) if empty_lists => v.clear(),
                ArgVal::PairsWU(v) if empty_lists => v.clear(),
                _ => {}
            }
        }
        st.count("calls_with_aliased_arguments");
    }
    let mut a = Args::new(planned.args.clone());
    let out = no_panic(&format!("Builder::{}", mm.mi.name), || callf(&mut b, &mut a))?;
    let opname = mm.gi.unwrap().opname.as_str();
    let op = spirv::Op::from_u32(mm.gi.unwrap().opcode).unwrap();
    let pred = rspirv::grammar::reflect::is_block_terminator(op);
    let closed = b.selected_block().is_none();
    if !out.ok {
        return Err(Fail::new("builder-call-failed", mm.mi.name.to_string(), format!("{} failed with a block open: {:?}", render_args(mm, &planned.args), out.err)));
    }
    // the instruction the call actually appended (the block held two OpNop before)
    let appended: Vec<spirv::Op> = b
        .module_ref()
        .functions
        .last()
        .and_then(|f| f.blocks.last())
        .map(|bl| bl.instructions.iter().map(|i| i.class.opcode).filter(|o| *o != spirv::Op::Nop).collect())
        .unwrap_or_default();
    if let [actual] = appended[..] {
        let pa = rspirv::grammar::reflect::is_block_terminator(actual);
        if closed != pa {
            return Err(Fail::new(
                "builder-ends-block-iff-terminator",
                format!("{:?}:{}", actual, if closed { "closed" } else { "left-open" }),
                format!(
                    "Builder::{} appended Op{:?} and {} the block, but is_block_terminator(Op{:?}) = {}",
                    mm.mi.name,
                    actual,
                    if closed { "ended" } else { "did not end" },
                    actual,
                    pa
                ),
            ));
        }
    }
    if closed != pred {
        return Err(Fail::new(
            "builder-ends-block-iff-terminator",
            format!("{}:{}", opname, if closed { "closed" } else { "left-open" }),
            format!(
                "Builder::{} {} the block but is_block_terminator(Op{}) = {}",
                mm.mi.name,
                if closed { "ended" } else { "did not end" },
                opname,
                pred
            ),
        ));
    }
    st.nontrivial(hash_str(&format!("{}#{}#{}#{:?}#{}#{}#{:?}", mm.mi.name, variant, hist, pinned, aliased, empty_lists, preload)));
    if closed {
        st.set_insert("block_ending_methods", mm.mi.name);
    }
    Ok(())
}

/// number of preload codes that cover every ordered pair of each vocabulary list
pub fn vocabulary_codes() -> usize {
    let ncap = golden().enums.get("Capability").map(|c| c.values.len()).unwrap_or(2);
    crate::vocab::codes_for(ncap).max(crate::vocab::codes_for(crate::vocab::extensions().len())).max(crate::vocab::codes_for(crate::vocab::EXT_SETS.len()))
}

/// declares on `b` the sub-lists of the vocabulary that `code` selects; returns the import ids
pub fn preload_vocabulary(b: &mut Builder, code: usize) -> Vec<u32> {
    if let Some(c) = golden().enums.get("Capability") {
        let all: Vec<u32> = c.values.iter().map(|v| v.value).collect();
        for v in crate::vocab::coded_subset(&all, code % crate::vocab::codes_for(all.len())) {
            if let Some(cap) = spirv::Capability::from_u32(v) {
                b.capability(cap);
            }
        }
    }
    let exts = crate::vocab::extensions();
    for e in crate::vocab::coded_subset(exts, code % crate::vocab::codes_for(exts.len())) {
        b.extension(e);
    }
    let sets: Vec<&str> = crate::vocab::EXT_SETS.to_vec();
    crate::vocab::coded_subset(&sets, code % crate::vocab::codes_for(sets.len())).into_iter().map(|e| b.ext_inst_import(e)).collect()
}

pub const C16_SUBS: &[Sub] = &[Sub { name: "builder-ends-block", f: sub_c16_builder }];

pub fn c16_run(ctx: &Ctx) {
    let n = methods()
        .iter()
        .filter(|m| matches!(m.kind, MKind::BlockInst | MKind::BlockInsert | MKind::Terminator | MKind::TerminatorInsert))
        .count();
    drive_enum(ctx, &C16_SUBS[0], n as u64 * 6 * (8 + vocabulary_codes() as u64));
}

#[allow(dead_code)]
fn _unused() {
    let _ = golden();
}
