//! Builder machinery shared by C06 / C12 / C13 / C16 (generated call sites).
use crate::engine::*;

pub const C16_SUBS: &[Sub] = &[];
pub fn c16_run(_ctx: &Ctx) {}
