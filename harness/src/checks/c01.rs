//! C01 — load-then-assemble reproduces every instruction of the input binary.

use crate::cs::Cs;
use crate::engine::*;
use crate::ensure;
use crate::layout::*;
use crate::model::*;
use crate::rs::*;
use crate::sweep;
use rspirv::binary::Assemble;

/// words of input instruction `ri` with string padding zeroed
fn canon_input(bytes: &[u8], ri: &RInst) -> Vec<u32> {
    let mut b = bytes[ri.start..ri.start + ri.wc * 4].to_vec();
    for (lo, hi) in &ri.pads {
        for k in *lo..*hi {
            b[k - ri.start] = 0;
        }
    }
    bytes_to_words(&b)
}

/// zero the same pad positions (relative to the instruction start) in output words
fn canon_output(out: &[u32], ri: &RInst) -> Vec<u32> {
    let mut b = words_to_bytes(out);
    for (lo, hi) in &ri.pads {
        for k in *lo..*hi {
            let r = k - ri.start;
            if r < b.len() {
                b[r] = 0;
            }
        }
    }
    bytes_to_words(&b)
}

fn split_insts(words: &[u32]) -> Option<Vec<&[u32]>> {
    let mut v = vec![];
    let mut i = 0;
    while i < words.len() {
        let wc = (words[i] >> 16) as usize;
        if wc == 0 || i + wc > words.len() {
            return None;
        }
        v.push(&words[i..i + wc]);
        i += wc;
    }
    Some(v)
}

pub fn check_bytes(bytes: &[u8], st: &mut Stats, decoded: &dyn Fn() -> String) -> R {
    let wrap = |f: Fail| -> Fail {
        f.with_decoded(format!(
            "{}\ninput words: {}",
            decoded(),
            show_words(&bytes_to_words(bytes))
        ))
    };
    let loaded = load_bytes(bytes).map_err(wrap)?;
    let Ok(module) = loaded else {
        st.count("not_loadable");
        return Ok(());
    };
    // the word-slice entry point must yield the same module (two different modules cannot both
    // reproduce the input and reload to themselves)
    if bytes.len() % 4 == 0 {
        if let Ok(mw) = load_words(&bytes_to_words(bytes)).map_err(wrap)? {
            if let Some(d) = module_diff(&module, &mw) {
                return Err(wrap(Fail::new("entry-points-disagree", "load_words-vs-load_bytes", d)));
            }
            st.count("load_words_agrees");
        }
    }
    let rp = ref_parse(bytes);
    let clean = matches!(rp.end, End::Clean | End::Stray(_)) && rp.header.is_ok();
    if !clean {
        // Acceptance itself is C03's subject. The loader accepted the stream nevertheless, so
        // the model-free core of the statement still binds: the output's instructions are the
        // input's (compared by their first words, as multisets) and nothing is added or lost.
        st.count("loader_accepts_what_reference_parser_rejects");
        if bytes.len() % 4 == 0 && bytes.len() >= 20 {
            let inw = bytes_to_words(bytes);
            let out = no_panic("Module::assemble", || module.assemble()).map_err(wrap)?;
            if let (Some(a), Some(b)) = (split_insts(&inw[5..]), split_insts(out.get(5..).unwrap_or(&[]))) {
                let mut fa: Vec<u32> = a.iter().map(|i| i[0]).collect();
                let mut fb: Vec<u32> = b.iter().map(|i| i[0]).collect();
                fa.sort();
                fb.sort();
                if fa != fb {
                    return Err(wrap(Fail::new(
                        "instruction-count",
                        if fb.len() < fa.len() { "dropped" } else { "invented" },
                        format!("input has {} instructions, output {} (compared by first words)", fa.len(), fb.len()),
                    )));
                }
            }
        }
        return Ok(());
    }
    let header = rp.header.unwrap();
    let names: Vec<&str> = rp.insts.iter().map(|i| i.opname.as_str()).collect();
    let r2 = r2_load(&names);
    let out = no_panic("Module::assemble", || module.assemble()).map_err(wrap)?;
    // header: version and bound
    ensure!(out.len() >= 5, "output-header", "missing", "assembled module has {} words", out.len());
    if out[0] != MAGIC || (out[1] >> 8) & 0xffff != (header[1] >> 8) & 0xffff || out[3] != header[3] {
        return Err(wrap(Fail::new(
            "output-header",
            if out[3] != header[3] { "bound" } else { "version" },
            format!("input header {:x?}, output header {:x?}", header, &out[..5]),
        )));
    }
    // the other ways of assembling the loaded module give the same words: assemble_into, and
    // instruction by instruction over the module's own traversal (read-only and mutable)
    {
        let mut into: Vec<u32> = vec![0xdead_beef];
        no_panic("Module::assemble_into", || module.assemble_into(&mut into)).map_err(wrap)?;
        if into[0] != 0xdead_beef || into[1..] != out[..] {
            return Err(wrap(Fail::new("assemble-entry-points", "assemble_into", "assemble_into(appending to a non-empty buffer) differs from assemble()".to_string())));
        }
        let mut per: Vec<u32> = out[..5].to_vec();
        no_panic("Instruction::assemble over all_inst_iter", || {
            for i in module.all_inst_iter() {
                per.extend(i.assemble());
            }
        })
        .map_err(wrap)?;
        if per != out {
            return Err(wrap(Fail::new("assemble-entry-points", "per-instruction-over-all_inst_iter", "assembling instruction by instruction over all_inst_iter() differs from Module::assemble()".to_string())));
        }
        let mut m2 = module.clone();
        let mut per2: Vec<u32> = out[..5].to_vec();
        no_panic("Instruction::assemble_into over all_inst_iter_mut", || {
            for i in m2.all_inst_iter_mut() {
                i.assemble_into(&mut per2);
            }
        })
        .map_err(wrap)?;
        if per2 != out {
            return Err(wrap(Fail::new("assemble-entry-points", "per-instruction-over-all_inst_iter_mut", "assembling instruction by instruction over all_inst_iter_mut() differs from Module::assemble()".to_string())));
        }
    }
    let Some(out_insts) = split_insts(&out[5..]) else {
        return Err(wrap(Fail::new(
            "output-framing",
            "word-count",
            "assembled instructions do not tile the output by their word counts".to_string(),
        )));
    };
    let order: Option<Vec<usize>> = match &r2 {
        R2::Accept(a) => {
            if a.line_outside_block {
                st.count("excluded_line_outside_block");
                return Ok(());
            }
            if a.memory_models > 1 {
                st.count("excluded_multiple_memory_models");
                return Ok(());
            }
            Some(a.placement.order())
        }
        R2::DontCare { .. } => {
            // the statement's two exclusions hold here as well (FA20)
            let mm = names.iter().filter(|n| **n == "MemoryModel").count();
            let first_fn = names.iter().position(|n| *n == "Function").unwrap_or(names.len());
            if mm > 1 || names[first_fn..].iter().any(|n| *n == "Line" || *n == "NoLine") {
                st.count("excluded_undecidable_without_placement");
                return Ok(());
            }
            None
        }
        R2::Reject { .. } => {
            // Whether this stream may be accepted is C05's subject; but the loader did accept
            // it, so the part of the statement that needs no placement model still binds:
            // nothing dropped, duplicated or invented, header kept, reload equal.
            st.count("loader_accepts_what_layout_model_rejects");
            let mm = names.iter().filter(|n| **n == "MemoryModel").count();
            let first_fn = names.iter().position(|n| *n == "Function").unwrap_or(names.len());
            if mm > 1 || names[first_fn..].iter().any(|n| *n == "Line" || *n == "NoLine") {
                // the two documented exclusions cannot be decided without a placement
                st.count("excluded_undecidable_without_placement");
                return Ok(());
            }
            None
        }
    };
    // F2: a typed literal consumer that the layout hoists in front of the instruction its
    // type information comes from (e.g. OpSpecConstant whose result type is a function id
    // typed by OpFunction's result type): the output re-parses with another literal width.
    if let Some(order) = &order {
        let lit_type = |ri: &RInst| -> Option<u32> {
            match ri.opname.as_str() {
                "Constant" | "SpecConstant" => ri.rtype,
                "Switch" => ri.ops.first().map(|o| o.words[0]),
                _ => None,
            }
        };
        let widths = |seq: &mut dyn Iterator<Item = usize>| -> std::collections::HashMap<usize, LitW> {
            let mut tc = TyCtx::new();
            let mut m = std::collections::HashMap::new();
            for i in seq {
                let ri = &rp.insts[i];
                if let Some(t) = lit_type(ri) {
                    m.insert(i, tc.lit_words(t));
                }
                let skip = ri.rtype.is_some() as usize + ri.rid.is_some() as usize;
                let w = bytes_to_words(&bytes[ri.start + 4..ri.start + ri.wc * 4]);
                tc.track(&ri.opname, ri.rtype, ri.rid, &w[skip.min(w.len())..]);
            }
            m
        };
        let a = widths(&mut (0..rp.insts.len()));
        let b = widths(&mut order.iter().copied());
        if let Some((i, _)) = a.iter().find(|(i, w)| b.get(*i) != Some(*w)) {
            return Err(wrap(Fail::new(
                "reorder-changes-literal-width",
                rp.insts[*i].opname.clone(),
                format!(
                    "instruction #{} (Op{}) takes its literal width from an instruction that the logical layout places after it: the assembled output re-parses it with a different width ({:?} vs {:?})",
                    i + 1,
                    rp.insts[*i].opname,
                    a.get(i),
                    b.get(i)
                ),
            )));
        }
    }
    match &order {
        Some(order) => {
            if out_insts.len() != order.len() {
                let disc = if out_insts.len() < order.len() { "dropped" } else { "invented" };
                return Err(wrap(Fail::new(
                    "instruction-count",
                    disc,
                    format!("input has {} instructions, output {}", order.len(), out_insts.len()),
                )));
            }
            for (k, (o, idx)) in out_insts.iter().zip(order).enumerate() {
                let ri = &rp.insts[*idx];
                let want = canon_input(bytes, ri);
                let got = canon_output(o, ri);
                if want != got {
                    // is it a re-encoding problem or an ordering problem?
                    let same_elsewhere = rp.insts.iter().any(|r| canon_input(bytes, r) == canon_output(o, r));
                    let clause = if same_elsewhere { "instruction-order" } else { "instruction-words" };
                    return Err(wrap(Fail::new(
                        clause,
                        ri.opname.clone(),
                        format!(
                            "output instruction {} is [{}], expected input instruction #{} [{}]",
                            k,
                            show_words(o),
                            idx + 1,
                            show_words(&want)
                        ),
                    )));
                }
            }
        }
        None => {
            // don't-care placement: nothing dropped, duplicated or invented (multiset)
            let mut a: Vec<Vec<u32>> = rp.insts.iter().map(|r| canon_input(bytes, r)).collect();
            let mut b: Vec<Vec<u32>> = vec![];
            for o in &out_insts {
                // canonicalise via the matching input instruction when there is one
                let c = rp
                    .insts
                    .iter()
                    .find(|r| r.wc == o.len() && canon_output(o, r) == canon_input(bytes, r))
                    .map(|r| canon_output(o, r))
                    .unwrap_or_else(|| o.to_vec());
                b.push(c);
            }
            a.sort();
            b.sort();
            if a != b {
                return Err(wrap(Fail::new(
                    "instruction-multiset",
                    if matches!(r2, R2::Reject { .. }) { "loader-accepts-what-the-layout-model-rejects" } else { "dontcare-placement" },
                    "output instructions are not a permutation of the input instructions".to_string(),
                )));
            }
            st.count("dontcare_placement_multiset_only");
        }
    }
    // reload
    let m2 = load_words(&out).map_err(wrap)?;
    let m2 = match m2 {
        Ok(m) => m,
        Err(e) => {
            return Err(wrap(Fail::new(
                "reload",
                state_name(&e),
                format!("the assembled output is rejected by the loader: {}", e),
            )))
        }
    };
    if let Some(d) = module_diff(&module, &m2) {
        return Err(wrap(Fail::new("reload-equal", "module-differs", d)));
    }
    let out2 = no_panic("Module::assemble", || m2.assemble()).map_err(wrap)?;
    ensure!(out2 == out, "fixed-point", "assemble", "assembling the reloaded module gives different words");

    // statistics
    for r in &rp.insts {
        st.set_insert("opcodes", r.opname.clone());
        for (lo, hi) in &r.pads {
            st.set_insert("string_pad_bytes", format!("{}", hi - lo));
        }
    }
    if let R2::Accept(a) = &r2 {
        if a.reordered {
            st.count("accepted_out_of_layout_order");
        }
        if a.hoisted {
            st.count("accepted_hoisted_module_level_inside_function");
        }
        let has_block = a.placement.functions.iter().any(|f| !f.blocks.is_empty());
        if has_block && rp.insts.len() >= 8 {
            st.nontrivial(hash64(bytes));
        }
    }
    st.count("accepted_checked");
    Ok(())
}

/// `modules` with result ids occasionally 0 / 0x7fffffff / 0x80000000 / 0xffffffff
fn sub_edge_ids(input: &[u8], st: &mut Stats) -> R {
    with_edge_ids(|| sub_modules(input, st))
}

fn sub_modules(input: &[u8], st: &mut Stats) -> R {
    let mut cs = Cs::new(input);
    let mode = match cs.below(8) {
        0..=2 => ModMode::Ordered,
        3..=6 => ModMode::Interleaved,
        _ => ModMode::Wild,
    };
    let m = gen_module(&mut cs, mode, 40);
    let (bytes, kinds) = if cs.below(3) == 0 {
        mutate(&mut cs, &m)
    } else {
        (words_to_bytes(&m.words()), vec![])
    };
    check_bytes(&bytes, st, &|| format!("{}mutations: {:?}", m.render(), kinds))?;
    st.sample(|| {
        let mut r = m.render();
        clip(&mut r, 900);
        r
    });
    Ok(())
}

/// modules with structural variations: a text split by byte count over two consecutive
/// string-bearing instructions, modules stored back to back, special words at instruction
/// boundaries, ids around 2^16, swapped and repeated instructions (`layout::mutate2`)
fn sub_structural(input: &[u8], st: &mut Stats) -> R {
    let mut cs = Cs::new(input);
    let mode = match cs.below(8) {
        0..=4 => ModMode::Ordered,
        5..=6 => ModMode::Interleaved,
        _ => ModMode::Wild,
    };
    let m = gen_module(&mut cs, mode, 30);
    let (bytes, kinds) = crate::layout::mutate2(&mut cs, &m);
    for k in &kinds {
        st.count(&format!("structural_{}", k));
    }
    check_bytes(&bytes, st, &|| format!("{}structural edits: {:?}", m.render(), kinds))
}

fn sub_sweep(input: &[u8], st: &mut Stats) -> R {
    let i = idx(input);
    let cases = sweep::cases();
    let Some(case) = cases.get(i as usize) else { return Ok(()) };
    for rep in 0..2u64 {
        if rep > 0 {
            st.evaluations += 1;
        }
        let Some((prelude, p)) = sweep::build(case, i * 8 + rep) else {
            st.count("sweep_skipped");
            continue;
        };
        let words = wrap_in_module(&prelude, &p);
        let bytes = words_to_bytes(&words);
        let before = st.counters.get("accepted_checked").copied().unwrap_or(0);
        check_bytes(&bytes, st, &|| format!("sweep {}: {}", case.what, show_inst(&p.inst())))?;
        let after = st.counters.get("accepted_checked").copied().unwrap_or(0);
        if after > before {
            st.set_insert("sweep_opcodes_accepted", p.opname);
            st.nontrivial(hash64(&bytes));
        }
    }
    Ok(())
}

/// hand-minimised inputs
fn sub_fixed(input: &[u8], st: &mut Stats) -> R {
    let k = idx(input);
    let mut w = header_words((1, 0), 10);
    match k {
        0 => {
            // F2: %1 = OpTypeInt 64 0; %2 = OpFunction %1 None %8; OpFunctionEnd; %4 = OpSpecConstant %2 <64-bit>
            w.extend([0x0004_0015, 1, 64, 0]);
            w.extend([0x0005_0036, 1, 2, 0, 8]);
            w.extend([0x0001_0038]);
            w.extend([0x0005_0032, 2, 4, 0, 0]);
        }
        _ => return Ok(()),
    }
    check_bytes(&words_to_bytes(&w), st, &|| format!("fixed input #{}", k))
}

pub const SUBS: &[Sub] = &[
    Sub { name: "fixed", f: sub_fixed },
    Sub { name: "sweep", f: sub_sweep },
    Sub { name: "modules", f: sub_modules },
    Sub { name: "edge-ids", f: sub_edge_ids },
    Sub { name: "structural-variations", f: sub_structural },
];

pub fn run(ctx: &Ctx) {
    run_regress(ctx, SUBS);
    drive_enum(ctx, &SUBS[0], 1);
    drive_enum(ctx, &SUBS[1], sweep::cases().len() as u64);
    drive_random(ctx, &SUBS[2], ctx.n(40_000, 20_000_000), 1600);
    drive_random(ctx, &SUBS[3], ctx.n(10_000, 5_000_000), 4000);
    drive_random(ctx, &SUBS[4], ctx.n(30_000, 10_000_000), 1600);
    if !ctx.quick() && !ctx.failed() {
        crate::fuzzing::drive_fuzz(ctx, "modules", 300_000);
    }
}

pub fn finish(ctx: &Ctx) -> i32 {
    crate::engine::finish(
        ctx,
        Finish {
            rule: "cases: (a) every sweep instruction (every opcode min/max, every enumerant, mask values, embedded opcodes) inside the smallest well-bracketed module its layout class needs; (b) generated modules: layout-ordered, interleaved (module-level instructions scattered through functions and blocks) and wild, one third with stacked byte-level faults (only inputs the loader accepts are in the domain). Oracle: the reference parser R1 splits the input into instructions with string padding positions, the layout model R2 computes the expected placement; output header carries input version and bound; output instructions, in R2's order, are word-identical to the input instructions modulo bytes after a string's NUL; same count (nothing dropped/invented); reload gives a field-wise equal module and assemble is a fixed point; assemble_into and instruction-by-instruction assembly over all_inst_iter / all_inst_iter_mut give the same words; load_words agrees with load_bytes. non-trivial = accepted module with >= 1 function holding >= 1 block and >= 8 instructions (sweep: accepted wrapper module); distinct = hash of the input bytes. Added in rounds 18-19: structural-variations (texts split over two instructions, modules back to back, special words at instruction boundaries, ids at powers of two and ten, vocabulary prefix); byte slices at addresses 0..3 mod 4; generator word of every registered tool.",
            assumptions: vec![
                "excluded per the statement: OpLine/OpNoLine inside a function outside a block; more than one OpMemoryModel".into(),
                "for opcodes whose module-scope placement is outside the claim (vendor types/constants, module-scope OpExtInst) only the multiset of instructions, header and reload are checked".into(),
            ],
            trusted_base: vec!["reference parser R1".into(), "layout model R2".into(), "golden/api.json".into()],
        },
    )
}
