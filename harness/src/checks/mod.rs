pub mod c02;
pub mod c03;
pub mod c11;
pub mod c04;
