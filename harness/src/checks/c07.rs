//! C07 — disassembly is a complete, unambiguous rendering of the instruction stream.
//! Forward model: the token sequence the statement prescribes for every line.
//! R6: a kind-directed text reader that must reconstruct the instruction stream.

use crate::cs::Cs;
use crate::engine::*;
use crate::golden::{golden, GInst};
use crate::kinds;
use crate::layout::*;
use crate::model::*;
use crate::rs::*;
use rspirv::binary::Disassemble;
use rspirv::dr::{self, Operand};
use rspirv::grammar::{OperandKind as K, OperandQuantifier as Q};
use std::collections::HashMap;

const TOOLS: &[&str] = &[
    "The Khronos Group", "LunarG", "Valve", "Codeplay", "NVIDIA", "ARM", "LLVM/SPIR-V Translator",
    "SPIR-V Tools Assembler", "Glslang", "Qualcomm", "AMD", "Intel", "Imagination", "Shaderc", "spiregg", "rspirv",
];

/// whitespace-separated tokens; a double-quoted string (with backslash escapes) is one token
fn tokenize(line: &str) -> Vec<String> {
    let mut out = vec![];
    let cs: Vec<char> = line.chars().collect();
    let mut i = 0;
    while i < cs.len() {
        if cs[i].is_whitespace() {
            i += 1;
            continue;
        }
        let mut t = String::new();
        if cs[i] == '"' {
            t.push('"');
            i += 1;
            while i < cs.len() {
                if cs[i] == '\\' && i + 1 < cs.len() {
                    t.push(cs[i]);
                    t.push(cs[i + 1]);
                    i += 2;
                    continue;
                }
                t.push(cs[i]);
                if cs[i] == '"' {
                    i += 1;
                    break;
                }
                i += 1;
            }
        } else {
            while i < cs.len() && !cs[i].is_whitespace() {
                t.push(cs[i]);
                i += 1;
            }
        }
        out.push(t);
    }
    out
}

fn enum_name(kind: K, word: u32) -> Option<String> {
    let g = golden();
    let ge = genum(g, kind)?;
    if ge.is_mask {
        if word == 0 {
            return Some("None".to_string());
        }
        let mut names = vec![];
        for b in &ge.bits {
            if word & b.bit != 0 {
                names.push(b.disasm.clone());
            }
        }
        Some(names.join("|"))
    } else {
        let n = ge.enumerant(word)?.name.clone();
        Some(if kind == K::Dim { n.trim_start_matches("Dim").to_string() } else { n })
    }
}

fn operand_token(o: &Operand) -> Option<String> {
    Some(match o {
        Operand::IdRef(v) | Operand::IdScope(v) | Operand::IdMemorySemantics(v) => format!("%{}", v),
        Operand::LiteralBit32(v) => format!("{}", v),
        Operand::LiteralBit64(v) => format!("{}", v),
        Operand::LiteralExtInstInteger(v) => format!("{}", v),
        Operand::LiteralSpecConstantOpInteger(op) => {
            let g = golden();
            g.core[*g.core_by_code.get(&(*op as u32))?].opname.clone()
        }
        Operand::LiteralString(s) => format!("{:?}", s),
        other => {
            for e in kinds::ENUMS {
                if let Some(f) = e.operand_word {
                    if let Some(w) = f(other) {
                        return enum_name(e.kind?, w);
                    }
                }
            }
            return None;
        }
    })
}

#[derive(Default)]
struct Ctx7 {
    tc: TyCtx,
    ext_sets: HashMap<u32, &'static str>,
}

/// A float token must *read back* to exactly the literal (the statement prescribes "as floats", not a
/// spelling): decimal, exponent and C99 hexadecimal-float spellings are read; `0x1p+128` style (value
/// beyond the format's range) reads as infinity. Expected float tokens are therefore markers compared
/// semantically by `tok_eq`, not strings.
const FMARK: char = '\u{1}';

fn parse_hex_float(t: &str) -> Option<f64> {
    let (neg, r) = match t.strip_prefix('-') {
        Some(r) => (true, r),
        None => (false, t.strip_prefix('+').unwrap_or(t)),
    };
    let r = r.strip_prefix("0x").or_else(|| r.strip_prefix("0X"))?;
    let (m, e) = r.split_once(|c| c == 'p' || c == 'P')?;
    let exp: i32 = e.parse().ok()?;
    let (ip, fp) = m.split_once('.').unwrap_or((m, ""));
    if ip.is_empty() && fp.is_empty() {
        return None;
    }
    let mut mant: u128 = 0;
    for c in ip.chars().chain(fp.chars()) {
        mant = mant.checked_mul(16)?.checked_add(c.to_digit(16)? as u128)?;
    }
    let e2 = exp - 4 * fp.len() as i32;
    if mant >= (1u128 << 64) {
        return None;
    }
    let v = (mant as f64) * 2f64.powi(e2);
    Some(if neg { -v } else { v })
}

fn f16_to_f32(h: u16) -> f32 {
    let sign = ((h >> 15) & 1) as u32;
    let exp = ((h >> 10) & 0x1f) as i32;
    let man = (h & 0x3ff) as u32;
    let v = if exp == 0 {
        (man as f32) * 2f32.powi(-24)
    } else if exp == 31 {
        if man == 0 { f32::INFINITY } else { f32::NAN }
    } else {
        (1.0 + man as f32 / 1024.0) * 2f32.powi(exp - 15)
    };
    if sign == 1 { -v } else { v }
}

/// the 32-bit float a token denotes (exactly), if any
fn tok_f32(t: &str) -> Option<f32> {
    if let Some(v) = parse_hex_float(t) {
        let f = v as f32;
        return if f.is_infinite() || f as f64 == v { Some(f) } else { None };
    }
    if t.chars().any(|c| c == 'x' || c == 'X') {
        return None;
    }
    t.parse::<f32>().ok()
}

fn tok_f64(t: &str) -> Option<f64> {
    if let Some(v) = parse_hex_float(t) {
        return Some(v);
    }
    if t.chars().any(|c| c == 'x' || c == 'X') {
        return None;
    }
    t.parse::<f64>().ok()
}

/// How this tree spells a literal of a 16-bit float type: as the IEEE half value of the low 16 bits
/// (`Half`), or as the f32 with the word's bit pattern (`Bits`, what the pinned tree does). Learned
/// once from the library itself; the statement ("floats according to the declared type") admits
/// both, and unambiguity is judged by the read-back and neighbour clauses either way.
#[derive(Clone, Copy, PartialEq, Debug)]
enum F16 {
    Bits,
    Half,
    Unknown,
}

fn f16_convention() -> F16 {
    static C: std::sync::OnceLock<F16> = std::sync::OnceLock::new();
    *C.get_or_init(|| {
        let r = catch(|| {
            let mut b = dr::Builder::new();
            let t = b.type_float(16, None);
            let c = b.constant_bit32(t, 0x3c00);
            let text = b.module().disassemble();
            text.lines().find(|l| l.contains("OpConstant") && l.contains(&format!("%{} =", c))).and_then(|l| tokenize(l).last().cloned())
        });
        match r {
            Ok(Some(tok)) => match tok_f32(&tok) {
                Some(v) if v == 1.0 => F16::Half,
                Some(v) if v.to_bits() == 0x3c00 => F16::Bits,
                _ => F16::Unknown,
            },
            _ => F16::Unknown,
        }
    })
}

/// Does this tree spell the literal of an OpSpecConstant by its declared type (like OpConstant) or
/// as the raw unsigned word? The statement prescribes the typed spelling for OpConstant only and
/// "every operand in order" + readability for the rest, so both are admissible; learned by a probe.
fn spec_constant_typed() -> bool {
    static C: std::sync::OnceLock<bool> = std::sync::OnceLock::new();
    *C.get_or_init(|| {
        catch(|| {
            let mut b = dr::Builder::new();
            let t = b.type_int(32, 1);
            let c = b.spec_constant_bit32(t, 0xffff_ffff);
            let text = b.module().disassemble();
            text.lines().find(|l| l.contains("OpSpecConstant") && l.contains(&format!("%{} =", c))).and_then(|l| tokenize(l).last().cloned())
        })
        .ok()
        .flatten()
        .map(|tok| tok == "-1")
        .unwrap_or(false)
    })
}

fn float_bits32(t: &str, width: u32) -> Vec<u32> {
    // every word the token may stand for under the conventions this tree may use
    let Some(f) = tok_f32(t) else { return vec![] };
    let mut out = vec![];
    let conv = if width == 16 { f16_convention() } else { F16::Bits };
    if conv != F16::Half {
        out.push(f.to_bits());
    }
    if width == 16 && conv != F16::Bits {
        for h in 0..=0xffffu32 {
            // exact inverse of the half decoding (65 536 candidates, only reached for 16-bit floats)
            let d = f16_to_f32(h as u16);
            if d.to_bits() == f.to_bits() || (d == f && d != 0.0) {
                out.push(h);
            }
        }
    }
    out
}

fn tok_eq(got: &str, want: &str) -> bool {
    let Some(m) = want.strip_prefix(FMARK) else { return got == want };
    let mut it = m.split(':');
    let (kind, width, bits) = (it.next().unwrap_or(""), it.next().and_then(|x| x.parse::<u32>().ok()).unwrap_or(32), it.next().and_then(|x| x.parse::<u64>().ok()).unwrap_or(0));
    match kind {
        "F32" => float_bits32(got, width).contains(&(bits as u32)),
        "F64" => tok_f64(got).map(|v| v.to_bits()) == Some(bits),
        _ => false,
    }
}

fn show_want(w: &str) -> String {
    match w.strip_prefix(FMARK) {
        None => w.to_string(),
        Some(m) => {
            let p: Vec<&str> = m.split(':').collect();
            let bits: u64 = p.get(2).and_then(|x| x.parse().ok()).unwrap_or(0);
            if p.first() == Some(&"F64") {
                format!("<a float token reading back to {:?}>", f64::from_bits(bits))
            } else {
                format!("<a float token reading back to the {}-bit float literal {:#x} (as f32 bits: {:?})>", p.get(1).unwrap_or(&"32"), bits, f32::from_bits(bits as u32))
            }
        }
    }
}

fn typed_literal(ty: Option<Ty>, o: &Operand) -> Option<String> {
    Some(match (ty?, o) {
        (Ty::Int(_, true), Operand::LiteralBit32(v)) => format!("{}", *v as i32),
        (Ty::Int(_, false), Operand::LiteralBit32(v)) => format!("{}", v),
        (Ty::Float(w), Operand::LiteralBit32(v)) => format!("{}F32:{}:{}", FMARK, w, v),
        (Ty::Int(_, true), Operand::LiteralBit64(v)) => format!("{}", *v as i64),
        (Ty::Int(_, false), Operand::LiteralBit64(v)) => format!("{}", v),
        (Ty::Float(w), Operand::LiteralBit64(v)) => format!("{}F64:{}:{}", FMARK, w, v),
        _ => return None,
    })
}

/// expected tokens of one instruction line
fn expected_tokens(inst: &dr::Instruction, cx: &Ctx7, in_block: bool) -> Option<Vec<String>> {
    let mut t = vec![];
    if let Some(r) = inst.result_id {
        t.push(format!("%{}", r));
        t.push("=".to_string());
    }
    t.push(format!("Op{}", inst.class.opname));
    if let Some(ty) = inst.result_type {
        t.push(format!("%{}", ty));
    }
    let opname = inst.class.opname;
    for (i, o) in inst.operands.iter().enumerate() {
        if (opname == "Constant" || (opname == "SpecConstant" && spec_constant_typed())) && i == 0 {
            if let Some(s) = typed_literal(inst.result_type.and_then(|x| cx.tc.map.get(&x).copied()), o) {
                t.push(s);
                continue;
            }
        }
        if opname == "ExtInst" && i == 1 && in_block {
            if let (Some(Operand::IdRef(set)), Operand::LiteralExtInstInteger(n)) = (inst.operands.first(), o) {
                if let Some(which) = cx.ext_sets.get(set) {
                    let g = golden();
                    let table = if *which == "glsl" { &g.glsl } else { &g.opencl };
                    if let Some(e) = table.iter().find(|e| e.opcode == *n) {
                        t.push(e.opname.clone());
                        continue;
                    }
                }
            }
        }
        t.push(operand_token(o)?);
    }
    Some(t)
}

// ---------------------------------------------------------------------------
// R6: kind-directed reader of one line back into an instruction

struct Reader<'a> {
    toks: &'a [String],
    pos: usize,
    cx: &'a Ctx7,
    ops: Vec<Operand>,
    in_block: bool,
}

fn parse_id(t: &str) -> Option<u32> {
    t.strip_prefix('%')?.parse().ok()
}

fn unescape(t: &str) -> Option<String> {
    // inverse of Rust's Debug escaping for str
    let inner = t.strip_prefix('"')?.strip_suffix('"')?;
    let mut out = String::new();
    let cs: Vec<char> = inner.chars().collect();
    let mut i = 0;
    while i < cs.len() {
        if cs[i] != '\\' {
            out.push(cs[i]);
            i += 1;
            continue;
        }
        i += 1;
        match cs.get(i)? {
            'n' => out.push('\n'),
            't' => out.push('\t'),
            'r' => out.push('\r'),
            '0' => out.push('\0'),
            '\\' => out.push('\\'),
            '"' => out.push('"'),
            '\'' => out.push('\''),
            'u' => {
                // \u{XXXX}
                if cs.get(i + 1) != Some(&'{') {
                    return None;
                }
                let mut j = i + 2;
                let mut h = String::new();
                while j < cs.len() && cs[j] != '}' {
                    h.push(cs[j]);
                    j += 1;
                }
                out.push(char::from_u32(u32::from_str_radix(&h, 16).ok()?)?);
                i = j;
            }
            _ => return None,
        }
        i += 1;
    }
    Some(out)
}

impl<'a> Reader<'a> {
    fn next(&mut self) -> Option<&'a String> {
        let t = self.toks.get(self.pos);
        if t.is_some() {
            self.pos += 1;
        }
        t
    }
    fn left(&self) -> usize {
        self.toks.len() - self.pos
    }
    fn literal(&mut self, ty: Option<Ty>, signed_typed: bool) -> Option<()> {
        let words = match TyCtx::ty_words(ty) {
            LitW::Words(n) => n,
            LitW::Unsupported => return None,
        };
        let t = self.next()?;
        let o = if signed_typed {
            // OpConstant: rendering follows the declared type
            match (ty, words) {
                (Some(Ty::Int(_, true)), 1) => Operand::LiteralBit32(t.parse::<i32>().ok()? as u32),
                (Some(Ty::Int(_, true)), _) => Operand::LiteralBit64(t.parse::<i64>().ok()? as u64),
                (Some(Ty::Float(w)), 1) => {
                    // one candidate once this tree's 16-bit spelling is known (learned by a probe)
                    Operand::LiteralBit32(*float_bits32(t, w).first()?)
                }
                (Some(Ty::Float(_)), _) => Operand::LiteralBit64(tok_f64(t)?.to_bits()),
                (_, 1) => Operand::LiteralBit32(t.parse::<u32>().ok()?),
                _ => Operand::LiteralBit64(t.parse::<u64>().ok()?),
            }
        } else if words == 1 {
            Operand::LiteralBit32(t.parse::<u32>().ok()?)
        } else {
            Operand::LiteralBit64(t.parse::<u64>().ok()?)
        };
        self.ops.push(o);
        Some(())
    }
    fn kind(&mut self, gi: &GInst, kind: K, rtype: Option<u32>, depth: usize) -> Option<()> {
        match kind {
            K::IdRef => {
                let v = parse_id(self.next()?)?;
                self.ops.push(Operand::IdRef(v));
            }
            K::IdScope => {
                let v = parse_id(self.next()?)?;
                self.ops.push(Operand::IdScope(v));
            }
            K::IdMemorySemantics => {
                let v = parse_id(self.next()?)?;
                self.ops.push(Operand::IdMemorySemantics(v));
            }
            K::LiteralInteger | K::LiteralFloat => {
                let v = self.next()?.parse::<u32>().ok()?;
                self.ops.push(Operand::LiteralBit32(v));
            }
            K::LiteralExtInstInteger => {
                let t = self.next()?;
                let v = match t.parse::<u32>() {
                    Ok(v) => v,
                    Err(_) => {
                        // a name of a tracked extended instruction set
                        let set = match self.ops.first() {
                            Some(Operand::IdRef(s)) => *s,
                            _ => return None,
                        };
                        let which = self.cx.ext_sets.get(&set)?;
                        if !self.in_block {
                            return None;
                        }
                        let g = golden();
                        let table = if *which == "glsl" { &g.glsl } else { &g.opencl };
                        table.iter().find(|e| &e.opname == t)?.opcode
                    }
                };
                self.ops.push(Operand::LiteralExtInstInteger(v));
            }
            K::LiteralString => {
                let s = unescape(self.next()?)?;
                self.ops.push(Operand::LiteralString(s));
            }
            K::LiteralContextDependentNumber => {
                let ty = rtype.and_then(|t| self.cx.tc.map.get(&t).copied());
                self.literal(ty, gi.opname == "Constant" || (gi.opname == "SpecConstant" && spec_constant_typed()))?;
            }
            K::PairLiteralIntegerIdRef => {
                let sel = match self.ops.first() {
                    Some(Operand::IdRef(s)) => *s,
                    _ => return None,
                };
                let ty = self.cx.tc.map.get(&sel).copied();
                self.literal(ty, false)?;
                let v = parse_id(self.next()?)?;
                self.ops.push(Operand::IdRef(v));
            }
            K::PairIdRefLiteralInteger => {
                let a = parse_id(self.next()?)?;
                let b = self.next()?.parse::<u32>().ok()?;
                self.ops.push(Operand::IdRef(a));
                self.ops.push(Operand::LiteralBit32(b));
            }
            K::PairIdRefIdRef => {
                let a = parse_id(self.next()?)?;
                let b = parse_id(self.next()?)?;
                self.ops.push(Operand::IdRef(a));
                self.ops.push(Operand::IdRef(b));
            }
            K::LiteralSpecConstantOpInteger => {
                if depth > 0 {
                    return None;
                }
                let t = self.next()?;
                let g = golden();
                let emb = g.core.iter().find(|i| &i.opname == t)?;
                self.ops.push(Operand::LiteralSpecConstantOpInteger(spirv::Op::from_u32(emb.opcode)?));
                let operands: Vec<(K, Q)> = emb.operands.iter().copied().filter(|(k, _)| *k != K::IdResultType && *k != K::IdResult).collect();
                self.list(emb, &operands, rtype, depth + 1)?;
            }
            K::IdResultType | K::IdResult => return None,
            _ => {
                let g = golden();
                let ge = genum(g, kind)?;
                let t = self.next()?;
                let word = if ge.is_mask {
                    if t == "None" {
                        0
                    } else {
                        let mut w = 0;
                        for part in t.split('|') {
                            let b = ge.bits.iter().find(|b| b.disasm == part)?;
                            if w & b.bit != 0 {
                                return None;
                            }
                            w |= b.bit;
                        }
                        w
                    }
                } else if kind == K::Dim {
                    ge.values.iter().find(|e| e.name == format!("Dim{}", t))?.value
                } else {
                    // the value enums parse through spirv::<Enum>::from_str (incl. aliases)
                    let e = kinds::by_kind(kind)?;
                    (e.from_str?)(t)?
                };
                self.ops.push(enum_operand(kind, word)?);
                let params: Vec<K> = if ge.is_mask {
                    ge.bits.iter().filter(|b| word & b.bit != 0).flat_map(|b| b.params.iter().copied()).collect()
                } else {
                    ge.enumerant(word)?.params.clone()
                };
                for p in params {
                    self.kind(gi, p, rtype, depth + 1)?;
                }
            }
        }
        Some(())
    }
    fn list(&mut self, gi: &GInst, operands: &[(K, Q)], rtype: Option<u32>, depth: usize) -> Option<()> {
        for (k, q) in operands {
            match q {
                Q::One => self.kind(gi, *k, rtype, depth)?,
                Q::ZeroOrOne => {
                    if self.left() == 0 {
                        return Some(());
                    }
                    self.kind(gi, *k, rtype, depth)?
                }
                Q::ZeroOrMore => {
                    while self.left() > 0 {
                        self.kind(gi, *k, rtype, depth)?
                    }
                }
            }
        }
        Some(())
    }
}

fn read_line(toks: &[String], cx: &Ctx7, in_block: bool) -> Option<dr::Instruction> {
    let mut pos = 0;
    let mut rid = None;
    if toks.len() >= 2 && toks[1] == "=" {
        rid = Some(parse_id(&toks[0])?);
        pos = 2;
    }
    let name = toks.get(pos)?.strip_prefix("Op")?;
    pos += 1;
    let g = golden();
    let gi = g.core.iter().find(|i| i.opname == name)?;
    let has_rt = gi.operands.iter().any(|(k, _)| *k == K::IdResultType);
    let has_ri = gi.operands.iter().any(|(k, _)| *k == K::IdResult);
    if has_ri != rid.is_some() {
        return None;
    }
    let mut rtype = None;
    if has_rt {
        rtype = Some(parse_id(toks.get(pos)?)?);
        pos += 1;
    }
    let operands: Vec<(K, Q)> = gi.operands.iter().copied().filter(|(k, _)| *k != K::IdResultType && *k != K::IdResult).collect();
    let mut r = Reader {
        toks: &toks[pos..],
        pos: 0,
        cx,
        ops: vec![],
        in_block,
    };
    r.list(gi, &operands, rtype, 0)?;
    if r.left() != 0 {
        return None;
    }
    Some(crate::rs::mk_inst(spirv::Op::from_u32(gi.opcode)?, rtype, rid, r.ops))
}

// ---------------------------------------------------------------------------

fn has_nan(m: &dr::Module, tc: &TyCtx) -> bool {
    m.all_inst_iter().any(|i| {
        (i.class.opname == "Constant" || (i.class.opname == "SpecConstant" && spec_constant_typed()))
            && matches!(i.result_type.and_then(|t| tc.map.get(&t)), Some(Ty::Float(_)))
            && match i.operands.first() {
                Some(Operand::LiteralBit32(v)) => f32::from_bits(*v).is_nan(),
                Some(Operand::LiteralBit64(v)) => f64::from_bits(*v).is_nan(),
                _ => false,
            }
    })
}

pub fn check_module(m: &dr::Module, st: &mut Stats, decoded: &dyn Fn() -> String) -> R {
    let wrap = |f: Fail| f.with_decoded(decoded());
    let text = no_panic("Module::disassemble", || m.disassemble()).map_err(wrap)?;
    // the disassembler's own contexts: types from types_global_values, sets from ext_inst_imports
    let mut cx = Ctx7::default();
    for t in &m.types_global_values {
        let ow: Vec<u32> = t.operands.iter().filter_map(|o| if let Operand::LiteralBit32(v) = o { Some(*v) } else { None }).collect();
        cx.tc.track(t.class.opname, t.result_type, t.result_id, &ow);
    }
    for i in &m.ext_inst_imports {
        if let (Some(r), Some(Operand::LiteralString(s))) = (i.result_id, i.operands.first()) {
            if s == "GLSL.std.450" {
                cx.ext_sets.insert(r, "glsl");
            } else if s == "OpenCL.std" {
                cx.ext_sets.insert(r, "opencl");
            }
        }
    }
    if has_nan(m, &cx.tc) {
        st.count("excluded_nan_constant");
        return Ok(());
    }
    let lines: Vec<&str> = text.split('\n').collect();
    let mut li = 0;
    if let Some(h) = &m.header {
        let (maj, min) = h.version();
        let tool = TOOLS.get((h.generator >> 16) as usize).copied().unwrap_or("Unknown");
        let want = vec![
            "; SPIR-V".to_string(),
            format!("; Version: {}.{}", maj, min),
            format!("; Generator: {}", tool),
            format!("; Bound: {}", h.bound),
        ];
        for w in want {
            let got = lines.get(li).copied().unwrap_or("<missing>");
            if tokenize(got) != tokenize(&w) {
                return Err(wrap(Fail::new("header-comment", w.split(':').next().unwrap_or("").trim_start_matches("; ").to_string(), format!("header comment line {:?}, expected {:?}", got, w))));
            }
            li += 1;
        }
    }
    let insts: Vec<&dr::Instruction> = m.all_inst_iter().collect();
    let nglobal = m.global_inst_iter().count();
    let body = &lines[li.min(lines.len())..];
    if body.len() != insts.len() && !(insts.is_empty() && body == [""]) {
        return Err(wrap(Fail::new(
            "one-line-per-instruction",
            if body.len() < insts.len() { "fewer-lines" } else { "more-lines" },
            format!("{} instruction lines for {} instructions", body.len(), insts.len()),
        )));
    }
    // which instructions sit in a block (OpExtInst naming applies there)
    let mut in_block_flags = vec![false; insts.len()];
    {
        let mut k = nglobal;
        for f in &m.functions {
            k += f.def.is_some() as usize + f.parameters.len();
            for b in &f.blocks {
                k += b.label.is_some() as usize;
                for _ in &b.instructions {
                    in_block_flags[k] = true;
                    k += 1;
                }
            }
            k += f.end.is_some() as usize;
        }
    }
    // typed domain: every literal consumer sees, in stream order (R3), the same type the
    // whole-module view gives; otherwise the module is outside the stated domain
    {
        let mut tcs = TyCtx::new();
        for inst in &insts {
            let consumer_ty = match inst.class.opname {
                "Constant" | "SpecConstant" => inst.result_type,
                "Switch" => match inst.operands.first() {
                    Some(Operand::IdRef(s)) => Some(*s),
                    _ => None,
                },
                _ => None,
            };
            if let Some(t) = consumer_ty {
                let global = if inst.class.opname == "Switch" { tcs.map.get(&t).copied() } else { cx.tc.map.get(&t).copied() };
                if tcs.map.get(&t).copied() != global {
                    st.count("excluded_type_declared_after_consumer");
                    return Ok(());
                }
            }
            let ow: Vec<u32> = inst.operands.iter().filter_map(|o| if let Operand::LiteralBit32(v) = o { Some(*v) } else { None }).collect();
            tcs.track(inst.class.opname, inst.result_type, inst.result_id, &ow);
        }
    }
    let mut stream_cx = Ctx7 { tc: TyCtx::new(), ext_sets: cx.ext_sets.clone() };
    let mut kinds_seen: Vec<String> = vec![];
    let mut has_string = false;
    let mut has_mask2 = false;
    let mut has_typed_const = false;
    for (k, inst) in insts.iter().enumerate() {
        let line = body[k];
        let toks = tokenize(line);
        let in_block = in_block_flags[k];
        let Some(want) = expected_tokens(inst, &cx, in_block) else {
            return Err(wrap(Fail::new("harness", "expected_tokens", format!("no expected rendering for {}", show_inst(inst)))));
        };
        if toks.len() != want.len() || toks.iter().zip(&want).any(|(a, b)| !tok_eq(a, b)) {
            // which operand kind differs?
            let pos = toks.iter().zip(&want).position(|(a, b)| !tok_eq(a, b)).unwrap_or(toks.len().min(want.len()));
            let head = inst.result_id.map(|_| 2).unwrap_or(0) + 1 + inst.result_type.is_some() as usize;
            let disc = if pos < head {
                "line-head".to_string()
            } else {
                inst.operands.get(pos - head).map(|o| format!("{:?}", o).split('(').next().unwrap_or("").to_string()).unwrap_or_else(|| "operand-count".into())
            };
            return Err(wrap(Fail::new(
                "line-rendering",
                format!("{}:{}", if inst.class.opname == "Constant" || inst.class.opname == "ExtInst" { inst.class.opname } else { "any" }, disc),
                format!("instruction {} is rendered as {:?}, the statement prescribes tokens {:?}", show_inst(inst), line, want.iter().map(|w| show_want(w)).collect::<Vec<_>>()),
            )));
        }
        // R6: reading the text back reconstructs the instruction exactly
        let back = read_line(&toks, &stream_cx, in_block);
        {
            let ow: Vec<u32> = inst.operands.iter().filter_map(|o| if let Operand::LiteralBit32(v) = o { Some(*v) } else { None }).collect();
            stream_cx.tc.track(inst.class.opname, inst.result_type, inst.result_id, &ow);
        }
        match back {
            Some(back) if back == **inst => {}
            other => {
                return Err(wrap(Fail::new(
                    "read-back",
                    inst.class.opname.to_string(),
                    format!("line {:?} reads back as {:?}, the instruction is {}", line, other.as_ref().map(show_inst), show_inst(inst)),
                )));
            }
        }
        for o in &inst.operands {
            let v = format!("{:?}", o);
            let kn = v.split('(').next().unwrap_or("").to_string();
            if kn == "LiteralString" {
                has_string = true;
            }
            for e in kinds::ENUMS {
                if e.is_mask {
                    if let Some(w) = e.operand_word.and_then(|f| f(o)) {
                        if w.count_ones() >= 2 {
                            has_mask2 = true;
                        }
                        st.set_insert("masks_rendered", e.name);
                    }
                }
            }
            kinds_seen.push(kn);
        }
        if inst.class.opname == "Constant" && inst.result_type.map(|t| cx.tc.map.contains_key(&t)).unwrap_or(false) {
            has_typed_const = true;
        }
    }
    for k in kinds_seen {
        st.set_insert("operand_variants_rendered", k);
    }
    if insts.len() >= 10 && has_string && has_mask2 && has_typed_const {
        st.nontrivial(hash_str(&text));
    }
    if has_typed_const {
        st.count("modules_with_typed_constant");
    }
    st.sample(|| {
        let mut t = text.clone();
        clip(&mut t, 700);
        t
    });
    Ok(())
}

/// `modules` with result ids occasionally 0 / 0x7fffffff / 0x80000000 / 0xffffffff
fn sub_edge_ids(input: &[u8], st: &mut Stats) -> R {
    with_edge_ids(|| sub_modules(input, st))
}

fn sub_modules(input: &[u8], st: &mut Stats) -> R {
    let mut cs = Cs::new(input);
    let mode = if cs.bool() { ModMode::Ordered } else { ModMode::Interleaved };
    let gm = gen_module(&mut cs, mode, 60);
    let words = gm.words();
    let Ok(m) = load_words(&words)? else {
        st.count("not_loadable");
        return Ok(());
    };
    // typed domain of C10: literal-bearing instructions after their declarations, ids defined once
    check_module(&m, st, &|| gm.render())
}

/// module *values* that no binary produces: loaded modules with the header, definitions,
/// labels, ends, parameters or whole sections removed (the Builder hands out such modules
/// while a module is under construction)
fn sub_partial(input: &[u8], st: &mut Stats) -> R {
    let mut cs = Cs::new(input);
    let mode = if cs.bool() { ModMode::Ordered } else { ModMode::Interleaved };
    let gm = gen_module(&mut cs, mode, 40);
    let words = gm.words();
    let Ok(mut m) = load_words(&words)? else {
        st.count("not_loadable");
        return Ok(());
    };
    let mut removed = vec![];
    if cs.below(4) == 0 {
        m.header = None;
        removed.push("header".to_string());
    }
    if cs.below(4) == 0 {
        m.memory_model = None;
        removed.push("memory_model".to_string());
    }
    if cs.below(6) == 0 {
        m.types_global_values.clear();
        removed.push("types_global_values".to_string());
    }
    if cs.below(6) == 0 {
        m.ext_inst_imports.clear();
        removed.push("ext_inst_imports".to_string());
    }
    for (fi, f) in m.functions.iter_mut().enumerate() {
        if cs.below(4) == 0 {
            f.def = None;
            removed.push(format!("f{}.def", fi));
        }
        if cs.below(4) == 0 {
            f.end = None;
            removed.push(format!("f{}.end", fi));
        }
        if cs.below(6) == 0 {
            f.parameters.clear();
        }
        if cs.below(8) == 0 {
            f.blocks.clear();
            removed.push(format!("f{}.blocks", fi));
        }
        for (bi, b) in f.blocks.iter_mut().enumerate() {
            if cs.below(4) == 0 {
                b.label = None;
                removed.push(format!("f{}.b{}.label", fi, bi));
            }
            if cs.below(5) == 0 {
                let keep = cs.below(b.instructions.len() + 1);
                b.instructions.truncate(keep);
                removed.push(format!("f{}.b{}.tail", fi, bi));
            }
        }
    }
    if cs.below(8) == 0 {
        m.functions.push(dr::Function::new());
        removed.push("empty function".to_string());
    }
    if !removed.is_empty() {
        st.count("partial_modules");
    }
    // Removing a declaration can leave a 64-bit literal whose type is no longer known: such a
    // value has no counterpart in any binary (the parser yields LiteralBit64 only under a
    // declared 64-bit type) and is outside the statement's reading-back clause.
    {
        let mut tcs = TyCtx::new();
        for inst in m.all_inst_iter() {
            let (ty, lits): (Option<u32>, Vec<&Operand>) = match inst.class.opname {
                "Constant" | "SpecConstant" => (inst.result_type, inst.operands.iter().take(1).collect()),
                "Switch" => (
                    match inst.operands.first() {
                        Some(Operand::IdRef(s)) => Some(*s),
                        _ => None,
                    },
                    inst.operands.iter().skip(2).step_by(2).collect(),
                ),
                _ => (None, vec![]),
            };
            if let Some(t) = ty {
                let wide = matches!(tcs.lit_words(t), LitW::Words(2));
                if lits.iter().any(|o| matches!(o, Operand::LiteralBit64(_)) != wide) {
                    st.count("excluded_literal_left_without_its_type");
                    return Ok(());
                }
            }
            let ow: Vec<u32> = inst.operands.iter().filter_map(|o| if let Operand::LiteralBit32(v) = o { Some(*v) } else { None }).collect();
            tcs.track(inst.class.opname, inst.result_type, inst.result_id, &ow);
        }
    }
    check_module(&m, st, &|| format!("{}removed: {:?}", gm.render(), removed))
}

/// every sweep instruction (all opcodes, enumerants, mask values) in a minimal module
fn sub_sweep(input: &[u8], st: &mut Stats) -> R {
    let i = idx(input);
    let cases = crate::sweep::cases();
    let Some(case) = cases.get(i as usize) else { return Ok(()) };
    let Some((prelude, p)) = crate::sweep::build(case, i * 8 + 1) else { return Ok(()) };
    let words = wrap_in_module(&prelude, &p);
    let Ok(m) = load_words(&words)? else {
        st.count("not_loadable");
        return Ok(());
    };
    check_module(&m, st, &|| format!("sweep {}: {}", case.what, show_inst(&p.inst())))?;
    st.nontrivial(hash_words(&words));
    Ok(())
}

/// metamorphic: a one-step neighbour with a different instruction stream has a different text
fn sub_neighbours(input: &[u8], st: &mut Stats) -> R {
    let mut cs = Cs::new(input);
    let gm = gen_module(&mut cs, ModMode::Ordered, 30);
    let words = gm.words();
    let Ok(m) = load_words(&words)? else { return Ok(()) };
    let mut n = m.clone();
    let total = n.all_inst_iter().count();
    if total == 0 {
        return Ok(());
    }
    let k = cs.below(total);
    let what;
    {
        let inst = n.all_inst_iter_mut().nth(k).unwrap();
        if !inst.operands.is_empty() && cs.bool() {
            let j = cs.below(inst.operands.len());
            what = format!("operand {} of #{}", j, k);
            inst.operands[j] = match &inst.operands[j] {
                Operand::IdRef(v) => Operand::IdRef(v.wrapping_add(1)),
                Operand::IdScope(v) => Operand::IdScope(v.wrapping_add(1)),
                Operand::IdMemorySemantics(v) => Operand::IdMemorySemantics(v.wrapping_add(1)),
                Operand::LiteralBit32(v) => Operand::LiteralBit32(v ^ (1 << cs.below(32))),
                Operand::LiteralBit64(v) => Operand::LiteralBit64(v ^ (1 << cs.below(64))),
                Operand::LiteralExtInstInteger(v) => Operand::LiteralExtInstInteger(v.wrapping_add(1)),
                Operand::LiteralString(s) => Operand::LiteralString(format!("{}{}", s, ["x", " ", "\"", "\\"][cs.below(4)])),
                other => {
                    // another declared value of the same kind
                    let mut repl = other.clone();
                    for e in kinds::ENUMS {
                        if let (Some(f), Some(mk)) = (e.operand_word, e.operand) {
                            if let Some(w) = f(other) {
                                let g = golden().enums.get(e.name).unwrap();
                                let cand = if g.is_mask { w ^ g.bits.first().map(|b| b.bit).unwrap_or(0) } else { g.values[(g.values.iter().position(|x| x.value == w).unwrap_or(0) + 1) % g.values.len()].value };
                                if let Some(o2) = mk(cand) {
                                    repl = o2;
                                }
                            }
                        }
                    }
                    repl
                }
            };
        } else if let Some(r) = inst.result_id {
            what = format!("result id of #{}", k);
            inst.result_id = Some(r.wrapping_add(1000));
        } else {
            what = format!("extra IdRef operand on #{}", k);
            inst.operands.push(Operand::IdRef(1));
        }
    }
    let a: Vec<dr::Instruction> = m.all_inst_iter().cloned().collect();
    let b: Vec<dr::Instruction> = n.all_inst_iter().cloned().collect();
    if a == b {
        st.count("neighbour_identical");
        return Ok(());
    }
    // NaN payloads are excepted by the statement
    let mut tc = TyCtx::new();
    for t in &m.types_global_values {
        let ow: Vec<u32> = t.operands.iter().filter_map(|o| if let Operand::LiteralBit32(v) = o { Some(*v) } else { None }).collect();
        tc.track(t.class.opname, t.result_type, t.result_id, &ow);
    }
    if has_nan(&m, &tc) || has_nan(&n, &tc) {
        st.count("excluded_nan_constant");
        return Ok(());
    }
    let ta = no_panic("Module::disassemble", || m.disassemble())?;
    let tb = no_panic("Module::disassemble", || n.disassemble())?;
    if ta == tb {
        let inst = &a[k];
        return Err(Fail::new(
            "distinct-streams-share-text",
            inst.class.opname.to_string(),
            format!("changing {} ({} -> {}) leaves the disassembly unchanged", what, show_inst(&a[k]), show_inst(&b[k])),
        )
        .with_decoded(ta));
    }
    st.nontrivial(hash_str(&ta) ^ hash_str(&tb));
    Ok(())
}

pub const SUBS: &[Sub] = &[
    Sub { name: "sweep", f: sub_sweep },
    Sub { name: "modules", f: sub_modules },
    Sub { name: "neighbours", f: sub_neighbours },
    Sub { name: "edge-ids", f: sub_edge_ids },
    Sub { name: "partial-modules", f: sub_partial },
];

pub fn run(ctx: &Ctx) {
    run_regress(ctx, SUBS);
    drive_enum(ctx, &SUBS[0], crate::sweep::cases().len() as u64);
    drive_random(ctx, &SUBS[1], ctx.n(30_000, 15_000_000), 2000);
    drive_random(ctx, &SUBS[2], ctx.n(20_000, 10_000_000), 1500);
    drive_random(ctx, &SUBS[3], ctx.n(8_000, 4_000_000), 4000);
    drive_random(ctx, &SUBS[4], ctx.n(8_000, 4_000_000), 2000);
    if !ctx.quick() && !ctx.failed() {
        crate::fuzzing::drive_fuzz(ctx, "modules", 200000);
    }
}

pub fn finish(ctx: &Ctx) -> i32 {
    crate::engine::finish(
        ctx,
        Finish {
            rule: "modules obtained by loading (a) every sweep instruction (all opcodes min/max, every enumerant, mask values incl. pairs and all bits, embedded opcodes) in a minimal module and (b) generated layout-ordered / interleaved modules (typed domain: ids defined once, literal consumers after their type declarations; strings with quotes, backslashes, control and non-ASCII characters; OpExtInst with GLSL.std.450 / OpenCL.std / unknown sets). and (c) partial module values (loaded modules with header / definitions / labels / ends / parameters / sections removed, empty functions). Oracle: (1) header comment = version, tool name from the generator table, bound; exactly one line per instruction of the assembly order; (2) each line tokenises to [%id =] Op<name> [%type] operands where ids print as %n, enumerants by declared names (Dim without prefix), masks as |-joined specification names of the set bits in bit order (None for 0), strings Rust-escaped and quoted, OpConstant literals signed / unsigned / float per the declared type, extended instruction numbers by name for the two known sets; (3) the independent reader R6 reconstructs every instruction from its line; (4) metamorphic: a one-step neighbour with a different instruction stream has a different text. non-trivial = module with >= 10 lines, a string, a mask with >= 2 bits and a typed constant (sweep / neighbours: every checked case); distinct = hash of the text.",
            assumptions: vec!["NaN constants are excluded as the statement does".into(), "whitespace between tokens is not prescribed by the statement and not compared".into()],
            trusted_base: vec!["forward token model + text reader R6".into(), "width model R3".into(), "golden names".into()],
        },
    )
}
