//! C14 — the parser drives the consumer in protocol order and obeys its actions.

use crate::checks::c03;
use crate::cs::Cs;
use crate::engine::*;
use crate::layout::*;
use crate::model::*;
use crate::sweep;
use rspirv::binary::{self, Consumer, ParseAction, ParseState};
use rspirv::dr;
use std::{error, fmt};

#[derive(Debug, Clone, PartialEq)]
enum Ev {
    Init,
    Header(u32, u32),
    Inst(dr::Instruction),
    Fin,
}

#[derive(Debug, PartialEq)]
struct Payload(u64);
impl fmt::Display for Payload {
    fn fmt(&self, f: &mut fmt::Formatter) -> fmt::Result {
        write!(f, "scripted consumer error {}", self.0)
    }
}
impl error::Error for Payload {}

#[derive(Clone, Copy, Debug, PartialEq)]
enum Answer {
    Stop,
    Error(u64),
}

/// The consumer's own error value: its *type* varies with the script (a private type, the parser's
/// own state type, the loader's and the decoder's error types, a nested consumer error, std types) -
/// the statement lets the consumer answer with any error value and promises to carry exactly that one.
fn make_error(v: u64) -> Box<dyn error::Error + Send + Sync> {
    match v % 9 {
        0 | 1 => Box::new(Payload(v)),
        2 => Box::new(ParseState::ConsumerStopRequested),
        3 => Box::new(ParseState::HeaderIncorrect),
        4 => Box::new(ParseState::ConsumerError(Box::new(Payload(v)))),
        5 => Box::new(ParseState::OperandExpected(v as usize & 0xffff, 1)),
        6 => Box::new(dr::Error::NestedFunction),
        7 => Box::new(binary::DecodeError::StreamExpected(v as usize & 0xffff)),
        _ => Box::new(fmt::Error),
    }
}
/// Does the boxed error the parse returned hold exactly the value `make_error(v)` made?
fn same_error(e: &(dyn error::Error + Send + Sync + 'static), v: u64) -> bool {
    match v % 9 {
        0 | 1 => e.downcast_ref::<Payload>() == Some(&Payload(v)),
        2 => matches!(e.downcast_ref::<ParseState>(), Some(ParseState::ConsumerStopRequested)),
        3 => matches!(e.downcast_ref::<ParseState>(), Some(ParseState::HeaderIncorrect)),
        4 => matches!(e.downcast_ref::<ParseState>(), Some(ParseState::ConsumerError(inner)) if inner.downcast_ref::<Payload>() == Some(&Payload(v))),
        5 => matches!(e.downcast_ref::<ParseState>(), Some(ParseState::OperandExpected(a, 1)) if *a == (v as usize & 0xffff)),
        6 => matches!(e.downcast_ref::<dr::Error>(), Some(dr::Error::NestedFunction)),
        7 => matches!(e.downcast_ref::<binary::DecodeError>(), Some(binary::DecodeError::StreamExpected(a)) if *a == (v as usize & 0xffff)),
        _ => e.downcast_ref::<fmt::Error>().is_some(),
    }
}

struct Scripted {
    log: Vec<Ev>,
    /// answer `what` at callback position `at` (0-based); Continue otherwise
    at: Option<(usize, Answer)>,
    answered: bool,
}

impl Scripted {
    fn act(&mut self) -> ParseAction {
        let pos = self.log.len() - 1;
        match self.at {
            Some((p, a)) if p == pos => {
                self.answered = true;
                match a {
                    Answer::Stop => ParseAction::Stop,
                    Answer::Error(v) => ParseAction::Error(make_error(v)),
                }
            }
            _ => ParseAction::Continue,
        }
    }
}

impl Consumer for Scripted {
    fn initialize(&mut self) -> ParseAction {
        self.log.push(Ev::Init);
        self.act()
    }
    fn finalize(&mut self) -> ParseAction {
        self.log.push(Ev::Fin);
        self.act()
    }
    fn consume_header(&mut self, h: dr::ModuleHeader) -> ParseAction {
        self.log.push(Ev::Header(h.version, h.bound));
        self.act()
    }
    fn consume_instruction(&mut self, i: dr::Instruction) -> ParseAction {
        self.log.push(Ev::Inst(i));
        self.act()
    }
}

fn run_scripted(bytes: &[u8], at: Option<(usize, Answer)>, words: bool) -> Result<(Vec<Ev>, Result<(), ParseState>), Fail> {
    no_panic("parse with scripted consumer", || {
        let mut c = Scripted {
            log: vec![],
            at,
            answered: false,
        };
        let r = if words && bytes.len() % 4 == 0 {
            let w = bytes_to_words(bytes);
            binary::parse_words(&w, &mut c)
        } else {
            binary::parse_bytes(crate::rs::Shifted::new(bytes).bytes(), &mut c)
        };
        (c.log, r)
    })
}

fn ev_name(e: &Ev) -> String {
    match e {
        Ev::Init => "initialize".into(),
        Ev::Header(..) => "header".into(),
        Ev::Inst(i) => format!("inst({})", i.class.opname),
        Ev::Fin => "finalize".into(),
    }
}

pub fn check_binary(bytes: &[u8], positions: &[usize], st: &mut Stats, decoded: &dyn Fn() -> String) -> R {
    // baseline: an always-continuing consumer; its relation to the grammar is checked by C03's oracle
    let mut scratch = Stats::new();
    c03::check_bytes(bytes, &mut scratch, decoded)?;
    let (base, base_r) = run_scripted(bytes, None, false)?;
    let wrap = |f: Fail| f.with_decoded(format!("{}\nbaseline callbacks: {:?}", decoded(), base.iter().map(ev_name).collect::<Vec<_>>()));
    // protocol order of the baseline itself
    let got: Vec<String> = base.iter().map(ev_name).collect();
    let expect = |rp: &RParse| -> Result<(), Fail> {
        let mut want: Vec<String> = vec!["initialize".into()];
        if rp.header.is_ok() {
            want.push("header".into());
            for i in &rp.insts {
                want.push(format!("inst({})", i.opname));
            }
        }
        let whole = rp.header.is_ok() && matches!(rp.end, End::Clean);
        if whole {
            want.push("finalize".into());
        }
        let open_tail = matches!(rp.end, End::Stray(_)) || matches!(rp.end, End::Fault { dont_care: true, .. });
        if !open_tail && got != want {
            return Err(Fail::new("protocol-order", if got.len() > want.len() { "extra-callback" } else { "missing-callback" }, format!("callbacks {:?}, expected {:?}", got, want)));
        }
        if open_tail && (got.len() < want.len() || got[..want.len()] != want[..]) {
            return Err(Fail::new("protocol-order", "prefix", format!("callbacks {:?}, expected prefix {:?}", got, want)));
        }
        Ok(())
    };
    let rp = ref_parse(bytes);
    if let Err(f) = expect(&rp) {
        // an id declared twice: either consistent reading of the literal widths (see C03 / C10)
        let alt = if rp.redefined_id { expect(&with_first_wins(|| ref_parse(bytes))).is_ok() } else { false };
        if !alt {
            return Err(wrap(f));
        }
    }
    let fin_count = base.iter().filter(|e| **e == Ev::Fin).count();
    if (base_r.is_ok()) != (fin_count == 1) || fin_count > 1 || base.iter().filter(|e| **e == Ev::Init).count() != 1 {
        return Err(wrap(Fail::new("finalize-iff-complete", "baseline", format!("result {:?} with {} finalize calls", base_r.as_ref().map_err(crate::rs::state_name), fin_count))));
    }
    // loader yields a module only for binaries parsed to the end
    let loaded = crate::rs::load_bytes(bytes)?;
    if loaded.is_ok() && base_r.is_err() {
        return Err(wrap(Fail::new("loader-only-complete", "module-for-partial-parse", "load_bytes returned a module although the parse does not complete".to_string())));
    }
    // scripted stops / errors at every requested position
    for &p in positions {
        for (k, ans) in [Answer::Stop, Answer::Error(0xabc0 + p as u64 + (hash64(bytes) % 9))].into_iter().enumerate() {
            st.evaluations += 1;
            let (log, r) = run_scripted(bytes, Some((p, ans)), k == 1)?;
            if p < base.len() {
                if log.len() != p + 1 || log[..] != base[..p + 1] {
                    let disc = if log.len() > p + 1 { "callback-after-stop" } else { "log-differs" };
                    return Err(wrap(Fail::new("obeys-action", disc, format!("consumer answered {:?} at callback {} ({}), but the callback log is {:?}", ans, p, ev_name(&base[p]), log.iter().map(ev_name).collect::<Vec<_>>()))));
                }
                match (ans, &r) {
                    (Answer::Stop, Err(ParseState::ConsumerStopRequested)) => {}
                    (Answer::Error(v), Err(ParseState::ConsumerError(e))) => {
                        if !same_error(e.as_ref(), v) {
                            return Err(wrap(Fail::new("consumer-error-value", format!("payload-kind-{}", v % 9), format!("ConsumerError does not carry the consumer's own error value (kind {} of make_error): it holds {:?}", v % 9, e))));
                        }
                        st.count(&format!("consumer_error_kind_{}", v % 9));
                    }
                    _ => {
                        return Err(wrap(Fail::new(
                            "obeys-action",
                            format!("{:?}->{}", ans, r.as_ref().map(|_| "Ok".to_string()).unwrap_or_else(|e| crate::rs::state_name(e).split('(').next().unwrap_or("").to_string())),
                            format!("consumer answered {:?} at callback {} but the parse returned {:?}", ans, p, r.as_ref().map_err(crate::rs::state_name)),
                        )));
                    }
                }
                if p >= 1 && p + 1 < base.len() {
                    st.nontrivial(hash64(bytes) ^ ((p as u64) << 48) ^ k as u64);
                }
            } else {
                // the script never fires: same as the baseline
                let same = log == base && format!("{:?}", r) == format!("{:?}", base_r);
                if !same {
                    return Err(wrap(Fail::new("determinism", "unfired-script", "a consumer that always continues got a different callback sequence".to_string())));
                }
            }
        }
    }
    st.evaluations = st.evaluations.saturating_sub(1);
    match &base_r {
        Ok(()) => st.count("binaries_complete"),
        Err(e) => st.count(&format!("binaries_{}", crate::rs::state_name(e).split('(').next().unwrap_or(""))),
    }
    Ok(())
}

/// small modules: EVERY callback position 0..=N+2
fn sub_exhaustive_positions(input: &[u8], st: &mut Stats) -> R {
    let k = idx(input);
    let stream = sweep::stream_for(k ^ 0xc14, 700);
    let mut cs = Cs::new(&stream);
    let mode = match cs.below(3) {
        0 => ModMode::Ordered,
        1 => ModMode::Interleaved,
        _ => ModMode::Wild,
    };
    let m = gen_module(&mut cs, mode, 12);
    let (bytes, kinds) = if k % 3 == 0 {
        (words_to_bytes(&m.words()), vec![])
    } else {
        mutate(&mut cs, &m)
    };
    let n = m.plans.len() + 4;
    let positions: Vec<usize> = (0..n).collect();
    check_binary(&bytes, &positions, st, &|| format!("{}mutations {:?}", m.render(), kinds))?;
    st.sample(|| format!("{} instructions, mutations {:?}, every callback position 0..{}", m.plans.len(), kinds, n));
    Ok(())
}

fn sub_random_positions(input: &[u8], st: &mut Stats) -> R {
    let mut cs = Cs::new(input);
    let mode = match cs.below(3) {
        0 => ModMode::Ordered,
        1 => ModMode::Interleaved,
        _ => ModMode::Wild,
    };
    let m = gen_module(&mut cs, mode, 40);
    let (bytes, kinds) = if cs.bool() {
        (words_to_bytes(&m.words()), vec![])
    } else {
        mutate(&mut cs, &m)
    };
    let n = m.plans.len() + 3;
    let positions: Vec<usize> = (0..3).map(|_| cs.below(n + 1)).collect();
    check_binary(&bytes, &positions, st, &|| format!("{}mutations {:?}", m.render(), kinds))
}

/// binaries under `layout::mutate2` (modules stored back to back, a special word - the magic number,
/// a version word - where an instruction starts, texts split over two instructions, ids around 2^16)
/// with scripted answers at random positions
fn sub_structural(input: &[u8], st: &mut Stats) -> R {
    let mut cs = Cs::new(input);
    let mode = match cs.below(3) {
        0 => ModMode::Ordered,
        1 => ModMode::Interleaved,
        _ => ModMode::Wild,
    };
    let m = gen_module(&mut cs, mode, 24);
    let (bytes, kinds) = crate::layout::mutate2(&mut cs, &m);
    for k in &kinds {
        st.count(&format!("structural_{}", k));
    }
    let n = 2 * m.plans.len() + 8;
    let positions: Vec<usize> = (0..3).map(|_| cs.below(n + 1)).collect();
    check_binary(&bytes, &positions, st, &|| format!("{}structural edits {:?}", m.render(), kinds))
}

pub const SUBS: &[Sub] = &[
    Sub { name: "every-position", f: sub_exhaustive_positions },
    Sub { name: "random-positions", f: sub_random_positions },
    Sub { name: "structural-variations", f: sub_structural },
];

pub fn run(ctx: &Ctx) {
    run_regress(ctx, SUBS);
    drive_enum(ctx, &SUBS[0], ctx.n(1500, 600_000));
    drive_random(ctx, &SUBS[1], ctx.n(20_000, 10_000_000), 1600);
    drive_random(ctx, &SUBS[2], ctx.n(20_000, 10_000_000), 1600);
    if !ctx.quick() && !ctx.failed() {
        crate::fuzzing::drive_fuzz(ctx, "modules", 200000);
    }
}

pub fn finish(ctx: &Ctx) -> i32 {
    crate::engine::finish(
        ctx,
        Finish {
            rule: "cases: binaries from the module generators (well-formed of N instructions, or with byte-level faults, or bad header) x a scripted consumer that answers Continue until callback position p and then Stop or Error(payload): EVERY p from 0 to N+3 on small modules, random p on larger ones; parse_bytes and parse_words alternate. Oracle: the always-continue callback log equals initialize, header, one call per instruction of the reference parser's well-formed prefix, finalize iff the whole binary parsed; with a script at p the log equals the baseline's first p+1 callbacks (nothing after the answer), the result is ConsumerStopRequested / ConsumerError whose boxed error downcasts to exactly the value the script answered with (nine kinds of error value: a private type, the parser's own state type incl. stop-requested and a nested consumer error, the loader's and decoder's error types, fmt::Error); a script that never fires changes nothing; load_bytes yields a module only when the parse completes. non-trivial = scripted answer at a position 1 <= p < last callback; distinct = (binary hash, p, answer kind). Added in rounds 18-19: structural-variations with scripted answers.",
            assumptions: vec!["relation of the baseline to the grammar is C03's oracle (run on every binary here as well)".into()],
            trusted_base: vec!["reference parser R1".into(), "scripted consumer".into()],
        },
    )
}
