//! C16 — opcode classification predicates agree with the SPIR-V specification.

use crate::engine::*;
use crate::golden::golden;
use crate::refclass::{self, Tri};
use rspirv::grammar::reflect;

type Pred = fn(spirv::Op) -> bool;

const PREDS: &[(&str, Pred)] = &[
    ("is_location_debug", reflect::is_location_debug),
    ("is_nonlocation_debug", reflect::is_nonlocation_debug),
    ("is_debug", reflect::is_debug),
    ("is_annotation", reflect::is_annotation),
    ("is_type", reflect::is_type),
    ("is_constant", reflect::is_constant),
    ("is_variable", reflect::is_variable),
    ("is_return", reflect::is_return),
    ("is_abort", reflect::is_abort),
    ("is_return_or_abort", reflect::is_return_or_abort),
    ("is_branch", reflect::is_branch),
    ("is_block_terminator", reflect::is_block_terminator),
];

fn tri(b: bool) -> Tri {
    if b {
        Tri::Yes
    } else {
        Tri::No
    }
}

fn reference(pred: &str, name: &str) -> Tri {
    match pred {
        "is_location_debug" => tri(refclass::is_location_debug(name)),
        "is_nonlocation_debug" => tri(refclass::is_nonlocation_debug(name)),
        "is_debug" => tri(refclass::is_location_debug(name) || refclass::is_nonlocation_debug(name)),
        "is_annotation" => tri(refclass::is_annotation(name)),
        "is_type" => refclass::is_type(name),
        "is_constant" => refclass::is_constant(name),
        "is_variable" => tri(name == "Variable"),
        "is_return" => tri(refclass::is_return(name)),
        "is_abort" => tri(refclass::is_abort(name)),
        "is_return_or_abort" => tri(refclass::is_return(name) || refclass::is_abort(name)),
        "is_branch" => tri(refclass::is_branch(name)),
        "is_block_terminator" => tri(refclass::is_block_terminator(name)),
        _ => Tri::DontCare,
    }
}

fn sub_predicates(input: &[u8], st: &mut Stats) -> R {
    let i = idx(input) as usize;
    let g = golden();
    let Some(gi) = g.core.get(i) else { return Ok(()) };
    let Some(op) = spirv::Op::from_u32(gi.opcode) else {
        return Err(Fail::new("opcode-enum", gi.opname.clone(), "golden opcode not in spirv::Op".to_string()));
    };
    let name = gi.opname.as_str();
    let mut row = vec![];
    for (pn, p) in PREDS {
        let got = no_panic(pn, || p(op))?;
        let want = reference(pn, name);
        row.push((pn, got));
        match want {
            Tri::DontCare => st.count("dontcare_vendor_opcode"),
            w => {
                if tri(got) != w {
                    return Err(Fail::new(
                        "predicate-vs-specification",
                        format!("{}({})", pn, name),
                        format!("{}(Op{}) = {}, the specification's class says {:?}", pn, name, got, w),
                    ));
                }
            }
        }
        st.evaluations += 1;
    }
    st.evaluations -= 1;
    let v = |n: &str| row.iter().find(|(p, _)| **p == n).unwrap().1;
    // derived predicates are the documented unions
    let unions = [
        ("is_debug", v("is_location_debug") || v("is_nonlocation_debug")),
        ("is_return_or_abort", v("is_return") || v("is_abort")),
        ("is_block_terminator", v("is_branch") || v("is_return_or_abort")),
    ];
    for (n, want) in unions {
        if v(n) != want {
            return Err(Fail::new("derived-union", format!("{}({})", n, name), format!("{} is not the documented union for Op{}", n, name)));
        }
    }
    // base classes pairwise disjoint
    let base = [
        "is_location_debug",
        "is_nonlocation_debug",
        "is_annotation",
        "is_type",
        "is_constant",
        "is_variable",
        "is_return",
        "is_abort",
        "is_branch",
    ];
    let hits: Vec<&str> = base.iter().copied().filter(|b| v(b)).collect();
    if hits.len() > 1 {
        return Err(Fail::new("base-disjoint", format!("{}:{:?}", name, hits), format!("Op{} is in several base classes: {:?}", name, hits)));
    }
    if !hits.is_empty() {
        st.nontrivial(hash_str(name));
        st.set_insert("classified_opcodes", format!("{}:{}", hits[0], name));
    }
    Ok(())
}

pub const SUBS: &[Sub] = &[Sub { name: "predicates", f: sub_predicates }];

pub fn run(ctx: &Ctx) {
    run_regress(ctx, &all_subs());
    drive_enum(ctx, &SUBS[0], golden().core.len() as u64);
    crate::checks::builder::c16_run(ctx);
    ctx.exhaustive.store(true, std::sync::atomic::Ordering::Relaxed);
}

pub fn all_subs() -> Vec<Sub> {
    let mut v = SUBS.to_vec();
    v.extend(crate::checks::builder::C16_SUBS.iter().copied());
    v
}

pub fn finish(ctx: &Ctx) -> i32 {
    crate::engine::finish(
        ctx,
        Finish {
            rule: "complete enumeration: all 787 core opcodes x 12 predicate functions (13th clause: the Builder's block-ending behaviour, one call per block-level Builder method with a block open). Oracle: hand-written three-valued reference lists typed from the specification's instruction classes (must-true / must-false / don't-care for vendor opcodes outside the documented classes); derived predicates equal the documented unions; base classes pairwise disjoint; a Builder method leaves no block selected iff is_block_terminator(emitted opcode). non-trivial = opcode belonging to one of the base classes / Builder method call with a block open; distinct = opcode name / method name. Added in rounds 18-19: the Builder sweep in 8 builder states (pinned versions, aliased same-typed arguments) plus one per vocabulary preload code; the opcode actually appended is judged.",
            assumptions: vec!["the reference lists in refclass.rs were typed from the specification and from the grammar's instruction classes as materialised in the Builder's generated files (Type-Declaration, Constant-Creation, Annotation, Debug)".into()],
            trusted_base: vec!["refclass.rs".into()],
        },
    )
}
