//! Domain vocabulary: the texts and names SPIR-V tools know by heart. A maintainer who special-cases
//! a text special-cases one of these; generators that only draw arbitrary strings never say them.

use crate::golden::golden;
use std::sync::OnceLock;

/// extended instruction set names of the SPIR-V registry (and a few near misses)
pub const EXT_SETS: [&str; 18] = [
    "GLSL.std.450",
    "OpenCL.std",
    "SPV_AMD_gcn_shader",
    "SPV_AMD_shader_ballot",
    "SPV_AMD_shader_explicit_vertex_parameter",
    "SPV_AMD_shader_trinary_minmax",
    "DebugInfo",
    "OpenCL.DebugInfo.100",
    "NonSemantic.DebugPrintf",
    "NonSemantic.Shader.DebugInfo.100",
    "NonSemantic.ClspvReflection.5",
    "NonSemantic.DebugBreak",
    "NonSemantic.VkspReflection.1",
    "NonSemantic.",
    "NonSemantic",
    "GLSL.std.451",
    "Some.Unknown.Set",
    "",
];

/// every extension name the grammar snapshot mentions (instructions and enumerants), plus the ones
/// tools special-case without the grammar naming them
pub fn extensions() -> &'static Vec<String> {
    static V: OnceLock<Vec<String>> = OnceLock::new();
    V.get_or_init(|| {
        let g = golden();
        let mut set: std::collections::BTreeSet<String> = Default::default();
        for i in g.core.iter().chain(g.glsl.iter()).chain(g.opencl.iter()) {
            set.extend(i.exts.iter().cloned());
        }
        for e in g.enums.values() {
            for v in &e.values {
                set.extend(v.exts.iter().cloned());
            }
            for b in &e.bits {
                set.extend(b.exts.iter().cloned());
            }
        }
        for x in ["SPV_KHR_non_semantic_info", "SPV_KHR_ray_tracing", "SPV_NV_ray_tracing", "SPV_KHR_vulkan_memory_model", "SPV_KHR_variable_pointers", "SPV_KHR_physical_storage_buffer", "SPV_INTEL_arbitrary_precision_integers", "SPV_INTEL_arbitrary_precision_floating_point", "SPV_KHR_linkonce_odr", "SPV_GOOGLE_hlsl_functionality1", "SPV_GOOGLE_decorate_string", "SPV_GOOGLE_user_type", "SPV_KHR_no_integer_wrap_decoration", "SPV_KHR_expect_assume", "SPV_EXT_descriptor_indexing", "SPV_KHR_8bit_storage", "SPV_KHR_16bit_storage", "SPV_KHR_float_controls", "SPV_AMD_gcn_shader", "SPV_AMD_shader_ballot"] {
            set.insert(x.to_string());
        }
        set.into_iter().collect()
    })
}

/// names people give things
pub const NAMES: [&str; 12] = ["main", "Main", "gl_Position", "gl_PerVertex", "", "main\0", "entry", "kernel", "GLSL", "HLSL", "OpenCL_C", "a.glsl"];

/// every text of the vocabulary
pub fn texts() -> &'static Vec<String> {
    static V: OnceLock<Vec<String>> = OnceLock::new();
    V.get_or_init(|| {
        let mut v: Vec<String> = EXT_SETS.iter().map(|s| s.to_string()).collect();
        v.extend(extensions().iter().cloned());
        v.extend(NAMES.iter().filter(|s| !s.contains('\0')).map(|s| s.to_string()));
        if let Some(c) = golden().enums.get("Capability") {
            v.extend(c.values.iter().map(|x| x.name.clone()));
        }
        v
    })
}

/// number of codes needed so that for every ordered pair (a, b) of distinct items some code selects a
/// and not b: two per bit of the largest index
pub fn codes_for(n: usize) -> usize {
    let mut bits = 1;
    while (1usize << bits) < n.max(2) {
        bits += 1;
    }
    2 * bits
}

/// the sub-list selected by `code`: item i is kept iff bit (code / 2) of i equals code % 2. Over all
/// codes every item is present about half of the time and every "a present, b absent" combination
/// occurs.
pub fn coded_subset<T: Clone>(items: &[T], code: usize) -> Vec<T> {
    let (bit, want) = (code / 2, code % 2);
    items.iter().enumerate().filter(|(i, _)| (i >> bit) & 1 == want).map(|(_, x)| x.clone()).collect()
}
