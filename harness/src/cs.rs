//! Choice stream: every structured generator is a pure function from a byte
//! stream (exhausted => zeros) to a value. proptest generates and shrinks the
//! stream, libFuzzer mutates it, a replay file stores it.
//!
//! Index choices are mapped monotonically (`b * n >> 8`), never with `%`, so
//! shrinking bytes towards zero shrinks towards the first alternative.

pub const AWKWARD_CHARS: &[&str] = &[
    "\u{feff}", "\u{fffe}", "\u{ffff}", "\u{fffd}", "\u{85}", "\u{a0}", "\u{2028}", "\u{2029}", "\u{200b}", "\u{200d}", "\u{202e}", "\u{301}",
    "\u{d7ff}", "\u{e000}", "\u{10000}", "\u{10ffff}", "\u{1f600}", "\u{80}", "\u{7ff}", "\u{800}", "\r", "\r\n", "\u{1b}", "\u{8}", "\u{c}", "\u{b}",
    "\"", "\\", "%", "\u{7f}", "\u{1}", " ", "\t", "\n", "\u{e9}", "\u{20ac}",
];

pub struct Cs<'a> {
    d: &'a [u8],
    p: usize,
}

impl<'a> Cs<'a> {
    pub fn new(d: &'a [u8]) -> Self {
        Cs { d, p: 0 }
    }
    pub fn consumed(&self) -> usize {
        self.p
    }
    pub fn exhausted(&self) -> bool {
        self.p >= self.d.len()
    }
    pub fn u8(&mut self) -> u8 {
        let v = self.d.get(self.p).copied().unwrap_or(0);
        self.p += 1;
        v
    }
    pub fn u16(&mut self) -> u16 {
        let hi = self.u8() as u16;
        let lo = self.u8() as u16;
        (hi << 8) | lo
    }
    pub fn u32(&mut self) -> u32 {
        let hi = self.u16() as u32;
        let lo = self.u16() as u32;
        (hi << 16) | lo
    }
    pub fn u64(&mut self) -> u64 {
        let hi = self.u32() as u64;
        let lo = self.u32() as u64;
        (hi << 32) | lo
    }
    /// Uniform-ish index in 0..n (n >= 1), monotone in the drawn bytes.
    pub fn below(&mut self, n: usize) -> usize {
        if n <= 1 {
            return 0;
        }
        if n <= 256 {
            ((self.u8() as usize) * n) >> 8
        } else if n <= 65536 {
            ((self.u16() as usize) * n) >> 16
        } else {
            (((self.u32() as u64) * (n as u64)) >> 32) as usize
        }
    }
    /// Inclusive range.
    pub fn range(&mut self, lo: usize, hi: usize) -> usize {
        lo + self.below(hi - lo + 1)
    }
    pub fn bool(&mut self) -> bool {
        self.u8() >= 128
    }
    /// true with probability num/256
    pub fn chance(&mut self, num: u32) -> bool {
        (self.u8() as u32) >= 256 - num.min(256)
    }
    pub fn pick<'b, T>(&mut self, xs: &'b [T]) -> &'b T {
        &xs[self.below(xs.len())]
    }
    /// Edge-biased 32-bit literal.
    pub fn lit32(&mut self) -> u32 {
        match self.below(10) {
            0 => 0,
            1 => 1,
            2 => 0x7fff_ffff,
            3 => 0x8000_0000,
            4 => 0xffff_ffff,
            5 => self.u8() as u32,
            6 => 0x3f80_0000, // 1.0f32
            7 => self.u16() as u32,
            _ => self.u32(),
        }
    }
    pub fn lit64(&mut self) -> u64 {
        match self.below(10) {
            0 => 0,
            1 => 1,
            2 => 0x7fff_ffff_ffff_ffff,
            3 => 0x8000_0000_0000_0000,
            4 => u64::MAX,
            5 => 0xffff_ffff,
            6 => 0x1_0000_0000,
            7 => 0x3ff0_0000_0000_0000, // 1.0f64
            _ => self.u64(),
        }
    }
    /// An id from a small pool with occasional outliers.
    pub fn id(&mut self, bound: u32) -> u32 {
        let b = bound.max(2);
        match self.below(16) {
            0 => 0,
            1 => u32::MAX,
            2 => b,
            3 => b + self.u8() as u32,
            _ => 1 + self.below((b - 1) as usize) as u32,
        }
    }
    /// NUL-free string, length 0..=13, with awkward characters.
    pub fn string(&mut self) -> String {
        const ALPH: &[&str] = &[
            "a", "b", "Z", "0", "_", ".", " ", "\"", "\\", "\n", "\t", "\u{7f}", "\u{1}", "é", "ß",
            "€", "\u{10348}", "%", "|", "'", "{", "main", "GLSL.std.450", "OpenCL.std",
        ];
        match self.below(12) {
            0 => return String::new(),
            1 => return "GLSL.std.450".to_string(),
            2 => return "OpenCL.std".to_string(),
            3 => return "main".to_string(),
            _ => {}
        }
        let n = self.below(14);
        let mut s = String::new();
        for _ in 0..n {
            if s.len() >= 13 {
                break;
            }
            // same stream position and bucket as `below(ALPH.len())`; the last raw byte value of the
            // first buckets selects an awkward Unicode character instead (keeps old replays decodable)
            let b = self.u8() as usize;
            let k = (b * ALPH.len()) >> 8;
            const EXTRA: &[&str] = &["\u{feff}", "\u{fffe}", "\u{2028}", "\u{85}", "\u{301}", "\u{d7ff}", "\u{e000}", "\u{10ffff}", "\r", "\u{200b}", "\u{ffff}", "\u{fffd}"];
            if k < EXTRA.len() && (((b + 1) * ALPH.len()) >> 8) != k {
                s.push_str(EXTRA[k]);
            } else {
                s.push_str(ALPH[k]);
            }
        }
        s
    }
    /// Any Rust string: like `string()` but also with NUL characters, longer, and around word boundaries.
    pub fn string_any(&mut self) -> String {
        const ALPH: &[&str] = &["\0", "a", "\0\0", "é", "\u{10348}", "\n", "\"", "\\", "main", " ", "\u{7f}", "€"];
        match self.below(10) {
            0 => return String::new(),
            1 => return "\0".to_string(),
            2 => return format!("{}\0", self.string()),
            3 => return format!("{}\0{}", self.string(), self.string()),
            4 => return self.string(),
            _ => {}
        }
        let n = self.below(40);
        let mut s = String::new();
        for _ in 0..n {
            s.push_str(ALPH[self.below(ALPH.len())]);
        }
        s
    }
    /// Text drawn from the Unicode characters text-handling code tends to treat specially (byte order
    /// mark, noncharacters, the edges of the surrogate gap, line/paragraph separators, zero-width and
    /// combining characters, the last code point) mixed with plain ones; NUL-free, 0..=max characters.
    pub fn text(&mut self, max: usize) -> String {
        let n = self.below(max + 1);
        let mut s = String::new();
        for _ in 0..n {
            if self.bool() {
                s.push_str(AWKWARD_CHARS[self.below(AWKWARD_CHARS.len())]);
            } else {
                s.push((b'a' + self.below(26) as u8) as char);
            }
        }
        s
    }
    /// A count that crosses a power of two an implementation may use as a table or counter size:
    /// mostly just around 2^16 and 2^17, one time in eight around 2^18, one in twenty-four around 2^20.
    pub fn big_count(&mut self) -> usize {
        match self.below(24) {
            0 => 1_048_570 + self.below(12),
            1 | 2 | 3 => 262_138 + self.below(12),
            4..=8 => 65_530 + self.below(16),
            9..=11 => 65_535 + self.below(4),
            12..=15 => 131_066 + self.below(12),
            16..=19 => 65_537 + self.below(5_000),
            _ => 66_000 + self.below(69_000),
        }
    }
    /// ASCII string with exactly `n` bytes.
    pub fn ascii_exact(&mut self, n: usize) -> String {
        (0..n)
            .map(|_| (b'a' + self.below(26) as u8) as char)
            .collect()
    }
}
