//! vharness: property-based testing / fuzzing machinery for gfx-rs/rspirv.
pub mod cs;
pub mod engine;
pub mod golden;
pub mod kinds;
