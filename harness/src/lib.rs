//! vharness: property-based testing / fuzzing machinery for gfx-rs/rspirv.
pub mod cs;
pub mod engine;
pub mod golden;
pub mod kinds;
pub mod checks;
pub mod layout;
pub mod model;
pub mod refclass;
pub mod rs;
pub mod sweep;
pub mod vocab;
pub mod bcalls;
pub mod fuzzing;
