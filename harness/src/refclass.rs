//! Hand-written instruction-class lists, typed from the SPIR-V specification
//! (unified1) sections "Instructions" / "Logical Layout of a Module" /
//! "Block Termination Instructions". Independent of `grammar::reflect`.
//! Three-valued where vendor extensions leave the class to context.

#[derive(Clone, Copy, PartialEq, Eq, Debug)]
pub enum Tri {
    Yes,
    No,
    DontCare,
}

fn any(name: &str, list: &[&str]) -> bool {
    list.iter().any(|x| *x == name)
}

/// Type-Declaration class.
pub const TYPE_DECL: &[&str] = &[
    "TypeVoid",
    "TypeBool",
    "TypeInt",
    "TypeFloat",
    "TypeVector",
    "TypeMatrix",
    "TypeImage",
    "TypeSampler",
    "TypeSampledImage",
    "TypeArray",
    "TypeRuntimeArray",
    "TypeStruct",
    "TypeOpaque",
    "TypePointer",
    "TypeFunction",
    "TypeEvent",
    "TypeDeviceEvent",
    "TypeReserveId",
    "TypeQueue",
    "TypePipe",
    "TypeForwardPointer",
    "TypePipeStorage",
    "TypeNamedBarrier",
    "TypeUntypedPointerKHR",
    "TypeCooperativeMatrixKHR",
    "TypeRayQueryKHR",
    "TypeAccelerationStructureKHR",
    "TypeNodePayloadArrayAMDX",
    "TypeHitObjectNV",
    "TypeCooperativeVectorNV",
    "TypeCooperativeMatrixNV",
    "TypeTensorLayoutNV",
    "TypeTensorViewNV",
    "TypeBufferSurfaceINTEL",
    "TypeStructContinuedINTEL",
];

/// Vendor opcodes named OpType... which the grammar excludes from the
/// documented classes (SPV_INTEL_device_side_avc_motion_estimation): don't-care.
pub fn type_dont_care(name: &str) -> bool {
    name.starts_with("TypeAvc") || name == "TypeVmeImageINTEL"
}

/// Constant-Creation class.
pub const CONSTANT: &[&str] = &[
    "ConstantTrue",
    "ConstantFalse",
    "Constant",
    "ConstantComposite",
    "ConstantSampler",
    "ConstantNull",
    "SpecConstantTrue",
    "SpecConstantFalse",
    "SpecConstant",
    "SpecConstantComposite",
    "SpecConstantOp",
    "ConstantCompositeReplicateEXT",
    "SpecConstantCompositeReplicateEXT",
    "ConstantCompositeContinuedINTEL",
    "SpecConstantCompositeContinuedINTEL",
];

pub const CONSTANT_DONT_CARE: &[&str] = &[
    "ConstantPipeStorage",
    "ConstantStringAMDX",
    "SpecConstantStringAMDX",
    "ConstantFunctionPointerINTEL",
];

/// Annotation class.
pub const ANNOTATION: &[&str] = &[
    "Decorate",
    "MemberDecorate",
    "DecorationGroup",
    "GroupDecorate",
    "GroupMemberDecorate",
    "DecorateId",
    "DecorateString",
    "MemberDecorateString",
];

pub const LOCATION_DEBUG: &[&str] = &["Line", "NoLine"];

pub const NONLOCATION_DEBUG: &[&str] = &[
    "SourceContinued",
    "Source",
    "SourceExtension",
    "Name",
    "MemberName",
    "String",
    "ModuleProcessed",
];

pub const RETURN: &[&str] = &["Return", "ReturnValue"];

/// Block terminators that end the invocation / are not a branch or return.
pub const ABORT: &[&str] = &[
    "Kill",
    "Unreachable",
    "TerminateInvocation",
    "IgnoreIntersectionKHR",
    "TerminateRayKHR",
    "EmitMeshTasksEXT",
];

pub const BRANCH: &[&str] = &["Branch", "BranchConditional", "Switch"];

pub fn is_type(name: &str) -> Tri {
    if any(name, TYPE_DECL) {
        Tri::Yes
    } else if type_dont_care(name) {
        Tri::DontCare
    } else {
        Tri::No
    }
}
pub fn is_constant(name: &str) -> Tri {
    if any(name, CONSTANT) {
        Tri::Yes
    } else if any(name, CONSTANT_DONT_CARE) {
        Tri::DontCare
    } else {
        Tri::No
    }
}
pub fn is_annotation(name: &str) -> bool {
    any(name, ANNOTATION)
}
pub fn is_location_debug(name: &str) -> bool {
    any(name, LOCATION_DEBUG)
}
pub fn is_nonlocation_debug(name: &str) -> bool {
    any(name, NONLOCATION_DEBUG)
}
pub fn is_return(name: &str) -> bool {
    any(name, RETURN)
}
pub fn is_abort(name: &str) -> bool {
    any(name, ABORT)
}
pub fn is_branch(name: &str) -> bool {
    any(name, BRANCH)
}
pub fn is_block_terminator(name: &str) -> bool {
    is_branch(name) || is_return(name) || is_abort(name)
}

/// Layout class of an opcode for the loader model R2.
#[derive(Clone, Copy, PartialEq, Eq, Debug, PartialOrd, Ord, Hash)]
pub enum Layout {
    Capability,
    Extension,
    ExtInstImport,
    MemoryModel,
    EntryPoint,
    ExecutionMode,
    DebugStringSource,
    DebugName,
    ModuleProcessed,
    Annotation,
    TypeConst,
    Line,
    VarUndef,
    Function,
    FunctionEnd,
    Parameter,
    Label,
    Terminator,
    /// anything else: must sit inside an open block
    Block,
    /// module scope only by vendor extension / context: outside the claim
    DontCare,
    /// block instruction when a block is open; at module scope outside the claim
    BlockOrDontCare,
}

pub fn layout(name: &str) -> Layout {
    match name {
        "Capability" => Layout::Capability,
        "Extension" => Layout::Extension,
        "ExtInstImport" => Layout::ExtInstImport,
        "MemoryModel" => Layout::MemoryModel,
        "EntryPoint" => Layout::EntryPoint,
        "ExecutionMode" | "ExecutionModeId" => Layout::ExecutionMode,
        "String" | "SourceExtension" | "Source" | "SourceContinued" => Layout::DebugStringSource,
        "Name" | "MemberName" => Layout::DebugName,
        "ModuleProcessed" => Layout::ModuleProcessed,
        "Line" | "NoLine" => Layout::Line,
        "Variable" | "Undef" => Layout::VarUndef,
        "Function" => Layout::Function,
        "FunctionEnd" => Layout::FunctionEnd,
        "FunctionParameter" => Layout::Parameter,
        "Label" => Layout::Label,
        _ => {
            if is_annotation(name) {
                Layout::Annotation
            } else if is_type(name) == Tri::Yes || is_constant(name) == Tri::Yes {
                Layout::TypeConst
            } else if is_type(name) == Tri::DontCare || is_constant(name) == Tri::DontCare {
                Layout::DontCare
            } else if layout_dont_care(name) {
                Layout::BlockOrDontCare
            } else if is_block_terminator(name) {
                Layout::Terminator
            } else {
                Layout::Block
            }
        }
    }
}

/// Opcodes that extensions allow (or require) at module scope although no core
/// layout section is assigned to them by opcode alone.
pub fn layout_dont_care(name: &str) -> bool {
    matches!(
        name,
        "ExtInst"
            | "ExtInstWithForwardRefsKHR"
            | "SamplerImageAddressingModeNV"
            | "AsmTargetINTEL"
            | "AsmINTEL"
            | "AliasDomainDeclINTEL"
            | "AliasScopeDeclINTEL"
            | "AliasScopeListDeclINTEL"
            | "ConditionalExtensionINTEL"
            | "ConditionalEntryPointINTEL"
            | "ConditionalCapabilityINTEL"
    )
}
