use vharness::bcalls::*;
fn main() {
    let ms = methods();
    let mut counts = std::collections::BTreeMap::new();
    for m in ms {
        *counts.entry(format!("{:?}", m.kind)).or_insert(0) += 1;
    }
    println!("{} methods {:?}", ms.len(), counts);
    for m in ms {
        if m.kind == MKind::Other {
            println!("OTHER {} callable={} gi={:?} params={:?}", m.mi.name, m.mi.call.is_some(), m.gi.map(|g| &g.opname), m.mi.params);
        }
    }
    for m in ms {
        if m.kind == MKind::ModuleLevel {
            print!("{} ", m.mi.name);
        }
    }
    println!();
}
