use vharness::*;

fn main() {
    engine::install_panic_hook();
    let args: Vec<String> = std::env::args().collect();
    if args.len() < 2 {
        eprintln!("usage: vcheck <ID|snapshot> [--tier quick|thorough] [--replay file]");
        std::process::exit(2);
    }
    let cmd = args[1].as_str();
    if cmd == "snapshot" {
        let v = golden::snapshot(16);
        println!("{}", serde_json::to_string_pretty(&v).unwrap());
        return;
    }
    eprintln!("unknown command {}", cmd);
    std::process::exit(2);
}
