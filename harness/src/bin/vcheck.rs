use vharness::engine::{self, Ctx, Sub};
use vharness::*;

fn subs_of(id: &str) -> Option<Vec<Sub>> {
    Some(match id {
        "C05" => checks::c05::SUBS.to_vec(),
        "C18" => checks::c18::SUBS.to_vec(),
        "C07" => checks::c07::SUBS.to_vec(),
        "C20" => checks::c20::SUBS.to_vec(),
        "C10" => checks::c10::SUBS.to_vec(),
        "C17" => checks::c17::SUBS.to_vec(),
        "C14" => checks::c14::SUBS.to_vec(),
        "C15" => checks::c15::SUBS.to_vec(),
        "C08" => checks::c08::SUBS.to_vec(),
        "C09" => checks::c09::SUBS.to_vec(),
        "C19" => checks::c19::SUBS.to_vec(),
        "C06" => checks::builder::C06_SUBS.to_vec(),
        "C12" => checks::builder::C12_SUBS.to_vec(),
        "C13" => checks::builder::C13_SUBS.to_vec(),
        "C16" => checks::c16::all_subs(),
        "C01" => checks::c01::SUBS.to_vec(),
        "C02" => checks::c02::SUBS.to_vec(),
        "C03" => checks::c03::SUBS.to_vec(),
        "C04" => checks::c04::SUBS.to_vec(),
        "C11" => checks::c11::SUBS.to_vec(),
        _ => return None,
    })
}

fn main() {
    engine::install_panic_hook();
    let args: Vec<String> = std::env::args().collect();
    if args.len() < 2 {
        eprintln!("usage: vcheck <ID|snapshot> [--tier quick|thorough] [--replay file]");
        std::process::exit(2);
    }
    let cmd = args[1].as_str();
    if cmd == "snapshot" {
        let v = golden::snapshot(16);
        println!("{}", serde_json::to_string_pretty(&v).unwrap());
        return;
    }
    if cmd == "snapshot-lift" {
        let v = checks::c18::snapshot_subset();
        println!("{}", serde_json::to_string_pretty(&v).unwrap());
        return;
    }
    let mut tier = std::env::var("VERIF_TIER").unwrap_or_else(|_| "quick".to_string());
    let mut replay: Option<String> = None;
    let mut i = 2;
    while i < args.len() {
        match args[i].as_str() {
            "--tier" => {
                tier = args.get(i + 1).cloned().unwrap_or(tier);
                i += 1;
            }
            "--replay" => {
                replay = args.get(i + 1).cloned();
                i += 1;
            }
            _ => {}
        }
        i += 1;
    }
    let Some(mut subs) = subs_of(cmd) else {
        eprintln!("unknown property {}", cmd);
        std::process::exit(2);
    };
    subs.extend(fuzzing::subs_for(cmd));
    let ctx = Ctx::new(cmd, &tier);
    // watchdog: a budget hit is inconclusive (exit 2), never a violation
    let limit = std::env::var("VERIF_WATCHDOG_S")
        .ok()
        .and_then(|s| s.parse::<u64>().ok())
        .unwrap_or(if tier == "thorough" { 6 * 3600 } else { 1800 });
    std::thread::spawn(move || {
        std::thread::sleep(std::time::Duration::from_secs(limit));
        eprintln!("watchdog: time budget of {} s exhausted (inconclusive)", limit);
        std::process::exit(2);
    });
    if let Some(path) = replay {
        std::process::exit(engine::replay_file(&ctx, &subs, &path));
    }
    println!("== {} ({}) seed={} threads={}", cmd, tier, ctx.seed, ctx.threads);
    let code = match cmd {
        "C02" => {
            checks::c02::run(&ctx);
            checks::c02::finish(&ctx)
        }
        "C03" => {
            checks::c03::run(&ctx);
            checks::c03::finish(&ctx)
        }
        "C11" => {
            checks::c11::run(&ctx);
            checks::c11::finish(&ctx)
        }
        "C04" => {
            checks::c04::run(&ctx);
            checks::c04::finish(&ctx)
        }
        "C01" => {
            checks::c01::run(&ctx);
            checks::c01::finish(&ctx)
        }
        "C05" => {
            checks::c05::run(&ctx);
            checks::c05::finish(&ctx)
        }
        "C16" => {
            checks::c16::run(&ctx);
            checks::c16::finish(&ctx)
        }
        "C06" => {
            checks::builder::c06_run(&ctx);
            checks::builder::c06_finish(&ctx)
        }
        "C12" => {
            checks::builder::c12_run(&ctx);
            checks::builder::c12_finish(&ctx)
        }
        "C13" => {
            checks::builder::c13_run(&ctx);
            checks::builder::c13_finish(&ctx)
        }
        "C08" => {
            checks::c08::run(&ctx);
            checks::c08::finish(&ctx)
        }
        "C09" => {
            checks::c09::run(&ctx);
            checks::c09::finish(&ctx)
        }
        "C19" => {
            checks::c19::run(&ctx);
            checks::c19::finish(&ctx)
        }
        "C14" => {
            checks::c14::run(&ctx);
            checks::c14::finish(&ctx)
        }
        "C15" => {
            checks::c15::run(&ctx);
            checks::c15::finish(&ctx)
        }
        "C10" => {
            checks::c10::run(&ctx);
            checks::c10::finish(&ctx)
        }
        "C17" => {
            checks::c17::run(&ctx);
            checks::c17::finish(&ctx)
        }
        "C20" => {
            checks::c20::run(&ctx);
            checks::c20::finish(&ctx)
        }
        "C07" => {
            checks::c07::run(&ctx);
            checks::c07::finish(&ctx)
        }
        "C18" => {
            checks::c18::run(&ctx);
            checks::c18::finish(&ctx)
        }
        _ => 2,
    };
    std::process::exit(code);
}
