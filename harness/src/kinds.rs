//! Registry of the 45 enumerations and 15 bit-mask types of the `spirv` crate,
//! reached only through their public API.

use rspirv::binary::{DecodeError, Decoder};
use rspirv::dr::Operand;
use rspirv::grammar::OperandKind;
use std::hint::black_box;
use std::str::FromStr;

pub struct EnumInfo {
    pub name: &'static str,
    pub is_mask: bool,
    /// operand kind (None for Op / GLOp / CLOp / DebugPrintFOp)
    pub kind: Option<OperandKind>,
    /// Does the conversion accept this word? Never inspects the produced value.
    pub accepts: fn(u32) -> bool,
    /// from_u32(n) / from_bits(n) converted back to a number.
    pub roundtrip: fn(u32) -> Option<u32>,
    /// Debug rendering of the value for a declared number.
    pub debug: fn(u32) -> Option<String>,
    /// FromStr (value enums that implement it) -> number
    pub from_str: Option<fn(&str) -> Option<u32>>,
    /// dr::Operand carrying the value
    pub operand: Option<fn(u32) -> Option<Operand>>,
    /// the word of an operand of this variant
    pub operand_word: Option<fn(&Operand) -> Option<u32>>,
    /// typed decoder request; Ok(word of the decoded value)
    pub decode: Option<fn(&mut Decoder) -> Result<u32, DecodeError>>,
    /// masks: (name, bits) of every named constant with non-zero bits, in declaration order
    pub mask_names: Option<fn() -> Vec<(String, u32)>>,
    /// masks: all declared bits
    pub mask_all: Option<fn() -> u32>,
    /// masks: from_name
    pub mask_from_name: Option<fn(&str) -> Option<u32>>,
    /// Operand::from(payload) equals the variant and unwrap_* returns the payload
    pub from_unwrap: Option<fn(u32) -> Option<bool>>,
}

macro_rules! value_enum {
    ($t:ident, $dec:ident, $unw:ident) => {
        EnumInfo {
            name: stringify!($t),
            is_mask: false,
            kind: Some(OperandKind::$t),
            accepts: |n| black_box(spirv::$t::from_u32(black_box(n))).is_some(),
            roundtrip: |n| spirv::$t::from_u32(n).map(|v| v as u32),
            debug: |n| spirv::$t::from_u32(n).map(|v| format!("{:?}", v)),
            from_str: Some(|s| spirv::$t::from_str(s).ok().map(|v| v as u32)),
            operand: Some(|n| spirv::$t::from_u32(n).map(Operand::$t)),
            operand_word: Some(|o| match o {
                Operand::$t(v) => Some(*v as u32),
                _ => None,
            }),
            decode: Some(|d| d.$dec().map(|v| v as u32)),
            mask_names: None,
            mask_all: None,
            mask_from_name: None,
            from_unwrap: Some(|n| {
                let v = spirv::$t::from_u32(n)?;
                let o: Operand = v.into();
                Some(o == Operand::$t(v) && o.$unw() == v)
            }),
        }
    };
}

macro_rules! bare_enum {
    ($t:ident) => {
        EnumInfo {
            name: stringify!($t),
            is_mask: false,
            kind: None,
            accepts: |n| black_box(spirv::$t::from_u32(black_box(n))).is_some(),
            roundtrip: |n| spirv::$t::from_u32(n).map(|v| v as u32),
            debug: |n| spirv::$t::from_u32(n).map(|v| format!("{:?}", v)),
            from_str: None,
            operand: None,
            operand_word: None,
            decode: None,
            mask_names: None,
            mask_all: None,
            mask_from_name: None,
            from_unwrap: None,
        }
    };
}

macro_rules! mask_enum {
    ($t:ident, $dec:ident, $unw:ident) => {
        EnumInfo {
            name: stringify!($t),
            is_mask: true,
            kind: Some(OperandKind::$t),
            accepts: |n| spirv::$t::from_bits(n).is_some(),
            roundtrip: |n| spirv::$t::from_bits(n).map(|v| v.bits()),
            debug: |n| spirv::$t::from_bits(n).map(|v| format!("{:?}", v)),
            from_str: None,
            operand: Some(|n| spirv::$t::from_bits(n).map(Operand::$t)),
            operand_word: Some(|o| match o {
                Operand::$t(v) => Some(v.bits()),
                _ => None,
            }),
            decode: Some(|d| d.$dec().map(|v| v.bits())),
            mask_names: Some(|| {
                spirv::$t::all()
                    .iter_names()
                    .map(|(n, v)| (n.to_string(), v.bits()))
                    .collect()
            }),
            mask_all: Some(|| spirv::$t::all().bits()),
            mask_from_name: Some(|s| spirv::$t::from_name(s).map(|v| v.bits())),
            from_unwrap: Some(|n| {
                let v = spirv::$t::from_bits(n)?;
                let o: Operand = v.into();
                Some(o == Operand::$t(v) && o.$unw() == v)
            }),
        }
    };
}

pub static ENUMS: &[EnumInfo] = &[
    value_enum!(SourceLanguage, source_language, unwrap_source_language),
    value_enum!(ExecutionModel, execution_model, unwrap_execution_model),
    value_enum!(AddressingModel, addressing_model, unwrap_addressing_model),
    value_enum!(MemoryModel, memory_model, unwrap_memory_model),
    value_enum!(ExecutionMode, execution_mode, unwrap_execution_mode),
    value_enum!(StorageClass, storage_class, unwrap_storage_class),
    value_enum!(Dim, dim, unwrap_dim),
    value_enum!(SamplerAddressingMode, sampler_addressing_mode, unwrap_sampler_addressing_mode),
    value_enum!(SamplerFilterMode, sampler_filter_mode, unwrap_sampler_filter_mode),
    value_enum!(ImageFormat, image_format, unwrap_image_format),
    value_enum!(ImageChannelOrder, image_channel_order, unwrap_image_channel_order),
    value_enum!(ImageChannelDataType, image_channel_data_type, unwrap_image_channel_data_type),
    value_enum!(FPRoundingMode, fp_rounding_mode, unwrap_fp_rounding_mode),
    value_enum!(FPDenormMode, fp_denorm_mode, unwrap_fp_denorm_mode),
    value_enum!(QuantizationModes, quantization_modes, unwrap_quantization_modes),
    value_enum!(FPOperationMode, fp_operation_mode, unwrap_fp_operation_mode),
    value_enum!(OverflowModes, overflow_modes, unwrap_overflow_modes),
    value_enum!(LinkageType, linkage_type, unwrap_linkage_type),
    value_enum!(AccessQualifier, access_qualifier, unwrap_access_qualifier),
    value_enum!(HostAccessQualifier, host_access_qualifier, unwrap_host_access_qualifier),
    value_enum!(FunctionParameterAttribute, function_parameter_attribute, unwrap_function_parameter_attribute),
    value_enum!(Decoration, decoration, unwrap_decoration),
    value_enum!(BuiltIn, built_in, unwrap_built_in),
    value_enum!(Scope, scope, unwrap_scope),
    value_enum!(GroupOperation, group_operation, unwrap_group_operation),
    value_enum!(KernelEnqueueFlags, kernel_enqueue_flags, unwrap_kernel_enqueue_flags),
    value_enum!(Capability, capability, unwrap_capability),
    value_enum!(RayQueryIntersection, ray_query_intersection, unwrap_ray_query_intersection),
    value_enum!(RayQueryCommittedIntersectionType, ray_query_committed_intersection_type, unwrap_ray_query_committed_intersection_type),
    value_enum!(RayQueryCandidateIntersectionType, ray_query_candidate_intersection_type, unwrap_ray_query_candidate_intersection_type),
    value_enum!(PackedVectorFormat, packed_vector_format, unwrap_packed_vector_format),
    value_enum!(CooperativeMatrixLayout, cooperative_matrix_layout, unwrap_cooperative_matrix_layout),
    value_enum!(CooperativeMatrixUse, cooperative_matrix_use, unwrap_cooperative_matrix_use),
    value_enum!(TensorClampMode, tensor_clamp_mode, unwrap_tensor_clamp_mode),
    value_enum!(InitializationModeQualifier, initialization_mode_qualifier, unwrap_initialization_mode_qualifier),
    value_enum!(LoadCacheControl, load_cache_control, unwrap_load_cache_control),
    value_enum!(StoreCacheControl, store_cache_control, unwrap_store_cache_control),
    value_enum!(NamedMaximumNumberOfRegisters, named_maximum_number_of_registers, unwrap_named_maximum_number_of_registers),
    value_enum!(FPEncoding, fp_encoding, unwrap_fp_encoding),
    value_enum!(CooperativeVectorMatrixLayout, cooperative_vector_matrix_layout, unwrap_cooperative_vector_matrix_layout),
    value_enum!(ComponentType, component_type, unwrap_component_type),
    bare_enum!(Op),
    bare_enum!(GLOp),
    bare_enum!(CLOp),
    bare_enum!(DebugPrintFOp),
    mask_enum!(ImageOperands, image_operands, unwrap_image_operands),
    mask_enum!(FPFastMathMode, fp_fast_math_mode, unwrap_fp_fast_math_mode),
    mask_enum!(SelectionControl, selection_control, unwrap_selection_control),
    mask_enum!(LoopControl, loop_control, unwrap_loop_control),
    mask_enum!(FunctionControl, function_control, unwrap_function_control),
    mask_enum!(MemorySemantics, memory_semantics, unwrap_memory_semantics),
    mask_enum!(MemoryAccess, memory_access, unwrap_memory_access),
    mask_enum!(KernelProfilingInfo, kernel_profiling_info, unwrap_kernel_profiling_info),
    mask_enum!(RayFlags, ray_flags, unwrap_ray_flags),
    mask_enum!(FragmentShadingRate, fragment_shading_rate, unwrap_fragment_shading_rate),
    mask_enum!(RawAccessChainOperands, raw_access_chain_operands, unwrap_raw_access_chain_operands),
    mask_enum!(CooperativeMatrixOperands, cooperative_matrix_operands, unwrap_cooperative_matrix_operands),
    mask_enum!(CooperativeMatrixReduce, cooperative_matrix_reduce, unwrap_cooperative_matrix_reduce),
    mask_enum!(TensorAddressingOperands, tensor_addressing_operands, unwrap_tensor_addressing_operands),
    mask_enum!(MatrixMultiplyAccumulateOperands, matrix_multiply_accumulate_operands, unwrap_matrix_multiply_accumulate_operands),
];

pub fn by_name(name: &str) -> Option<&'static EnumInfo> {
    ENUMS.iter().find(|e| e.name == name)
}

pub fn by_kind(kind: OperandKind) -> Option<&'static EnumInfo> {
    ENUMS.iter().find(|e| e.kind == Some(kind))
}

pub fn kind_name(k: OperandKind) -> String {
    format!("{:?}", k)
}

/// All operand kinds, by name (Debug name of the enum variant).
pub fn kind_from_name(s: &str) -> Option<OperandKind> {
    ALL_KINDS.iter().copied().find(|k| format!("{:?}", k) == s)
}

pub static ALL_KINDS: &[OperandKind] = &[
    OperandKind::ImageOperands,
    OperandKind::FPFastMathMode,
    OperandKind::SelectionControl,
    OperandKind::LoopControl,
    OperandKind::FunctionControl,
    OperandKind::MemorySemantics,
    OperandKind::MemoryAccess,
    OperandKind::KernelProfilingInfo,
    OperandKind::RayFlags,
    OperandKind::FragmentShadingRate,
    OperandKind::RawAccessChainOperands,
    OperandKind::SourceLanguage,
    OperandKind::ExecutionModel,
    OperandKind::AddressingModel,
    OperandKind::MemoryModel,
    OperandKind::ExecutionMode,
    OperandKind::StorageClass,
    OperandKind::Dim,
    OperandKind::SamplerAddressingMode,
    OperandKind::SamplerFilterMode,
    OperandKind::ImageFormat,
    OperandKind::ImageChannelOrder,
    OperandKind::ImageChannelDataType,
    OperandKind::FPRoundingMode,
    OperandKind::FPDenormMode,
    OperandKind::QuantizationModes,
    OperandKind::FPOperationMode,
    OperandKind::OverflowModes,
    OperandKind::LinkageType,
    OperandKind::AccessQualifier,
    OperandKind::HostAccessQualifier,
    OperandKind::FunctionParameterAttribute,
    OperandKind::Decoration,
    OperandKind::BuiltIn,
    OperandKind::Scope,
    OperandKind::GroupOperation,
    OperandKind::KernelEnqueueFlags,
    OperandKind::Capability,
    OperandKind::RayQueryIntersection,
    OperandKind::RayQueryCommittedIntersectionType,
    OperandKind::RayQueryCandidateIntersectionType,
    OperandKind::PackedVectorFormat,
    OperandKind::CooperativeMatrixOperands,
    OperandKind::CooperativeMatrixLayout,
    OperandKind::CooperativeMatrixUse,
    OperandKind::CooperativeMatrixReduce,
    OperandKind::TensorClampMode,
    OperandKind::TensorAddressingOperands,
    OperandKind::InitializationModeQualifier,
    OperandKind::LoadCacheControl,
    OperandKind::StoreCacheControl,
    OperandKind::NamedMaximumNumberOfRegisters,
    OperandKind::MatrixMultiplyAccumulateOperands,
    OperandKind::FPEncoding,
    OperandKind::CooperativeVectorMatrixLayout,
    OperandKind::ComponentType,
    OperandKind::IdResultType,
    OperandKind::IdResult,
    OperandKind::IdMemorySemantics,
    OperandKind::IdScope,
    OperandKind::IdRef,
    OperandKind::LiteralInteger,
    OperandKind::LiteralString,
    OperandKind::LiteralFloat,
    OperandKind::LiteralContextDependentNumber,
    OperandKind::LiteralExtInstInteger,
    OperandKind::LiteralSpecConstantOpInteger,
    OperandKind::PairLiteralIntegerIdRef,
    OperandKind::PairIdRefLiteralInteger,
    OperandKind::PairIdRefIdRef,
];
