//! Generated Builder call sites (build.rs) + argument planning + the expected
//! instruction of a call, derived from the golden grammar.

use crate::cs::Cs;
use crate::golden::{golden, GInst};
use crate::model::{enum_operand, genum, is_special_kind};
use rspirv::dr::{self, Builder, InsertPoint, Operand};
use rspirv::grammar::{OperandKind as K, OperandQuantifier as Q};
use std::collections::{BTreeMap, VecDeque};
use std::sync::OnceLock;

type BuildResult<T> = Result<T, dr::Error>;

#[derive(Clone, Copy, Debug, PartialEq)]
pub enum IP {
    Begin,
    End,
    FromBegin(usize),
    FromEnd(usize),
}

impl IP {
    pub fn to_rs(self) -> InsertPoint {
        match self {
            IP::Begin => InsertPoint::Begin,
            IP::End => InsertPoint::End,
            IP::FromBegin(n) => InsertPoint::FromBegin(n),
            IP::FromEnd(n) => InsertPoint::FromEnd(n),
        }
    }
    /// index at which an instruction lands in a list of length `len`
    pub fn index(self, len: usize) -> usize {
        match self {
            IP::Begin => 0,
            IP::End => len,
            IP::FromBegin(n) => n,
            IP::FromEnd(n) => len - n,
        }
    }
}

#[derive(Clone, Debug, PartialEq)]
pub enum ArgVal {
    Word(u32),
    OptWord(Option<u32>),
    U32(u32),
    U64(u64),
    U8(u8),
    InsertPoint(IP),
    Operands(Vec<Operand>),
    Words(Vec<u32>),
    U32s(Vec<u32>),
    PairsWW(Vec<(u32, u32)>),
    PairsWU(Vec<(u32, u32)>),
    PairsOW(Vec<(Operand, u32)>),
    Str(String),
    OptStr(Option<String>),
    Enum(&'static str, u32),
    OptEnum(&'static str, Option<u32>),
}

pub struct Args {
    pub vals: VecDeque<ArgVal>,
}

macro_rules! take {
    ($self:ident, $pat:pat => $e:expr, $what:expr) => {
        match $self.vals.pop_front() {
            Some($pat) => $e,
            o => panic!("harness: argument plan mismatch, wanted {} got {:?}", $what, o),
        }
    };
}

impl Args {
    pub fn new(v: Vec<ArgVal>) -> Args {
        Args { vals: v.into() }
    }
    pub fn take_word(&mut self) -> u32 {
        take!(self, ArgVal::Word(v) => v, "Word")
    }
    pub fn take_opt_word(&mut self) -> Option<u32> {
        take!(self, ArgVal::OptWord(v) => v, "OptWord")
    }
    pub fn take_u32(&mut self) -> u32 {
        take!(self, ArgVal::U32(v) => v, "U32")
    }
    pub fn take_u64(&mut self) -> u64 {
        take!(self, ArgVal::U64(v) => v, "U64")
    }
    pub fn take_u8(&mut self) -> u8 {
        take!(self, ArgVal::U8(v) => v, "U8")
    }
    pub fn take_insert_point(&mut self) -> InsertPoint {
        take!(self, ArgVal::InsertPoint(v) => v.to_rs(), "InsertPoint")
    }
    pub fn take_operands(&mut self) -> Vec<Operand> {
        take!(self, ArgVal::Operands(v) => v, "Operands")
    }
    pub fn take_words(&mut self) -> Vec<u32> {
        take!(self, ArgVal::Words(v) => v, "Words")
    }
    pub fn take_u32s(&mut self) -> Vec<u32> {
        take!(self, ArgVal::U32s(v) => v, "U32s")
    }
    pub fn take_pairs_ww(&mut self) -> Vec<(u32, u32)> {
        take!(self, ArgVal::PairsWW(v) => v, "PairsWW")
    }
    pub fn take_pairs_wu(&mut self) -> Vec<(u32, u32)> {
        take!(self, ArgVal::PairsWU(v) => v, "PairsWU")
    }
    pub fn take_pairs_ow(&mut self) -> Vec<(Operand, u32)> {
        take!(self, ArgVal::PairsOW(v) => v, "PairsOW")
    }
    pub fn take_string(&mut self) -> String {
        take!(self, ArgVal::Str(v) => v, "Str")
    }
    pub fn take_opt_string(&mut self) -> Option<String> {
        take!(self, ArgVal::OptStr(v) => v, "OptStr")
    }
    pub fn take_enum(&mut self, ty: &str) -> u32 {
        match self.vals.pop_front() {
            Some(ArgVal::Enum(t, v)) if t == ty => v,
            o => panic!("harness: argument plan mismatch, wanted Enum({}) got {:?}", ty, o),
        }
    }
    pub fn take_opt_enum(&mut self, ty: &str) -> Option<u32> {
        match self.vals.pop_front() {
            Some(ArgVal::OptEnum(t, v)) if t == ty => v,
            o => panic!("harness: argument plan mismatch, wanted OptEnum({}) got {:?}", ty, o),
        }
    }
}

#[derive(Clone, Debug)]
pub struct Outcome {
    pub ok: bool,
    pub id: Option<u32>,
    pub err: Option<String>,
}

impl Outcome {
    pub fn unit() -> Outcome {
        Outcome {
            ok: true,
            id: None,
            err: None,
        }
    }
    pub fn id(v: u32) -> Outcome {
        Outcome {
            ok: true,
            id: Some(v),
            err: None,
        }
    }
    pub fn res_id(r: BuildResult<u32>) -> Outcome {
        match r {
            Ok(v) => Outcome::id(v),
            Err(e) => Outcome {
                ok: false,
                id: None,
                err: Some(err_name(&e)),
            },
        }
    }
    pub fn res_unit(r: BuildResult<()>) -> Outcome {
        match r {
            Ok(()) => Outcome::unit(),
            Err(e) => Outcome {
                ok: false,
                id: None,
                err: Some(err_name(&e)),
            },
        }
    }
}

pub fn err_name(e: &dr::Error) -> String {
    let d = format!("{:?}", e);
    d.split('(').next().unwrap_or("").to_string()
}

pub struct MethodInfo {
    pub name: &'static str,
    pub file: &'static str,
    pub receiver: &'static str,
    pub params: &'static [(&'static str, &'static str)],
    pub ret: &'static str,
    pub call: Option<fn(&mut Builder, &mut Args) -> Outcome>,
}

include!(concat!(env!("OUT_DIR"), "/builder_calls.rs"));

// ---------------------------------------------------------------------------
// Method classification

#[derive(Clone, Copy, Debug, PartialEq, Eq, PartialOrd, Ord)]
pub enum MKind {
    /// appends into the selected block: `x(...)` -> BuildResult
    BlockInst,
    /// `insert_x(insert_point, ...)`
    BlockInsert,
    /// ends the block: BuildResult<()>, file autogen_terminator.rs
    Terminator,
    TerminatorInsert,
    /// module-level instruction (always succeeds)
    ModuleLevel,
    /// type_x / type_x_id / type_pointer (dedup)
    Type,
    /// variable / undef / line / no_line: block if selected, else global
    BlockOrGlobal,
    BeginFunction,
    EndFunction,
    BeginBlock,
    FunctionParameter,
    /// not an instruction-emitting method / handled by hand
    Other,
}

pub struct MethodMeta {
    pub mi: &'static MethodInfo,
    pub kind: MKind,
    pub gi: Option<&'static GInst>,
}

fn collapse(s: &str) -> String {
    s.chars()
        .filter(|c| *c != '_')
        .map(|c| c.to_ascii_lowercase())
        .collect()
}

pub fn opname_map() -> &'static BTreeMap<String, &'static GInst> {
    static M: OnceLock<BTreeMap<String, &'static GInst>> = OnceLock::new();
    M.get_or_init(|| {
        let mut m = BTreeMap::new();
        for gi in &golden().core {
            let k = collapse(&gi.opname);
            if m.insert(k.clone(), gi).is_some() {
                panic!("harness: opname collision after collapsing: {}", k);
            }
        }
        m
    })
}

fn method_opname(name: &str) -> Option<&'static GInst> {
    let m = opname_map();
    let special = match name {
        "ret" | "insert_ret" => Some("Return"),
        "ret_value" | "insert_ret_value" => Some("ReturnValue"),
        "begin_function" => Some("Function"),
        "end_function" => Some("FunctionEnd"),
        "begin_block" => Some("Label"),
        "constant_bit32" | "constant_bit64" => Some("Constant"),
        "spec_constant_bit32" | "spec_constant_bit64" => Some("SpecConstant"),
        _ => None,
    };
    if let Some(s) = special {
        return m.get(&collapse(s)).copied();
    }
    let base = name.strip_prefix("insert_").unwrap_or(name);
    if let Some(gi) = m.get(&collapse(base)) {
        return Some(gi);
    }
    if let Some(b) = base.strip_suffix("_id") {
        if base.starts_with("type_") {
            return m.get(&collapse(b)).copied();
        }
    }
    None
}

const NOT_INSTRUCTION: &[&str] = &[
    "new",
    "new_from_module",
    "insert_into_block",
    "insert_types_global_values",
    "pop_instruction",
    "set_version",
    "version",
    "module",
    "module_ref",
    "module_mut",
    "selected_function",
    "selected_block",
    "id",
    "dedup_insert_type",
    "find_return_block_indices",
    "select_function_by_name",
    "select_function",
    "select_block",
    "begin_block_no_label",
];

pub fn methods() -> &'static Vec<MethodMeta> {
    static M: OnceLock<Vec<MethodMeta>> = OnceLock::new();
    M.get_or_init(|| {
        let mut v = vec![];
        for mi in METHODS {
            let mut gi = None;
            let kind = if NOT_INSTRUCTION.contains(&mi.name) || mi.call.is_none() {
                MKind::Other
            } else {
                gi = method_opname(mi.name);
                match (mi.name, gi) {
                    (_, None) => MKind::Other,
                    ("begin_function", _) => MKind::BeginFunction,
                    ("end_function", _) => MKind::EndFunction,
                    ("begin_block", _) => MKind::BeginBlock,
                    ("function_parameter", _) => MKind::FunctionParameter,
                    ("variable", _) | ("undef", _) | ("line", _) | ("no_line", _) => {
                        MKind::BlockOrGlobal
                    }
                    (n, Some(_)) => {
                        let insert = mi.params.first().map(|p| p.1) == Some("InsertPoint");
                        // by what the method emits (its opcode against the specification's lists), not by
                        // the source file it happens to live in or the way its return type is spelled
                        let is_term = crate::refclass::is_block_terminator(gi.map(|g| g.opname.as_str()).unwrap_or(""));
                        if is_term {
                            if insert {
                                MKind::TerminatorInsert
                            } else {
                                MKind::Terminator
                            }
                        } else if n.starts_with("type_") {
                            if n == "type_forward_pointer" || n == "type_opaque" {
                                MKind::ModuleLevel
                            } else {
                                MKind::Type
                            }
                        } else if mi.ret.starts_with("BuildResult") {
                            if insert {
                                MKind::BlockInsert
                            } else {
                                MKind::BlockInst
                            }
                        } else {
                            MKind::ModuleLevel
                        }
                    }
                }
            };
            v.push(MethodMeta { mi, kind, gi });
        }
        v
    })
}

/// The method of that name. A method the syntactic scan of the sources cannot see (spelled by a
/// macro, say) is represented by a placeholder that `Interp::call` / `call_with` skip: the history
/// simply lacks that call (counted), it is not an error of the code under test.
pub fn method(name: &str) -> &'static MethodMeta {
    if let Some(m) = methods().iter().find(|m| m.mi.name == name) {
        return m;
    }
    static ABSENT_INFO: MethodInfo = MethodInfo { name: "<method not visible in the sources>", file: "", receiver: "", params: &[], ret: "", call: None };
    static ABSENT: MethodMeta = MethodMeta { mi: &ABSENT_INFO, kind: MKind::Other, gi: None };
    &ABSENT
}

pub fn is_absent(mm: &MethodMeta) -> bool {
    mm.mi.call.is_none() && mm.mi.name.starts_with('<')
}

// ---------------------------------------------------------------------------
// Argument planning

/// What the planner knows about the history so far.
#[derive(Clone, Debug, Default)]
pub struct Env {
    /// ids obtained from the builder so far (results, b.id())
    pub ids: Vec<u32>,
    /// ids of declared int/float types: (id, words of a literal of that type)
    pub lit_types: Vec<(u32, usize)>,
    /// ids whose literal width is two words (64-bit typed values usable as switch selectors)
    pub wide_values: Vec<u32>,
    /// value ids with a tracked int/float type: (id, words of a literal of that type)
    pub typed_values: Vec<(u32, usize)>,
    /// length of the selected block (for insert points); None = no block selected
    pub block_len: Option<usize>,
    /// grammar-conforming arguments only
    pub conforming: bool,
    /// small argument alphabet (C13: make repeated type requests frequent)
    pub small: bool,
    /// insertion points only at the end of the block (C06: a terminator must stay last)
    pub ip_end_only: bool,
    /// length of every variadic list argument (None: 0-4 elements)
    pub list_len: Option<usize>,
}

pub struct Planned {
    pub args: Vec<ArgVal>,
    /// the explicit result id requested (Some(Some(id))) / None for implicit
    pub explicit_id: Option<u32>,
    /// ids the plan took from `fresh` (the caller must have obtained them from b.id())
    pub fresh_ids: Vec<u32>,
}

fn pick_id(cs: &mut Cs, env: &Env) -> u32 {
    if env.small {
        return 1 + cs.below(4) as u32;
    }
    if env.ids.is_empty() || (!env.conforming && cs.below(8) == 0) {
        if env.conforming {
            // conforming histories may reference any id below the final bound;
            // before any id exists use 1..4 only when the builder will allocate
            // them anyway: keep to known ids (none) -> use a forward reference to 1
            return 1;
        }
        return cs.id(64);
    }
    env.ids[cs.below(env.ids.len())]
}

fn id_operand(kind: K, v: u32) -> Operand {
    match kind {
        K::IdScope => Operand::IdScope(v),
        K::IdMemorySemantics => Operand::IdMemorySemantics(v),
        K::LiteralExtInstInteger => Operand::LiteralExtInstInteger(v),
        _ => Operand::IdRef(v),
    }
}

/// operands for the parameters (golden) of an enumerant / of the set bits of a mask
fn param_operands(cs: &mut Cs, env: &Env, kind: K, value: u32) -> Vec<Operand> {
    let g = golden();
    let Some(ge) = genum(g, kind) else { return vec![] };
    let mut kinds: Vec<K> = vec![];
    if ge.is_mask {
        for b in &ge.bits {
            if value & b.bit != 0 {
                kinds.extend(b.params.iter().copied());
            }
        }
    } else if let Some(e) = ge.enumerant(value) {
        kinds.extend(e.params.iter().copied());
    }
    let mut out = vec![];
    for k in kinds {
        match k {
            K::IdRef | K::IdScope | K::IdMemorySemantics => out.push(id_operand(k, pick_id(cs, env))),
            K::LiteralInteger | K::LiteralFloat => out.push(Operand::LiteralBit32(cs.lit32())),
            K::LiteralString => out.push(Operand::LiteralString(cs.string())),
            other => {
                // nested enum parameter (BuiltIn, FPRoundingMode, LinkageType, ...): parameter-free
                let ge2 = genum(g, other).expect("golden enum for parameter kind");
                let v = if ge2.is_mask {
                    let free: Vec<u32> = ge2.bits.iter().filter(|b| b.params.is_empty()).map(|b| b.bit).collect();
                    if free.is_empty() || cs.below(4) == 0 {
                        0
                    } else {
                        free[cs.below(free.len())]
                    }
                } else {
                    let free: Vec<u32> = ge2.values.iter().filter(|e| e.params.is_empty()).map(|e| e.value).collect();
                    free[cs.below(free.len())]
                };
                out.push(enum_operand(other, v).expect("declared value"));
            }
        }
    }
    out
}

fn has_params(kind: K, value: u32) -> bool {
    let g = golden();
    let Some(ge) = genum(g, kind) else { return false };
    if ge.is_mask {
        ge.bits.iter().any(|b| value & b.bit != 0 && !b.params.is_empty())
    } else {
        ge.enumerant(value).map(|e| !e.params.is_empty()).unwrap_or(false)
    }
}

fn pick_enum_value(cs: &mut Cs, kind: K, allow_params: bool, small: bool) -> u32 {
    let g = golden();
    let ge = genum(g, kind).unwrap_or_else(|| panic!("harness: no golden enum {:?}", kind));
    if ge.is_mask {
        let bits: Vec<u32> = ge
            .bits
            .iter()
            .filter(|b| allow_params || b.params.is_empty())
            .map(|b| b.bit)
            .collect();
        if bits.is_empty() {
            return 0;
        }
        if small {
            return if cs.bool() { 0 } else { bits[0] };
        }
        match cs.below(6) {
            0 => 0,
            1 | 2 => bits[cs.below(bits.len())],
            3 => bits[cs.below(bits.len())] | bits[cs.below(bits.len())],
            4 => bits.iter().fold(0, |a, b| a | b),
            _ => {
                let r = cs.u32();
                bits.iter().enumerate().filter(|(i, _)| (r >> (i % 32)) & 1 == 1).fold(0, |a, (_, b)| a | b)
            }
        }
    } else {
        let vals: Vec<u32> = ge
            .values
            .iter()
            .filter(|e| allow_params || e.params.is_empty())
            .map(|e| e.value)
            .collect();
        if small {
            return vals[cs.below(vals.len().min(2))];
        }
        vals[cs.below(vals.len())]
    }
}

fn enum_ty_name(ty: &str) -> Option<(&'static str, bool)> {
    // "spirv::X" or "Option<spirv::X>" -> (static name, optional)
    let (inner, opt) = match ty.strip_prefix("Option<spirv::").and_then(|x| x.strip_suffix('>')) {
        Some(i) => (i, true),
        None => (ty.strip_prefix("spirv::")?, false),
    };
    if inner == "Word" {
        return None;
    }
    if inner == "Op" {
        return Some(("Op", opt));
    }
    let e = crate::kinds::by_name(inner)?;
    Some((e.name, opt))
}

/// Plans grammar-directed arguments for a generated call site.
/// `fresh` hands out ids obtained from the builder (`b.id()`).
pub fn plan_call(
    cs: &mut Cs,
    mm: &MethodMeta,
    env: &Env,
    fresh: &mut dyn FnMut() -> u32,
) -> Option<Planned> {
    let mi = mm.mi;
    let g = golden();
    let mut args: Vec<ArgVal> = vec![];
    let mut explicit_id = None;
    let mut fresh_ids = vec![];
    // grammar operands excluding result type / id
    let gops: Vec<(K, Q)> = mm
        .gi
        .map(|gi| {
            gi.operands
                .iter()
                .copied()
                .filter(|(k, _)| *k != K::IdResultType && *k != K::IdResult)
                .collect()
        })
        .unwrap_or_default();
    let has_rtype = mm.gi.map(|gi| gi.operands.iter().any(|(k, _)| *k == K::IdResultType)).unwrap_or(false);
    // which parameterised enum parameter is the last one present? decided while walking:
    // first pass: choose presence of optionals
    let mut gi_idx = 0usize;
    let mut stopped = false; // trailing-run rule for optionals
    // indices (into args) of parameterised enum values chosen so far
    let mut parameterised: Vec<(usize, K)> = vec![];
    let mut pending_additional: Option<usize> = None;
    let mut type_words: usize = 1;
    for (pi, (pname, pty)) in mi.params.iter().enumerate() {
        let _ = pi;
        match (*pname, *pty) {
            (_, "InsertPoint") => {
                let len = env.block_len.unwrap_or(0);
                let ip = if env.ip_end_only {
                    match cs.below(3) {
                        0 => IP::End,
                        1 => IP::FromEnd(0),
                        _ => IP::FromBegin(len),
                    }
                } else {
                    match cs.below(6) {
                    0 => IP::Begin,
                    1 | 2 => IP::End,
                    3 => IP::FromBegin(cs.below(len + 1)),
                    _ => IP::FromEnd(cs.below(len + 1)),
                    }
                };
                args.push(ArgVal::InsertPoint(ip));
            }
            ("result_type", "spirv::Word") | ("return_type", "spirv::Word") if has_rtype => {
                // typed literal consumers need a type of the right width
                let v = match mi.name {
                    "constant_bit32" | "spec_constant_bit32" => {
                        let c: Vec<u32> = env.lit_types.iter().filter(|t| t.1 == 1).map(|t| t.0).collect();
                        if !c.is_empty() && cs.below(4) != 0 {
                            c[cs.below(c.len())]
                        } else if env.conforming {
                            // an id that is not an int/float type: a fresh one
                            let f = fresh();
                            fresh_ids.push(f);
                            f
                        } else {
                            pick_id(cs, env)
                        }
                    }
                    "constant_bit64" | "spec_constant_bit64" => {
                        let c: Vec<u32> = env.lit_types.iter().filter(|t| t.1 == 2).map(|t| t.0).collect();
                        if !c.is_empty() {
                            type_words = 2;
                            c[cs.below(c.len())]
                        } else if env.conforming {
                            return None;
                        } else {
                            pick_id(cs, env)
                        }
                    }
                    _ => pick_id(cs, env),
                };
                args.push(ArgVal::Word(v));
            }
            ("result_id", "Option<spirv::Word>")
            | ("function_id", "Option<spirv::Word>")
            | ("label_id", "Option<spirv::Word>") => {
                if cs.below(3) == 0 {
                    let f = fresh();
                    fresh_ids.push(f);
                    explicit_id = Some(f);
                    args.push(ArgVal::OptWord(Some(f)));
                } else {
                    args.push(ArgVal::OptWord(None));
                }
            }
            ("additional_params", _) | ("params", "implAsRef<[u32]>") => {
                pending_additional = Some(args.len());
                // placeholder, filled below
                if *pty == "implAsRef<[u32]>" {
                    args.push(ArgVal::U32s(vec![]));
                } else {
                    args.push(ArgVal::Operands(vec![]));
                }
            }
            (_, ty) => {
                // a grammar operand
                let (kind, quant) = match gops.get(gi_idx) {
                    Some(x) => *x,
                    None => {
                        // hand-written extras without a grammar operand
                        (K::IdRef, Q::One)
                    }
                };
                gi_idx += 1;
                match ty {
                    "spirv::Word" => {
                        let v = if kind == K::LiteralExtInstInteger {
                            cs.below(100) as u32
                        } else if mi.name.contains("switch") && *pname == "selector" {
                            if !env.typed_values.is_empty() && cs.below(3) != 0 {
                                let (id, w) = env.typed_values[cs.below(env.typed_values.len())];
                                type_words = w;
                                id
                            } else if !env.wide_values.is_empty() && cs.below(3) == 0 {
                                type_words = 2;
                                env.wide_values[cs.below(env.wide_values.len())]
                            } else if env.conforming {
                                // a selector without tracked type: an id that is no typed value
                                let f = fresh();
                                fresh_ids.push(f);
                                f
                            } else {
                                pick_id(cs, env)
                            }
                        } else {
                            pick_id(cs, env)
                        };
                        args.push(ArgVal::Word(v));
                    }
                    "Option<spirv::Word>" => {
                        let present = !stopped && cs.bool();
                        if !present {
                            stopped = true;
                        }
                        args.push(ArgVal::OptWord(if present { Some(pick_id(cs, env)) } else { None }));
                    }
                    "u32" => {
                        let v = if env.small {
                            [8u32, 16, 32, 64][cs.below(4)]
                        } else if mi.name.starts_with("type_int") && *pname == "width" {
                            [8u32, 16, 32, 64, 32, 32][cs.below(6)]
                        } else if mi.name.starts_with("type_float") && *pname == "width" {
                            [16u32, 32, 64, 32][cs.below(4)]
                        } else if mi.name.starts_with("type_int") && *pname == "signedness" {
                            cs.below(2) as u32
                        } else {
                            cs.lit32()
                        };
                        args.push(ArgVal::U32(v));
                    }
                    "u64" => args.push(ArgVal::U64(cs.lit64())),
                    "u8" => args.push(ArgVal::U8(cs.u8())),
                    "implInto<String>" => args.push(ArgVal::Str(cs.string())),
                    "Option<implInto<String>>" => {
                        let present = !stopped && cs.bool();
                        if !present {
                            stopped = true;
                        }
                        args.push(ArgVal::OptStr(if present { Some(cs.string()) } else { None }));
                    }
                    "implIntoIterator<Item=spirv::Word>" | "implAsRef<[spirv::Word]>" => {
                        let n = if stopped { 0 } else if let Some(h) = env.list_len { h } else { cs.below(5) };
                        args.push(ArgVal::Words((0..n).map(|_| pick_id(cs, env)).collect()));
                    }
                    "implIntoIterator<Item=u32>" => {
                        let n = if stopped { 0 } else if let Some(h) = env.list_len { h } else { cs.below(5) };
                        args.push(ArgVal::U32s((0..n).map(|_| cs.lit32()).collect()));
                    }
                    "implIntoIterator<Item=(spirv::Word,spirv::Word)>" => {
                        let n = if stopped { 0 } else if let Some(h) = env.list_len { h } else { cs.below(4) };
                        args.push(ArgVal::PairsWW((0..n).map(|_| (pick_id(cs, env), pick_id(cs, env))).collect()));
                    }
                    "implIntoIterator<Item=(spirv::Word,u32)>" => {
                        let n = if stopped { 0 } else if let Some(h) = env.list_len { h } else { cs.below(4) };
                        args.push(ArgVal::PairsWU((0..n).map(|_| (pick_id(cs, env), cs.lit32())).collect()));
                    }
                    "implIntoIterator<Item=(dr::Operand,spirv::Word)>" => {
                        let n = if stopped { 0 } else if let Some(h) = env.list_len { h } else { cs.below(4) };
                        args.push(ArgVal::PairsOW(
                            (0..n)
                                .map(|_| {
                                    let lit = if type_words == 2 {
                                        Operand::LiteralBit64(cs.lit64())
                                    } else {
                                        Operand::LiteralBit32(cs.lit32())
                                    };
                                    (lit, pick_id(cs, env))
                                })
                                .collect(),
                        ));
                    }
                    "implIntoIterator<Item=dr::Operand>" => {
                        // ext_inst operands: ids
                        let n = if stopped { 0 } else if let Some(h) = env.list_len { h } else { cs.below(4) };
                        args.push(ArgVal::Operands((0..n).map(|_| Operand::IdRef(pick_id(cs, env))).collect()));
                    }
                    other => {
                        let Some((ename, opt)) = enum_ty_name(other) else {
                            panic!("harness: unplanned parameter type {} in {}", other, mi.name)
                        };
                        if ename == "Op" {
                            // spec_constant_op: an opcode whose embedded operand list can be empty
                            let c: Vec<u32> = g
                                .core
                                .iter()
                                .filter(|i| {
                                    !i.operands.iter().any(|(k, _)| is_special_kind(*k))
                                        && i.operands.iter().all(|(k, q)| {
                                            *k == K::IdResultType || *k == K::IdResult || *q != Q::One
                                        })
                                })
                                .map(|i| i.opcode)
                                .collect();
                            args.push(ArgVal::Enum("Op", c[cs.below(c.len())]));
                        } else {
                            let k = crate::kinds::kind_from_name(ename).unwrap();
                            debug_assert!(kind == k || !env.conforming || gops.get(gi_idx - 1).is_none(), "{} {:?} {:?}", mi.name, kind, k);
                            if opt {
                                let present = !stopped && cs.bool();
                                if !present {
                                    stopped = true;
                                    args.push(ArgVal::OptEnum(ename, None));
                                } else {
                                    let v = pick_enum_value(cs, k, true, env.small);
                                    parameterised.push((args.len(), k));
                                    args.push(ArgVal::OptEnum(ename, Some(v)));
                                }
                            } else {
                                let _ = quant;
                                let v = pick_enum_value(cs, k, true, env.small);
                                parameterised.push((args.len(), k));
                                args.push(ArgVal::Enum(ename, v));
                            }
                        }
                    }
                }
            }
        }
    }
    // parameters of parameterised enum values: only the last one present may carry
    // parameter bits (single trailing `additional_params`), and only when the method
    // has such a parameter.
    let val_of = |a: &ArgVal| -> Option<u32> {
        match a {
            ArgVal::Enum(_, v) => Some(*v),
            ArgVal::OptEnum(_, v) => *v,
            _ => None,
        }
    };
    let last_param_idx = parameterised.iter().rev().find(|(i, _)| val_of(&args[*i]).is_some()).map(|x| x.0);
    for (i, k) in &parameterised {
        let Some(v) = val_of(&args[*i]) else { continue };
        let may_have = pending_additional.is_some() && Some(*i) == last_param_idx;
        if has_params(*k, v) && !may_have {
            let nv = pick_enum_value(cs, *k, false, env.small);
            match &mut args[*i] {
                ArgVal::Enum(_, x) => *x = nv,
                ArgVal::OptEnum(_, x) => *x = Some(nv),
                _ => {}
            }
        }
    }
    if let Some(ai) = pending_additional {
        let last = parameterised.iter().rev().find(|(i, _)| val_of(&args[*i]).is_some());
        let ops = match last {
            Some((i, k)) => param_operands(cs, env, *k, val_of(&args[*i]).unwrap()),
            None => vec![],
        };
        match &mut args[ai] {
            ArgVal::Operands(v) => *v = ops,
            ArgVal::U32s(v) => {
                // execution_mode(_id): parameters as plain numbers
                let want_ids = mi.name == "execution_mode_id";
                let all_ids = ops.iter().all(|o| matches!(o, Operand::IdRef(_) | Operand::IdScope(_) | Operand::IdMemorySemantics(_)));
                let all_lits = ops.iter().all(|o| matches!(o, Operand::LiteralBit32(_)));
                if env.conforming && ((want_ids && !all_ids) || (!want_ids && !all_lits)) {
                    // re-pick a mode whose parameters fit the signature
                    let (i, k) = *last.unwrap();
                    let ge = genum(g, k).unwrap();
                    let fit: Vec<u32> = ge
                        .values
                        .iter()
                        .filter(|e| {
                            e.params.iter().all(|p| {
                                if want_ids {
                                    matches!(p, K::IdRef | K::IdScope | K::IdMemorySemantics)
                                } else {
                                    matches!(p, K::LiteralInteger | K::LiteralFloat)
                                }
                            })
                        })
                        .map(|e| e.value)
                        .collect();
                    let nv = fit[cs.below(fit.len())];
                    let ops2 = param_operands(cs, env, k, nv);
                    let nums: Vec<u32> = ops2
                        .iter()
                        .map(|o| match o {
                            Operand::IdRef(v) | Operand::IdScope(v) | Operand::IdMemorySemantics(v) | Operand::LiteralBit32(v) => *v,
                            _ => 0,
                        })
                        .collect();
                    if let ArgVal::Enum(_, x) = &mut args[i] {
                        *x = nv;
                    }
                    if let ArgVal::U32s(v) = &mut args[ai] {
                        *v = nums;
                    }
                } else {
                    *v = ops
                        .iter()
                        .map(|o| match o {
                            Operand::IdRef(v) | Operand::IdScope(v) | Operand::IdMemorySemantics(v) | Operand::LiteralBit32(v) => *v,
                            _ => 0,
                        })
                        .collect();
                }
            }
            _ => {}
        }
    }
    Some(Planned {
        args,
        explicit_id,
        fresh_ids,
    })
}

// ---------------------------------------------------------------------------
// Expected instruction of a call

/// The instruction a call must emit: the method's opcode, result type / id and
/// the arguments in grammar order. `result_id` is the id the call returned (or
/// the explicit one).
pub fn expected_inst(mm: &MethodMeta, args: &[ArgVal], result_id: Option<u32>) -> Option<dr::Instruction> {
    let gi = mm.gi?;
    let op = spirv::Op::from_u32(gi.opcode)?;
    let has_rtype = gi.operands.iter().any(|(k, _)| *k == K::IdResultType);
    let has_rid = gi.operands.iter().any(|(k, _)| *k == K::IdResult);
    let gops: Vec<(K, Q)> = gi
        .operands
        .iter()
        .copied()
        .filter(|(k, _)| *k != K::IdResultType && *k != K::IdResult)
        .collect();
    let mut rtype = None;
    let mut ops: Vec<Operand> = vec![];
    let mut tail: Vec<Operand> = vec![];
    let mut gi_idx = 0;
    let mut last_enum: Option<(K, u32)> = None;
    for ((pname, pty), a) in mm.mi.params.iter().zip(args) {
        match (*pname, *pty, a) {
            (_, "InsertPoint", _) => {}
            ("result_type", _, ArgVal::Word(v)) | ("return_type", _, ArgVal::Word(v)) if has_rtype => rtype = Some(*v),
            ("result_id", _, _) | ("function_id", _, _) | ("label_id", _, _) => {}
            ("additional_params", _, ArgVal::Operands(v)) => tail.extend(v.iter().cloned()),
            ("params", "implAsRef<[u32]>", ArgVal::U32s(v)) => {
                // execution_mode takes literal parameters, execution_mode_id takes ids
                let _ = last_enum;
                for x in v {
                    tail.push(if mm.mi.name == "execution_mode_id" {
                        Operand::IdRef(*x)
                    } else {
                        Operand::LiteralBit32(*x)
                    });
                }
            }
            (_, _, a) => {
                let (kind, _q) = gops.get(gi_idx).copied().unwrap_or((K::IdRef, Q::One));
                gi_idx += 1;
                match a {
                    ArgVal::Word(v) => ops.push(id_operand(kind, *v)),
                    ArgVal::OptWord(v) => {
                        if let Some(v) = v {
                            ops.push(id_operand(kind, *v))
                        }
                    }
                    ArgVal::U32(v) => ops.push(Operand::LiteralBit32(*v)),
                    ArgVal::U64(v) => ops.push(Operand::LiteralBit64(*v)),
                    ArgVal::U8(v) => ops.push(Operand::LiteralBit32(*v as u32)),
                    ArgVal::Str(s) => ops.push(Operand::LiteralString(s.clone())),
                    ArgVal::OptStr(s) => {
                        if let Some(s) = s {
                            ops.push(Operand::LiteralString(s.clone()))
                        }
                    }
                    ArgVal::Words(v) => ops.extend(v.iter().map(|x| id_operand(kind, *x))),
                    ArgVal::U32s(v) => ops.extend(v.iter().map(|x| Operand::LiteralBit32(*x))),
                    ArgVal::PairsWW(v) => {
                        for (x, y) in v {
                            ops.push(Operand::IdRef(*x));
                            ops.push(Operand::IdRef(*y));
                        }
                    }
                    ArgVal::PairsWU(v) => {
                        for (x, y) in v {
                            ops.push(Operand::IdRef(*x));
                            ops.push(Operand::LiteralBit32(*y));
                        }
                    }
                    ArgVal::PairsOW(v) => {
                        for (x, y) in v {
                            ops.push(x.clone());
                            ops.push(Operand::IdRef(*y));
                        }
                    }
                    ArgVal::Operands(v) => ops.extend(v.iter().cloned()),
                    ArgVal::Enum("Op", v) => ops.push(Operand::LiteralSpecConstantOpInteger(spirv::Op::from_u32(*v)?)),
                    ArgVal::Enum(t, v) => {
                        let k = crate::kinds::kind_from_name(t)?;
                        last_enum = Some((k, *v));
                        ops.push(enum_operand(k, *v)?)
                    }
                    ArgVal::OptEnum(t, v) => {
                        if let Some(v) = v {
                            let k = crate::kinds::kind_from_name(t)?;
                            last_enum = Some((k, *v));
                            ops.push(enum_operand(k, *v)?)
                        }
                    }
                    ArgVal::InsertPoint(_) => {}
                }
            }
        }
    }
    ops.extend(tail);
    Some(crate::rs::mk_inst(
        op,
        rtype,
        // type methods always carry the (explicit or fresh) id they return, as the builder does
        if has_rid || mm.kind == MKind::Type { result_id } else { None },
        ops,
    ))
}

pub fn render_args(mm: &MethodMeta, args: &[ArgVal]) -> String {
    let mut s = format!("{}(", mm.mi.name);
    for (i, a) in args.iter().enumerate() {
        if i > 0 {
            s.push_str(", ");
        }
        s.push_str(&format!("{:?}", a));
    }
    s.push(')');
    s
}
