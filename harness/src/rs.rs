//! Helpers around rspirv's public API: collecting consumer, guarded calls.

use crate::engine::{no_panic, Fail};
use rspirv::binary::{self, Consumer, ParseAction, ParseState};
use rspirv::dr;

#[derive(Default)]
pub struct Collect {
    pub initialized: u32,
    pub finalized: u32,
    pub headers: Vec<dr::ModuleHeader>,
    pub insts: Vec<dr::Instruction>,
}

impl Consumer for Collect {
    fn initialize(&mut self) -> ParseAction {
        self.initialized += 1;
        ParseAction::Continue
    }
    fn finalize(&mut self) -> ParseAction {
        self.finalized += 1;
        ParseAction::Continue
    }
    fn consume_header(&mut self, h: dr::ModuleHeader) -> ParseAction {
        self.headers.push(h);
        ParseAction::Continue
    }
    fn consume_instruction(&mut self, i: dr::Instruction) -> ParseAction {
        self.insts.push(i);
        ParseAction::Continue
    }
}

/// A copy of `bytes` that starts at an address congruent to k mod 4, with k = 0..3 derived from the
/// contents (so a case is reproducible): the byte-slice entry points take any `&[u8]` - a slice of
/// a larger buffer, a memory-mapped file at an odd offset - and the statements know no alignment.
pub struct Shifted {
    backing: Vec<u8>,
    off: usize,
    len: usize,
}
impl Shifted {
    pub fn new(bytes: &[u8]) -> Shifted {
        let k = (crate::engine::hash64(bytes) % 4) as usize;
        let mut backing = vec![0xa5u8; bytes.len() + 8];
        let base = backing.as_ptr() as usize;
        let off = ((4 - base % 4) % 4) + k;
        backing[off..off + bytes.len()].copy_from_slice(bytes);
        Shifted { backing, off, len: bytes.len() }
    }
    pub fn bytes(&self) -> &[u8] {
        &self.backing[self.off..self.off + self.len]
    }
}

pub fn parse_bytes_collect(bytes: &[u8]) -> Result<(Collect, Result<(), ParseState>), Fail> {
    let sh = Shifted::new(bytes);
    no_panic("parse_bytes", || {
        let mut c = Collect::default();
        let r = binary::parse_bytes(sh.bytes(), &mut c);
        (c, r)
    })
}

pub fn parse_words_collect(words: &[u32]) -> Result<(Collect, Result<(), ParseState>), Fail> {
    no_panic("parse_words", || {
        let mut c = Collect::default();
        let r = binary::parse_words(words, &mut c);
        (c, r)
    })
}

pub fn load_bytes(bytes: &[u8]) -> Result<Result<dr::Module, ParseState>, Fail> {
    let sh = Shifted::new(bytes);
    no_panic("load_bytes", || dr::load_bytes(sh.bytes()))
}

pub fn load_words(words: &[u32]) -> Result<Result<dr::Module, ParseState>, Fail> {
    no_panic("load_words", || dr::load_words(words))
}

/// Short name of a ParseState variant.
pub fn state_name(s: &ParseState) -> String {
    match s {
        ParseState::Complete => "Complete".into(),
        ParseState::ConsumerStopRequested => "ConsumerStopRequested".into(),
        ParseState::ConsumerError(e) => format!("ConsumerError({})", e),
        ParseState::HeaderIncomplete(_) => "HeaderIncomplete".into(),
        ParseState::HeaderIncorrect => "HeaderIncorrect".into(),
        ParseState::EndiannessUnsupported => "EndiannessUnsupported".into(),
        ParseState::WordCountZero(..) => "WordCountZero".into(),
        ParseState::OpcodeUnknown(..) => "OpcodeUnknown".into(),
        ParseState::OperandExpected(..) => "OperandExpected".into(),
        ParseState::OperandExceeded(..) => "OperandExceeded".into(),
        ParseState::OperandError(e) => {
            let d = format!("{:?}", e);
            let v = d.split('(').next().unwrap_or("").to_string();
            format!("OperandError({})", v)
        }
        ParseState::TypeUnsupported(..) => "TypeUnsupported".into(),
        ParseState::SpecConstantOpIntegerIncorrect(..) => "SpecConstantOpIntegerIncorrect".into(),
    }
}

/// Field-wise comparison of two modules; returns the first difference.
pub fn module_diff(a: &dr::Module, b: &dr::Module) -> Option<String> {
    if a.header != b.header {
        return Some(format!("header {:?} vs {:?}", a.header, b.header));
    }
    macro_rules! sec {
        ($f:ident) => {
            if a.$f != b.$f {
                return Some(format!(
                    "section {} differs: {:?} vs {:?}",
                    stringify!($f),
                    a.$f.iter().map(crate::model::show_inst).collect::<Vec<_>>(),
                    b.$f.iter().map(crate::model::show_inst).collect::<Vec<_>>()
                ));
            }
        };
    }
    sec!(capabilities);
    sec!(extensions);
    sec!(ext_inst_imports);
    if a.memory_model != b.memory_model {
        return Some(format!(
            "memory_model {:?} vs {:?}",
            a.memory_model.as_ref().map(crate::model::show_inst),
            b.memory_model.as_ref().map(crate::model::show_inst)
        ));
    }
    sec!(entry_points);
    sec!(execution_modes);
    sec!(debug_string_source);
    sec!(debug_names);
    sec!(debug_module_processed);
    sec!(annotations);
    sec!(types_global_values);
    if a.functions.len() != b.functions.len() {
        return Some(format!(
            "function count {} vs {}",
            a.functions.len(),
            b.functions.len()
        ));
    }
    for (i, (f, g)) in a.functions.iter().zip(&b.functions).enumerate() {
        if f.def != g.def {
            return Some(format!("function {} def differs", i));
        }
        if f.end != g.end {
            return Some(format!("function {} end differs", i));
        }
        if f.parameters != g.parameters {
            return Some(format!("function {} parameters differ", i));
        }
        if f.blocks.len() != g.blocks.len() {
            return Some(format!(
                "function {} block count {} vs {}",
                i,
                f.blocks.len(),
                g.blocks.len()
            ));
        }
        for (j, (x, y)) in f.blocks.iter().zip(&g.blocks).enumerate() {
            if x.label != y.label {
                return Some(format!("function {} block {} label differs", i, j));
            }
            if x.instructions != y.instructions {
                return Some(format!(
                    "function {} block {} instructions differ: {:?} vs {:?}",
                    i,
                    j,
                    x.instructions
                        .iter()
                        .map(crate::model::show_inst)
                        .collect::<Vec<_>>(),
                    y.instructions
                        .iter()
                        .map(crate::model::show_inst)
                        .collect::<Vec<_>>()
                ));
            }
        }
    }
    None
}

/// The grammar entry of a core opcode, found in the harness's own map over the table's entries
/// (neither `CoreInstructionTable::get` nor `lookup_opcode`, which are code under test).
pub fn class_of(op: rspirv::spirv::Op) -> &'static rspirv::grammar::Instruction<'static> {
    static MAP: std::sync::OnceLock<std::collections::HashMap<u32, &'static rspirv::grammar::Instruction<'static>>> = std::sync::OnceLock::new();
    MAP.get_or_init(|| rspirv::grammar::CoreInstructionTable::iter().map(|e| (e.opcode as u32, e)).collect())
        .get(&(op as u32))
        .copied()
        .unwrap_or_else(|| panic!("harness: opcode {:?} has no entry among the table's iter()", op))
}

/// A `dr::Instruction` value assembled from its public fields: the harness's expectations must not
/// pass through `dr::Instruction::new`, which is code under test.
pub fn mk_inst(op: rspirv::spirv::Op, result_type: Option<u32>, result_id: Option<u32>, operands: Vec<dr::Operand>) -> dr::Instruction {
    dr::Instruction { class: class_of(op), result_type, result_id, operands }
}
