//! R7: the golden snapshot of every generated grammar fact, plus the routine
//! that (re)creates it from the public API of the pinned tree
//! (`vcheck snapshot`, run once; the result is committed under /verif/golden).

use crate::engine::verif_root;
use crate::kinds::{self, EnumInfo};
use rspirv::binary::Disassemble;
use rspirv::grammar::{
    CoreInstructionTable, GlslStd450InstructionTable, OpenCLStd100InstructionTable, OperandKind,
    OperandQuantifier,
};
use serde_json::{json, Value};
use std::collections::{BTreeMap, BTreeSet};
use std::sync::OnceLock;

#[derive(Clone, Debug)]
pub struct GEnumerant {
    pub value: u32,
    pub name: String,
    pub params: Vec<OperandKind>,
    pub caps: Vec<String>,
    pub exts: Vec<String>,
}

#[derive(Clone, Debug)]
pub struct GBit {
    pub bit: u32,
    pub disasm: String,
    pub params: Vec<OperandKind>,
    pub caps: Vec<String>,
    pub exts: Vec<String>,
}

#[derive(Clone, Debug, Default)]
pub struct GEnum {
    pub name: String,
    pub is_mask: bool,
    pub values: Vec<GEnumerant>,
    pub value_set: BTreeSet<u32>,
    pub all_bits: u32,
    pub consts: Vec<(String, u32)>,
    pub bits: Vec<GBit>,
    /// source-derived: alias name -> canonical name
    pub aliases: Vec<(String, String)>,
    /// source-derived: FromStr strings -> variant name
    pub from_str: Vec<(String, String)>,
}

impl GEnum {
    pub fn enumerant(&self, v: u32) -> Option<&GEnumerant> {
        self.values
            .binary_search_by_key(&v, |e| e.value)
            .ok()
            .map(|i| &self.values[i])
    }
    pub fn bit(&self, b: u32) -> Option<&GBit> {
        self.bits.iter().find(|x| x.bit == b)
    }
}

#[derive(Clone, Debug)]
pub struct GInst {
    pub opname: String,
    pub opcode: u32,
    pub caps: Vec<String>,
    pub exts: Vec<String>,
    pub operands: Vec<(OperandKind, OperandQuantifier)>,
}

pub struct Golden {
    pub enums: BTreeMap<String, GEnum>,
    pub core: Vec<GInst>,
    pub core_by_code: BTreeMap<u32, usize>,
    pub glsl: Vec<GInst>,
    pub opencl: Vec<GInst>,
}

static GOLDEN: OnceLock<Golden> = OnceLock::new();

pub fn golden() -> &'static Golden {
    GOLDEN.get_or_init(|| match load() {
        Ok(g) => g,
        Err(e) => {
            eprintln!("cannot load golden tables: {}", e);
            std::process::exit(2);
        }
    })
}

pub fn quant_name(q: OperandQuantifier) -> &'static str {
    match q {
        OperandQuantifier::One => "One",
        OperandQuantifier::ZeroOrOne => "ZeroOrOne",
        OperandQuantifier::ZeroOrMore => "ZeroOrMore",
    }
}
fn quant_from(s: &str) -> Option<OperandQuantifier> {
    Some(match s {
        "One" => OperandQuantifier::One,
        "ZeroOrOne" => OperandQuantifier::ZeroOrOne,
        "ZeroOrMore" => OperandQuantifier::ZeroOrMore,
        _ => return None,
    })
}

fn strs(v: &Value) -> Vec<String> {
    v.as_array()
        .map(|a| {
            a.iter()
                .filter_map(|x| x.as_str().map(|s| s.to_string()))
                .collect()
        })
        .unwrap_or_default()
}
fn kinds_of(v: &Value) -> Result<Vec<OperandKind>, String> {
    strs(v)
        .iter()
        .map(|s| kinds::kind_from_name(s).ok_or_else(|| format!("unknown kind {}", s)))
        .collect()
}

fn load_insts(v: &Value) -> Result<Vec<GInst>, String> {
    let mut out = vec![];
    for e in v.as_array().ok_or("instruction list missing")? {
        let mut operands = vec![];
        for o in e["operands"].as_array().ok_or("operands missing")? {
            let k = kinds::kind_from_name(o[0].as_str().unwrap_or(""))
                .ok_or_else(|| format!("unknown kind {:?}", o[0]))?;
            let q = quant_from(o[1].as_str().unwrap_or(""))
                .ok_or_else(|| format!("unknown quantifier {:?}", o[1]))?;
            operands.push((k, q));
        }
        out.push(GInst {
            opname: e["opname"].as_str().unwrap_or("").to_string(),
            opcode: e["opcode"].as_u64().ok_or("opcode missing")? as u32,
            caps: strs(&e["caps"]),
            exts: strs(&e["exts"]),
            operands,
        });
    }
    Ok(out)
}

fn load() -> Result<Golden, String> {
    let dir = verif_root().join("golden");
    let api: Value = serde_json::from_str(
        &std::fs::read_to_string(dir.join("api.json")).map_err(|e| format!("api.json: {}", e))?,
    )
    .map_err(|e| format!("api.json: {}", e))?;
    let src: Value = serde_json::from_str(
        &std::fs::read_to_string(dir.join("source.json"))
            .map_err(|e| format!("source.json: {}", e))?,
    )
    .map_err(|e| format!("source.json: {}", e))?;
    let mut enums = BTreeMap::new();
    for (name, e) in api["enums"].as_object().ok_or("enums missing")? {
        let mut g = GEnum {
            name: name.clone(),
            is_mask: false,
            ..Default::default()
        };
        for v in e["values"].as_array().ok_or("values missing")? {
            let value = v["value"].as_u64().ok_or("value missing")? as u32;
            g.value_set.insert(value);
            g.values.push(GEnumerant {
                value,
                name: v["name"].as_str().unwrap_or("").to_string(),
                params: kinds_of(&v["params"])?,
                caps: strs(&v["caps"]),
                exts: strs(&v["exts"]),
            });
        }
        g.values.sort_by_key(|e| e.value);
        if let Some(s) = src["enums"].get(name) {
            if let Some(a) = s["aliases"].as_object() {
                for (k, v) in a {
                    g.aliases
                        .push((k.clone(), v.as_str().unwrap_or("").to_string()));
                }
            }
            if let Some(a) = s["from_str"].as_object() {
                for (k, v) in a {
                    g.from_str
                        .push((k.clone(), v.as_str().unwrap_or("").to_string()));
                }
            }
        }
        enums.insert(name.clone(), g);
    }
    for (name, e) in api["masks"].as_object().ok_or("masks missing")? {
        let mut g = GEnum {
            name: name.clone(),
            is_mask: true,
            all_bits: e["all"].as_u64().ok_or("all missing")? as u32,
            ..Default::default()
        };
        for c in e["consts"].as_array().ok_or("consts missing")? {
            g.consts.push((
                c["name"].as_str().unwrap_or("").to_string(),
                c["bits"].as_u64().unwrap_or(0) as u32,
            ));
        }
        for b in e["bits"].as_array().ok_or("bits missing")? {
            g.bits.push(GBit {
                bit: b["bit"].as_u64().ok_or("bit missing")? as u32,
                disasm: b["disasm"].as_str().unwrap_or("").to_string(),
                params: kinds_of(&b["params"])?,
                caps: strs(&b["caps"]),
                exts: strs(&b["exts"]),
            });
        }
        enums.insert(name.clone(), g);
    }
    let core = load_insts(&api["core"])?;
    let mut core_by_code = BTreeMap::new();
    for (i, c) in core.iter().enumerate() {
        core_by_code.insert(c.opcode, i);
    }
    Ok(Golden {
        enums,
        core,
        core_by_code,
        glsl: load_insts(&api["glsl"])?,
        opencl: load_insts(&api["opencl"])?,
    })
}

// ---------------------------------------------------------------------------
// Snapshot from the public API of the tree the harness was built against.

fn lops(ops: &[rspirv::grammar::LogicalOperand]) -> Vec<Value> {
    ops.iter()
        .map(|o| json!([format!("{:?}", o.kind), quant_name(o.quantifier)]))
        .collect()
}

fn declared_values(e: &'static EnumInfo, threads: usize) -> Vec<u32> {
    // complete sweep of all 2^32 words
    let chunk = (1u64 << 32) / threads as u64;
    let mut all: Vec<u32> = std::thread::scope(|s| {
        let hs: Vec<_> = (0..threads)
            .map(|i| {
                s.spawn(move || {
                    let lo = chunk * i as u64;
                    let hi = if i == threads - 1 { 1u64 << 32 } else { lo + chunk };
                    let mut v = vec![];
                    let mut n = lo;
                    while n < hi {
                        if (e.accepts)(n as u32) {
                            v.push(n as u32);
                        }
                        n += 1;
                    }
                    v
                })
            })
            .collect();
        hs.into_iter().flat_map(|h| h.join().unwrap()).collect()
    });
    all.sort();
    all
}

pub fn snapshot(threads: usize) -> Value {
    let mut enums = serde_json::Map::new();
    let mut masks = serde_json::Map::new();
    for e in kinds::ENUMS {
        if e.is_mask {
            let all = (e.mask_all.unwrap())();
            let consts: Vec<Value> = (e.mask_names.unwrap())()
                .into_iter()
                .map(|(n, b)| json!({"name": n, "bits": b}))
                .collect();
            let mut bits = vec![];
            for i in 0..32 {
                let b = 1u32 << i;
                if all & b == 0 {
                    continue;
                }
                let op = (e.operand.unwrap())(b).unwrap();
                bits.push(json!({
                    "bit": b,
                    "disasm": mask_bit_name(e.name, b),
                    "params": op.additional_operands().iter().map(|o| format!("{:?}", o.kind)).collect::<Vec<_>>(),
                    "caps": op.required_capabilities().iter().map(|c| format!("{:?}", c)).collect::<Vec<_>>(),
                    "exts": op.required_extensions(),
                }));
            }
            masks.insert(
                e.name.to_string(),
                json!({"all": all, "consts": consts, "bits": bits}),
            );
        } else {
            eprintln!("sweeping {} ...", e.name);
            let vals = declared_values(e, threads);
            let mut values = vec![];
            for v in vals {
                let name = (e.debug)(v).unwrap();
                let (params, caps, exts) = match e.operand {
                    Some(f) => {
                        let op = f(v).unwrap();
                        (
                            op.additional_operands()
                                .iter()
                                .map(|o| format!("{:?}", o.kind))
                                .collect::<Vec<_>>(),
                            op.required_capabilities()
                                .iter()
                                .map(|c| format!("{:?}", c))
                                .collect::<Vec<_>>(),
                            op.required_extensions()
                                .iter()
                                .map(|s| s.to_string())
                                .collect::<Vec<_>>(),
                        )
                    }
                    None => (vec![], vec![], vec![]),
                };
                values.push(json!({"value": v, "name": name, "params": params, "caps": caps, "exts": exts}));
            }
            enums.insert(e.name.to_string(), json!({"values": values}));
        }
    }
    let core: Vec<Value> = CoreInstructionTable::iter()
        .map(|i| {
            json!({
                "opname": i.opname,
                "opcode": i.opcode as u32,
                "caps": i.capabilities.iter().map(|c| format!("{:?}", c)).collect::<Vec<_>>(),
                "exts": i.extensions,
                "operands": lops(i.operands),
            })
        })
        .collect();
    let ext = |it: &mut dyn Iterator<Item = &'static rspirv::grammar::ExtendedInstruction<'static>>| -> Vec<Value> {
        it.map(|i| {
            json!({
                "opname": i.opname,
                "opcode": i.opcode,
                "caps": i.capabilities.iter().map(|c| format!("{:?}", c)).collect::<Vec<_>>(),
                "exts": i.extensions,
                "operands": lops(i.operands),
            })
        })
        .collect()
    };
    json!({
        "enums": enums,
        "masks": masks,
        "core": core,
        "glsl": ext(&mut GlslStd450InstructionTable::iter()),
        "opencl": ext(&mut OpenCLStd100InstructionTable::iter()),
    })
}

/// Specification name of a single mask bit as printed by the per-type
/// `Disassemble` impl of the mask.
pub fn mask_bit_name(ty: &str, bit: u32) -> String {
    macro_rules! go {
        ($($t:ident),*) => {
            match ty {
                $( stringify!($t) => spirv::$t::from_bits(bit).map(|v| v.disassemble()).unwrap_or_default(), )*
                _ => String::new(),
            }
        };
    }
    go!(
        ImageOperands,
        FPFastMathMode,
        SelectionControl,
        LoopControl,
        FunctionControl,
        MemorySemantics,
        MemoryAccess,
        KernelProfilingInfo,
        RayFlags,
        FragmentShadingRate,
        RawAccessChainOperands,
        CooperativeMatrixOperands,
        CooperativeMatrixReduce,
        TensorAddressingOperands,
        MatrixMultiplyAccumulateOperands
    )
}
