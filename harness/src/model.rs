//! R3 (literal-width model), G-inst (grammar-directed instruction plans) and
//! R1 (reference parser). Grammar facts come from the golden snapshot, never
//! from rspirv's parser.

use crate::cs::Cs;
use crate::golden::{golden, GEnum, GInst, Golden};
use crate::kinds;
use rspirv::dr::{self, Operand};
use rspirv::grammar::{OperandKind as K, OperandQuantifier as Q};
use std::collections::HashMap;

pub const MAGIC: u32 = 0x0723_0203;

// ---------------------------------------------------------------------------
// R3

#[derive(Clone, Copy, PartialEq, Eq, Debug)]
pub enum Ty {
    Int(u32, bool),
    Float(u32),
}

#[derive(Clone, Copy, PartialEq, Eq, Debug)]
pub enum LitW {
    Words(usize),
    Unsupported,
}

#[derive(Clone, Default, Debug)]
pub struct TyCtx {
    pub map: HashMap<u32, Ty>,
}

pub const OP_TYPE_INT: u32 = 21;
pub const OP_TYPE_FLOAT: u32 = 22;
pub const OP_CONSTANT: u32 = 43;
pub const OP_SPEC_CONSTANT: u32 = 50;
pub const OP_SPEC_CONSTANT_OP: u32 = 52;
pub const OP_SWITCH: u32 = 251;

thread_local! {
    static FIRST_WINS: std::cell::Cell<bool> = const { std::cell::Cell::new(false) };
}

/// Runs `f` with the width model in "first declaration wins" mode. The statement does not say
/// which declaration decides when an id is declared twice; checks on binaries with
/// re-declared ids accept either consistent reading (default: the latest preceding one).
pub fn with_first_wins<T>(f: impl FnOnce() -> T) -> T {
    FIRST_WINS.with(|c| c.set(true));
    let r = f();
    FIRST_WINS.with(|c| c.set(false));
    r
}

impl TyCtx {
    pub fn new() -> TyCtx {
        TyCtx::default()
    }
    pub fn ty_words(t: Option<Ty>) -> LitW {
        match t {
            None => LitW::Words(1),
            Some(Ty::Int(w, _)) => match w {
                8 | 16 | 32 => LitW::Words(1),
                64 => LitW::Words(2),
                _ => LitW::Unsupported,
            },
            Some(Ty::Float(w)) => match w {
                16 | 32 => LitW::Words(1),
                64 => LitW::Words(2),
                _ => LitW::Unsupported,
            },
        }
    }
    pub fn lit_words(&self, id: u32) -> LitW {
        Self::ty_words(self.map.get(&id).copied())
    }
    /// `operand_words`: the words after result type / result id.
    pub fn track(
        &mut self,
        opname: &str,
        rtype: Option<u32>,
        rid: Option<u32>,
        operand_words: &[u32],
    ) {
        let Some(rid) = rid else { return };
        if FIRST_WINS.with(|c| c.get()) && self.map.contains_key(&rid) {
            return;
        }
        if opname == "TypeInt" {
            if operand_words.len() >= 2 {
                self.map
                    .insert(rid, Ty::Int(operand_words[0], operand_words[1] == 1));
            }
        } else if opname == "TypeFloat" {
            if !operand_words.is_empty() {
                self.map.insert(rid, Ty::Float(operand_words[0]));
            }
        } else if let Some(t) = rtype {
            if let Some(ty) = self.map.get(&t).copied() {
                self.map.insert(rid, ty);
            }
        }
    }
}

// ---------------------------------------------------------------------------
// helpers

pub fn str_words(s: &str) -> Vec<u32> {
    let b = s.as_bytes();
    let mut out = vec![];
    let mut i = 0;
    loop {
        let mut w = [0u8; 4];
        let n = (b.len() - i).min(4);
        w[..n].copy_from_slice(&b[i..i + n]);
        out.push(u32::from_le_bytes(w));
        i += 4;
        if n < 4 {
            break;
        }
    }
    out
}

pub fn enum_operand(kind: K, w: u32) -> Option<Operand> {
    kinds::by_kind(kind).and_then(|e| (e.operand.unwrap())(w))
}

pub fn genum(g: &'static Golden, kind: K) -> Option<&'static GEnum> {
    g.enums.get(&format!("{:?}", kind))
}

pub fn is_special_kind(k: K) -> bool {
    matches!(
        k,
        K::LiteralContextDependentNumber
            | K::PairLiteralIntegerIdRef
            | K::LiteralSpecConstantOpInteger
    )
}

pub fn show_inst(i: &dr::Instruction) -> String {
    let mut s = String::new();
    if let Some(r) = i.result_id {
        s.push_str(&format!("%{} = ", r));
    }
    s.push_str("Op");
    s.push_str(i.class.opname);
    if let Some(t) = i.result_type {
        s.push_str(&format!(" %{}", t));
    }
    for o in &i.operands {
        s.push_str(&format!(" {:?}", o));
    }
    s
}

pub fn show_words(ws: &[u32]) -> String {
    ws.iter()
        .map(|w| format!("{:08x}", w))
        .collect::<Vec<_>>()
        .join(" ")
}

pub fn words_to_bytes(ws: &[u32]) -> Vec<u8> {
    ws.iter().flat_map(|w| w.to_le_bytes()).collect()
}

thread_local! {
    /// the generator word generated headers carry in the current case (see `set_ambient_generator_for`)
    static AMBIENT_GENERATOR: std::cell::Cell<u32> = const { std::cell::Cell::new(0x000f_0000) };
}
pub fn ambient_generator() -> u32 {
    AMBIENT_GENERATOR.with(|c| c.get())
}
/// Half of the cases keep rspirv's own generator word; the others carry one of the registered tool
/// ids 0..=48 (Khronos, LunarG, ..., glslang 8, shaderc 13, DXC 14, rspirv 15, clspv 21, Slang 40 ...)
/// with a zero, small or arbitrary tool version - derived from the case's input bytes, so a case is
/// reproducible. Nothing any statement says depends on who produced a binary.
pub fn set_ambient_generator_for(input: &[u8]) {
    let h = crate::engine::hash64(input) ^ 0x9e37_79b9_7f4a_7c15;
    let g = if h & 1 == 0 {
        0x000f_0000
    } else {
        let tool = ((h >> 8) % 49) as u32;
        let low = match (h >> 16) % 3 {
            0 => 0,
            1 => ((h >> 24) % 16) as u32,
            _ => ((h >> 24) & 0xffff) as u32,
        };
        (tool << 16) | low
    };
    AMBIENT_GENERATOR.with(|c| c.set(g));
}

pub fn header_words(version: (u8, u8), bound: u32) -> Vec<u32> {
    vec![
        MAGIC,
        ((version.0 as u32) << 16) | ((version.1 as u32) << 8),
        ambient_generator(),
        bound,
        0,
    ]
}

// ---------------------------------------------------------------------------
// G-inst

#[derive(Clone, Debug, Default)]
pub struct Shape {
    pub optionals_present: usize,
    pub optionals_absent: usize,
    pub variadic_reps: Vec<usize>,
    pub strings: Vec<usize>,
    pub lit64: usize,
    pub enumerants: Vec<(K, u32)>,
    pub mask_bits: Vec<(K, u32)>,
    pub embedded: Option<u32>,
}

#[derive(Clone, Debug)]
pub struct Plan {
    pub opcode: u32,
    pub opname: &'static str,
    pub rtype: Option<u32>,
    pub rid: Option<u32>,
    pub operands: Vec<Operand>,
    /// words after the first word
    pub body: Vec<u32>,
    pub shape: Shape,
}

impl Plan {
    pub fn words(&self) -> Vec<u32> {
        let mut v = Vec::with_capacity(self.body.len() + 1);
        v.push((((self.body.len() + 1) as u32) << 16) | self.opcode);
        v.extend_from_slice(&self.body);
        v
    }
    pub fn operand_words(&self) -> &[u32] {
        let skip = self.rtype.is_some() as usize + self.rid.is_some() as usize;
        &self.body[skip..]
    }
    pub fn inst(&self) -> dr::Instruction {
        crate::rs::mk_inst(
            spirv::Op::from_u32(self.opcode).expect("plan opcode is declared"),
            self.rtype,
            self.rid,
            self.operands.clone(),
        )
    }
}

#[derive(Clone, Copy, PartialEq, Eq, Debug)]
pub enum Fill {
    Random,
    /// no optionals, no variadics
    Min,
    /// all optionals, 3 repetitions
    Max,
}

pub struct Gen {
    pub g: &'static Golden,
    pub tc: TyCtx,
    pub fill: Fill,
    pub bound: u32,
    /// next fresh result id (ids defined once)
    pub next_id: u32,
    /// force the first occurrence of this kind to this value
    pub force: Vec<(K, u32)>,
    /// ids with a known literal type (preferred for typed result types / selectors)
    pub typed_ids: Vec<u32>,
    /// allow embedded opcodes with optional / variadic operands
    pub max_rep: usize,
    /// occasionally very long strings (instructions above 1023 words)
    pub long_strings: bool,
    /// result ids occasionally take the extreme values 0, 0x7fffffff, 0x80000000, 0xffffffff
    /// (each defined at most once); set from the thread's edge-id mode
    pub edge_ids: bool,
    pub edge_used: Vec<u32>,
    /// result ids of the OpExtInstImport instructions emitted so far, and the last extended
    /// instruction number used (edge mode: OpExtInst prefers imported sets and repeats numbers,
    /// so that the same number meets both GLSL.std.450 and OpenCL.std back to back)
    pub ext_imports: Vec<u32>,
    pub last_ext_number: Option<u32>,
    /// edge mode: the first 61 result ids are handed out through an affine bijection, so that
    /// definition order and numeric order differ
    pub perm: Option<(u32, u32)>,
    pub id_base: Option<u32>,
}

thread_local! {
    static EDGE_IDS: std::cell::Cell<bool> = const { std::cell::Cell::new(false) };
}

/// Runs `f` with generators in edge-id mode: result ids (hence type ids and selectors) are
/// occasionally 0 / 0x7fffffff / 0x80000000 / 0xffffffff. Kept out of the default mode so that
/// stored choice streams keep their meaning.
/// id values next to which a table, counter or threshold in an implementation plausibly changes
/// behaviour: powers of two and round decimal numbers
pub const ID_BOUNDARIES: [u32; 12] = [1 << 16, 1 << 17, 1 << 18, 1 << 20, 1 << 22, 1 << 24, 10_000, 100_000, 1_000_000, 10_000_000, 100_000_000, 1_000_000_000];

pub fn with_edge_ids<T>(f: impl FnOnce() -> T) -> T {
    EDGE_IDS.with(|c| c.set(true));
    let r = f();
    EDGE_IDS.with(|c| c.set(false));
    r
}

impl Gen {
    pub fn new() -> Gen {
        Gen {
            g: golden(),
            tc: TyCtx::new(),
            fill: Fill::Random,
            bound: 64,
            next_id: 1,
            force: vec![],
            typed_ids: vec![],
            max_rep: 6,
            long_strings: false,
            edge_ids: EDGE_IDS.with(|c| c.get()),
            edge_used: vec![],
            ext_imports: vec![],
            last_ext_number: None,
            perm: None,
            id_base: None,
        }
    }
    /// fresh result id; in edge-id mode occasionally an extreme value not used before
    pub fn fresh_cs(&mut self, cs: &mut Cs) -> u32 {
        if self.edge_ids && cs.below(6) == 0 {
            const EDGE: [u32; 12] = [0, u32::MAX, 0x8000_0000, 0x7fff_ffff, 65_535, 65_536, 65_537, 131_072, 999_999, 1_000_000, 1_000_001, 0x0100_0000];
            let e = EDGE[cs.below(EDGE.len())];
            if !self.edge_used.contains(&e) {
                self.edge_used.push(e);
                return e;
            }
        }
        if self.edge_ids {
            // result ids stay pairwise different: a sequential id that coincides with an extreme value
            // handed out earlier (possible since the ids may start just below a boundary) is skipped
            loop {
                let v = self.fresh_edge_sequential(cs);
                if !self.edge_used.contains(&v) {
                    self.edge_used.push(v);
                    return v;
                }
            }
        }
        self.fresh()
    }
    fn fresh_edge_sequential(&mut self, cs: &mut Cs) -> u32 {
        if self.edge_ids {
            let (a, c) = *self.perm.get_or_insert_with(|| if cs.bool() { (1, 0) } else { (1 + cs.below(60) as u32, cs.below(61) as u32) });
            // one module in three hands out its ids from just below a power of two or of ten, so that
            // they straddle it densely
            let base = *self.id_base.get_or_insert_with(|| {
                if cs.below(3) == 0 {
                    ID_BOUNDARIES[cs.below(ID_BOUNDARIES.len())] - 1 - cs.below(48) as u32
                } else {
                    0
                }
            });
            let k = self.next_id - 1;
            self.next_id += 1;
            return base + if k < 61 { 1 + (k * a + c) % 61 } else { k + 1 };
        }
        self.fresh()
    }
    pub fn fresh(&mut self) -> u32 {
        let v = self.next_id;
        self.next_id += 1;
        v
    }
    /// Updates the type context with an emitted plan (ids defined once).
    pub fn track(&mut self, p: &Plan) {
        if p.opname == "ExtInstImport" {
            if let Some(r) = p.rid {
                self.ext_imports.push(r);
            }
        }
        self.tc.track(p.opname, p.rtype, p.rid, p.operand_words());
        if let Some(r) = p.rid {
            if self.tc.map.contains_key(&r) && !self.typed_ids.contains(&r) {
                self.typed_ids.push(r);
            }
        }
    }

    fn pick_enumerant(&mut self, cs: &mut Cs, kind: K, ge: &GEnum) -> u32 {
        if let Some(i) = self.force.iter().position(|(k, _)| *k == kind) {
            return self.force.remove(i).1;
        }
        ge.values[cs.below(ge.values.len())].value
    }

    fn pick_mask(&mut self, cs: &mut Cs, kind: K, ge: &GEnum) -> u32 {
        if let Some(i) = self.force.iter().position(|(k, _)| *k == kind) {
            return self.force.remove(i).1;
        }
        let bits: Vec<u32> = ge.bits.iter().map(|b| b.bit).collect();
        if bits.is_empty() {
            return 0;
        }
        match cs.below(8) {
            0 => 0,
            1 | 2 => bits[cs.below(bits.len())],
            3 => bits[cs.below(bits.len())] | bits[cs.below(bits.len())],
            4 => ge.all_bits,
            _ => {
                let r = cs.u32();
                let mut m = 0;
                for (i, b) in bits.iter().enumerate() {
                    if (r >> (i % 32)) & 1 == 1 {
                        m |= b;
                    }
                }
                m
            }
        }
    }

    /// Generates one operand of `kind`; returns false when no conforming operand exists.
    #[allow(clippy::too_many_arguments)]
    fn gen_kind(
        &mut self,
        cs: &mut Cs,
        kind: K,
        rtype: Option<u32>,
        selector: Option<u32>,
        ops: &mut Vec<Operand>,
        ws: &mut Vec<u32>,
        sh: &mut Shape,
        depth: usize,
    ) -> bool {
        match kind {
            K::IdResultType | K::IdResult => unreachable!(),
            K::IdRef => {
                let v = cs.id(self.bound);
                ops.push(Operand::IdRef(v));
                ws.push(v);
            }
            K::IdScope => {
                let v = cs.id(self.bound);
                ops.push(Operand::IdScope(v));
                ws.push(v);
            }
            K::IdMemorySemantics => {
                let v = cs.id(self.bound);
                ops.push(Operand::IdMemorySemantics(v));
                ws.push(v);
            }
            K::LiteralInteger | K::LiteralFloat => {
                let v = cs.lit32();
                ops.push(Operand::LiteralBit32(v));
                ws.push(v);
            }
            K::LiteralExtInstInteger => {
                let v = match cs.below(4) {
                    0 => cs.below(90) as u32,
                    1 => cs.below(200) as u32,
                    _ => cs.lit32(),
                };
                ops.push(Operand::LiteralExtInstInteger(v));
                ws.push(v);
            }
            K::LiteralString => {
                let s = if self.long_strings && cs.below(4) == 0 {
                    // long mode: medium lengths, lengths around word-count and buffer-size
                    // boundaries, and very long strings
                    let n = match cs.below(4) {
                        0 => 14 + cs.below(300),
                        1 => [252usize, 255, 256, 257, 1020, 1023, 1024, 1025, 2047, 2048, 4091, 4092, 4096][cs.below(13)],
                        _ => 4000 + cs.below(3000),
                    };
                    cs.ascii_exact(n)
                } else {
                    cs.string()
                };
                sh.strings.push(s.len());
                ws.extend(str_words(&s));
                ops.push(Operand::LiteralString(s));
            }
            K::LiteralContextDependentNumber => {
                let t = rtype.expect("context-dependent literal needs a result type");
                match self.tc.lit_words(t) {
                    LitW::Words(1) => {
                        let v = cs.lit32();
                        ops.push(Operand::LiteralBit32(v));
                        ws.push(v);
                    }
                    LitW::Words(_) => {
                        let v = cs.lit64();
                        sh.lit64 += 1;
                        ops.push(Operand::LiteralBit64(v));
                        ws.push(v as u32);
                        ws.push((v >> 32) as u32);
                    }
                    LitW::Unsupported => return false,
                }
            }
            K::PairLiteralIntegerIdRef => {
                let sel = selector.expect("switch selector");
                match self.tc.lit_words(sel) {
                    LitW::Words(1) => {
                        let v = cs.lit32();
                        ops.push(Operand::LiteralBit32(v));
                        ws.push(v);
                    }
                    LitW::Words(_) => {
                        let v = cs.lit64();
                        sh.lit64 += 1;
                        ops.push(Operand::LiteralBit64(v));
                        ws.push(v as u32);
                        ws.push((v >> 32) as u32);
                    }
                    LitW::Unsupported => return false,
                }
                let l = cs.id(self.bound);
                ops.push(Operand::IdRef(l));
                ws.push(l);
            }
            K::PairIdRefLiteralInteger => {
                let a = cs.id(self.bound);
                let b = cs.lit32();
                ops.push(Operand::IdRef(a));
                ops.push(Operand::LiteralBit32(b));
                ws.push(a);
                ws.push(b);
            }
            K::PairIdRefIdRef => {
                let a = cs.id(self.bound);
                let b = cs.id(self.bound);
                ops.push(Operand::IdRef(a));
                ops.push(Operand::IdRef(b));
                ws.push(a);
                ws.push(b);
            }
            K::LiteralSpecConstantOpInteger => {
                if depth > 0 {
                    return false;
                }
                let emb = self.pick_embedded(cs);
                let gi = &self.g.core[emb];
                sh.embedded = Some(gi.opcode);
                let op = spirv::Op::from_u32(gi.opcode).expect("golden opcode declared");
                ops.push(Operand::LiteralSpecConstantOpInteger(op));
                ws.push(gi.opcode);
                let operands: Vec<(K, Q)> = gi
                    .operands
                    .iter()
                    .copied()
                    .filter(|(k, _)| *k != K::IdResultType && *k != K::IdResult)
                    .collect();
                if !self.gen_operand_list(cs, &operands, rtype, ops, ws, sh, depth + 1) {
                    return false;
                }
            }
            _ => {
                let Some(ge) = genum(self.g, kind) else {
                    panic!("no golden entry for kind {:?}", kind)
                };
                if ge.is_mask {
                    let m = self.pick_mask(cs, kind, ge);
                    let Some(o) = enum_operand(kind, m) else { return false };
                    ops.push(o);
                    ws.push(m);
                    for b in &ge.bits {
                        if m & b.bit != 0 {
                            sh.mask_bits.push((kind, b.bit));
                            for p in &b.params {
                                if !self.gen_kind(cs, *p, rtype, selector, ops, ws, sh, depth + 1)
                                {
                                    return false;
                                }
                            }
                        }
                    }
                } else {
                    let v = self.pick_enumerant(cs, kind, ge);
                    let Some(o) = enum_operand(kind, v) else { return false };
                    sh.enumerants.push((kind, v));
                    ops.push(o);
                    ws.push(v);
                    let params = ge.enumerant(v).map(|e| e.params.clone()).unwrap_or_default();
                    for p in params {
                        if !self.gen_kind(cs, p, rtype, selector, ops, ws, sh, depth + 1) {
                            return false;
                        }
                    }
                }
            }
        }
        true
    }

    fn pick_embedded(&mut self, cs: &mut Cs) -> usize {
        // classic specialization-constant operations, then anything without
        // context-dependent operands
        const CLASSIC: &[u32] = &[
            128, 130, 132, 134, 135, 137, 138, 139, 194, 195, 196, 197, 198, 199, 200, 126, 168,
            164, 165, 166, 167, 169, 170, 171, 172, 173, 176, 177, 113, 114, 115, 116, 124, 79,
            81, 82, 65, 66, 67, 70, 117, 120, 122, 121,
        ];
        let g = self.g;
        if let Some(fi) = self
            .force
            .iter()
            .position(|(k, _)| *k == K::LiteralSpecConstantOpInteger)
        {
            let v = self.force.remove(fi).1;
            if let Some(i) = g.core_by_code.get(&v) {
                if !g.core[*i].operands.iter().any(|(k, _)| is_special_kind(*k)) {
                    return *i;
                }
            }
        }
        for _ in 0..8 {
            let idx = if cs.below(4) < 3 {
                let code = CLASSIC[cs.below(CLASSIC.len())];
                *g.core_by_code.get(&code).unwrap()
            } else {
                cs.below(g.core.len())
            };
            if !g.core[idx].operands.iter().any(|(k, _)| is_special_kind(*k)) {
                return idx;
            }
        }
        *g.core_by_code.get(&128).unwrap()
    }

    #[allow(clippy::too_many_arguments)]
    fn gen_operand_list(
        &mut self,
        cs: &mut Cs,
        operands: &[(K, Q)],
        rtype: Option<u32>,
        ops: &mut Vec<Operand>,
        ws: &mut Vec<u32>,
        sh: &mut Shape,
        depth: usize,
    ) -> bool {
        let mut stopped = false;
        let first_op_index = ops.len();
        for (k, q) in operands {
            let selector = if *k == K::PairLiteralIntegerIdRef {
                match ops.get(first_op_index) {
                    Some(Operand::IdRef(v)) => Some(*v),
                    _ => None,
                }
            } else {
                None
            };
            match q {
                Q::One => {
                    if !self.gen_kind(cs, *k, rtype, selector, ops, ws, sh, depth) {
                        return false;
                    }
                }
                Q::ZeroOrOne => {
                    let present = !stopped
                        && match self.fill {
                            Fill::Min => false,
                            Fill::Max => true,
                            Fill::Random => cs.bool(),
                        };
                    if present {
                        sh.optionals_present += 1;
                        if !self.gen_kind(cs, *k, rtype, selector, ops, ws, sh, depth) {
                            return false;
                        }
                    } else {
                        sh.optionals_absent += 1;
                        stopped = true;
                    }
                }
                Q::ZeroOrMore => {
                    let n = if stopped {
                        0
                    } else {
                        match self.fill {
                            Fill::Min => 0,
                            Fill::Max => 3,
                            Fill::Random => match cs.below(4) {
                                0 => 0,
                                1 => 1,
                                _ => cs.below(self.max_rep + 1),
                            },
                        }
                    };
                    sh.variadic_reps.push(n);
                    for _ in 0..n {
                        if !self.gen_kind(cs, *k, rtype, selector, ops, ws, sh, depth) {
                            return false;
                        }
                    }
                }
            }
        }
        true
    }

    /// Generates a grammar-conforming instruction for `gi`; None if impossible
    /// in the current type context.
    pub fn plan(&mut self, cs: &mut Cs, gi: &'static GInst) -> Option<Plan> {
        let mut body = vec![];
        let mut ops = vec![];
        let mut sh = Shape::default();
        let mut rtype = None;
        let mut rid = None;
        let mut rest: Vec<(K, Q)> = vec![];
        let needs_typed = gi
            .operands
            .iter()
            .any(|(k, _)| *k == K::LiteralContextDependentNumber);
        for (k, q) in &gi.operands {
            match k {
                K::IdResultType => {
                    let t = if needs_typed && !self.typed_ids.is_empty() && cs.below(8) != 0 {
                        self.typed_ids[cs.below(self.typed_ids.len())]
                    } else if !self.typed_ids.is_empty() && cs.below(4) == 0 {
                        self.typed_ids[cs.below(self.typed_ids.len())]
                    } else {
                        cs.id(self.bound)
                    };
                    rtype = Some(t);
                    body.push(t);
                }
                K::IdResult => {
                    let r = self.fresh_cs(cs);
                    rid = Some(r);
                    body.push(r);
                }
                _ => rest.push((*k, *q)),
            }
        }
        // OpSwitch: prefer a typed selector
        if gi.opcode == OP_SWITCH {
            let sel = if !self.typed_ids.is_empty() && cs.below(8) != 0 {
                self.typed_ids[cs.below(self.typed_ids.len())]
            } else {
                cs.id(self.bound)
            };
            ops.push(Operand::IdRef(sel));
            body.push(sel);
            if !self.gen_kind(cs, K::IdRef, rtype, None, &mut ops, &mut body, &mut sh, 0) {
                return None;
            }
            let n = match self.fill {
                Fill::Min => 0,
                Fill::Max => 3,
                Fill::Random => match cs.below(4) {
                    0 => 0,
                    1 => 1,
                    _ => cs.below(self.max_rep + 1),
                },
            };
            sh.variadic_reps.push(n);
            for _ in 0..n {
                if !self.gen_kind(
                    cs,
                    K::PairLiteralIntegerIdRef,
                    rtype,
                    Some(sel),
                    &mut ops,
                    &mut body,
                    &mut sh,
                    0,
                ) {
                    return None;
                }
            }
        } else if !self.gen_operand_list(cs, &rest, rtype, &mut ops, &mut body, &mut sh, 0) {
            return None;
        }
        if self.edge_ids && gi.opname == "ExtInstImport" && cs.below(4) != 0 {
            // mostly the two recognised sets
            let name = if cs.bool() { "GLSL.std.450" } else { "OpenCL.std" };
            ops = vec![Operand::LiteralString(name.to_string())];
            body.truncate(1);
            body.extend(str_words(name));
        }
        if self.edge_ids && gi.opname == "ExtInst" && ops.len() >= 2 && body.len() >= 4 {
            if !self.ext_imports.is_empty() && cs.below(4) != 0 {
                let set = self.ext_imports[cs.below(self.ext_imports.len())];
                ops[0] = Operand::IdRef(set);
                body[2] = set;
            }
            if let (Some(n), true) = (self.last_ext_number, cs.bool()) {
                ops[1] = Operand::LiteralExtInstInteger(n);
                body[3] = n;
            }
            self.last_ext_number = Some(body[3]);
        }
        if body.len() + 1 > 0xffff {
            return None;
        }
        Some(Plan {
            opcode: gi.opcode,
            opname: gi.opname.as_str(),
            rtype,
            rid,
            operands: ops,
            body,
            shape: sh,
        })
    }
}

// ---------------------------------------------------------------------------
// R1: reference parser

#[derive(Clone, Debug, PartialEq)]
pub struct ROp {
    /// leaf kind (pairs are split)
    pub kind: K,
    pub words: Vec<u32>,
    pub string: Option<String>,
}

#[derive(Clone, Debug, PartialEq)]
pub struct RInst {
    pub opcode: u32,
    pub opname: String,
    pub rtype: Option<u32>,
    pub rid: Option<u32>,
    pub ops: Vec<ROp>,
    /// byte offset of the first word
    pub start: usize,
    /// declared word count
    pub wc: usize,
    /// byte ranges (absolute) of padding after string NULs: (first byte after NUL, end of word)
    pub pads: Vec<(usize, usize)>,
}

#[derive(Clone, Copy, PartialEq, Eq, Debug, PartialOrd, Ord)]
pub enum Fault {
    WordCountZero,
    OpcodeUnknown,
    Missing,
    Surplus,
    Undecodable,
}

#[derive(Clone, Copy, PartialEq, Eq, Debug)]
pub enum HeaderFault {
    Incomplete,
    Incorrect,
    Endianness,
}

#[derive(Clone, Debug, PartialEq)]
pub enum End {
    /// every byte consumed
    Clean,
    /// 1-3 stray bytes after the last complete instruction (don't-care)
    Stray(usize),
    Fault {
        /// 1-based number of the malformed instruction
        index: usize,
        start: usize,
        /// declared word count (0 for zero word count)
        wc: usize,
        classes: Vec<Fault>,
        /// the statement leaves the verdict open (nested context-dependent embedded opcode)
        dont_care: bool,
    },
}

#[derive(Clone, Debug)]
pub struct RParse {
    pub header: Result<[u32; 5], HeaderFault>,
    /// a second header fault that is present as well (a header that is both too short and does not
    /// start with the magic number): the statement names both kinds and ranks neither
    pub header_alt: Option<HeaderFault>,
    pub insts: Vec<RInst>,
    pub end: End,
    /// an id was defined twice: the width clause is outside the stated precondition
    pub redefined_id: bool,
}

enum M {
    Ok,
    Fault(Fault),
    DontCare,
}

struct Matcher<'a> {
    g: &'static Golden,
    tc: &'a TyCtx,
    words: &'a [u32],
    pos: usize,
    /// absolute byte offset of words[0]
    base: usize,
    ops: Vec<ROp>,
    pads: Vec<(usize, usize)>,
    /// a string operand found no NUL in the complete words it could see
    string_ran_out: bool,
    /// matching stopped because the words ran out while an optional / variadic operand
    /// could still take more (relevant when the declared extent leaves the stream)
    more_possible: bool,
    /// kind of the operand a left-to-right reader would attempt next
    next_kind: Option<K>,
    /// the next literal's type is unsupported (reported before a word is read)
    pending_unsupported: bool,
}

impl<'a> Matcher<'a> {
    fn left(&self) -> usize {
        self.words.len() - self.pos
    }
    fn take(&mut self) -> Option<u32> {
        let w = self.words.get(self.pos).copied();
        if w.is_some() {
            self.pos += 1;
        }
        w
    }
    fn one(&mut self, kind: K) -> M {
        match self.take() {
            Some(w) => {
                self.ops.push(ROp {
                    kind,
                    words: vec![w],
                    string: None,
                });
                M::Ok
            }
            None => {
                self.next_kind = Some(kind);
                M::Fault(Fault::Missing)
            }
        }
    }
    fn literal(&mut self, type_id: u32) -> M {
        if self.left() == 0 {
            // no word at all for the literal: a left-to-right reading misses the operand
            // before it can look at the type (unless the declared extent promises a word
            // the stream does not hold: then the unsupported type is reported first)
            self.next_kind = Some(K::LiteralContextDependentNumber);
            self.pending_unsupported = self.tc.lit_words(type_id) == LitW::Unsupported;
            return M::Fault(Fault::Missing);
        }
        match self.tc.lit_words(type_id) {
            LitW::Unsupported => M::Fault(Fault::Undecodable),
            LitW::Words(n) => {
                if self.left() < n {
                    // consume what is there (left-to-right reading)
                    self.pos = self.words.len();
                    return M::Fault(Fault::Missing);
                }
                let ws = self.words[self.pos..self.pos + n].to_vec();
                self.pos += n;
                self.ops.push(ROp {
                    kind: K::LiteralContextDependentNumber,
                    words: ws,
                    string: None,
                });
                M::Ok
            }
        }
    }
    fn kind(&mut self, kind: K, rtype: Option<u32>, selector: Option<u32>, depth: usize) -> M {
        match kind {
            K::IdResultType | K::IdResult => self.one(kind),
            K::IdRef
            | K::IdScope
            | K::IdMemorySemantics
            | K::LiteralInteger
            | K::LiteralFloat
            | K::LiteralExtInstInteger => self.one(kind),
            K::LiteralString => {
                let bytes: Vec<u8> = self.words[self.pos..]
                    .iter()
                    .flat_map(|w| w.to_le_bytes())
                    .collect();
                match bytes.iter().position(|b| *b == 0) {
                    None => {
                        self.pos = self.words.len();
                        self.string_ran_out = true;
                        M::Fault(Fault::Missing)
                    }
                    Some(n) => match std::str::from_utf8(&bytes[..n]) {
                        Err(_) => M::Fault(Fault::Undecodable),
                        Ok(s) => {
                            let nw = n / 4 + 1;
                            let abs = self.base + self.pos * 4;
                            self.pads.push((abs + n + 1, abs + nw * 4));
                            self.ops.push(ROp {
                                kind,
                                words: self.words[self.pos..self.pos + nw].to_vec(),
                                string: Some(s.to_string()),
                            });
                            self.pos += nw;
                            M::Ok
                        }
                    },
                }
            }
            K::LiteralContextDependentNumber => {
                if depth > 0 {
                    return M::DontCare;
                }
                match rtype {
                    Some(t) => self.literal(t),
                    None => M::DontCare,
                }
            }
            K::PairLiteralIntegerIdRef => {
                if depth > 0 {
                    return M::DontCare;
                }
                let Some(sel) = selector else { return M::DontCare };
                match self.literal(sel) {
                    M::Ok => {}
                    o => return o,
                }
                self.one(K::IdRef)
            }
            K::PairIdRefLiteralInteger => {
                match self.one(K::IdRef) {
                    M::Ok => {}
                    o => return o,
                }
                self.one(K::LiteralInteger)
            }
            K::PairIdRefIdRef => {
                match self.one(K::IdRef) {
                    M::Ok => {}
                    o => return o,
                }
                self.one(K::IdRef)
            }
            K::LiteralSpecConstantOpInteger => {
                if depth > 0 {
                    return M::DontCare;
                }
                let Some(w) = self.take() else { return M::Fault(Fault::Missing) };
                let Some(idx) = (if w <= 0xffff {
                    self.g.core_by_code.get(&w).copied()
                } else {
                    None
                }) else {
                    return M::Fault(Fault::Undecodable);
                };
                let gi = &self.g.core[idx];
                if gi.operands.iter().any(|(k, _)| is_special_kind(*k)) {
                    // OpConstant / OpSpecConstant / OpSwitch / OpSpecConstantOp embedded:
                    // not a specialization-constant operation; verdict left open.
                    return M::DontCare;
                }
                self.ops.push(ROp {
                    kind,
                    words: vec![w],
                    string: None,
                });
                let operands: Vec<(K, Q)> = gi
                    .operands
                    .iter()
                    .copied()
                    .filter(|(k, _)| *k != K::IdResultType && *k != K::IdResult)
                    .collect();
                self.list(&operands, rtype, depth + 1)
            }
            _ => {
                let Some(ge) = genum(self.g, kind) else { return M::DontCare };
                let Some(w) = self.take() else { return M::Fault(Fault::Missing) };
                if ge.is_mask {
                    if w & !ge.all_bits != 0 {
                        return M::Fault(Fault::Undecodable);
                    }
                    self.ops.push(ROp {
                        kind,
                        words: vec![w],
                        string: None,
                    });
                    for b in &ge.bits {
                        if w & b.bit != 0 {
                            for p in &b.params {
                                match self.kind(*p, rtype, selector, depth + 1) {
                                    M::Ok => {}
                                    o => return o,
                                }
                            }
                        }
                    }
                    M::Ok
                } else {
                    let Some(en) = ge.enumerant(w) else {
                        return M::Fault(Fault::Undecodable);
                    };
                    self.ops.push(ROp {
                        kind,
                        words: vec![w],
                        string: None,
                    });
                    for p in &en.params {
                        match self.kind(*p, rtype, selector, depth + 1) {
                            M::Ok => {}
                            o => return o,
                        }
                    }
                    M::Ok
                }
            }
        }
    }
    /// Matches a logical operand list left-to-right, greedily.
    fn list(&mut self, operands: &[(K, Q)], rtype: Option<u32>, depth: usize) -> M {
        let first = self.ops.len();
        for (k, q) in operands {
            let selector = if *k == K::PairLiteralIntegerIdRef {
                self.ops.get(first).and_then(|o| {
                    if o.kind == K::IdRef {
                        Some(o.words[0])
                    } else {
                        None
                    }
                })
            } else {
                None
            };
            match q {
                Q::One => match self.kind(*k, rtype, selector, depth) {
                    M::Ok => {}
                    o => return o,
                },
                Q::ZeroOrOne => {
                    if self.left() == 0 {
                        self.more_possible = true;
                        self.next_kind = Some(*k);
                        if *k == K::LiteralContextDependentNumber {
                            self.pending_unsupported = rtype.map(|t| self.tc.lit_words(t) == LitW::Unsupported).unwrap_or(false);
                        }
                        return M::Ok;
                    }
                    match self.kind(*k, rtype, selector, depth) {
                        M::Ok => {}
                        o => return o,
                    }
                }
                Q::ZeroOrMore => {
                    while self.left() > 0 {
                        match self.kind(*k, rtype, selector, depth) {
                            M::Ok => {}
                            o => return o,
                        }
                    }
                    self.more_possible = true;
                    self.next_kind = Some(*k);
                    if *k == K::PairLiteralIntegerIdRef {
                        self.pending_unsupported = selector.map(|t| self.tc.lit_words(t) == LitW::Unsupported).unwrap_or(false);
                    }
                }
            }
        }
        M::Ok
    }
}

pub fn le32(b: &[u8]) -> u32 {
    u32::from_le_bytes([b[0], b[1], b[2], b[3]])
}

pub fn bytes_to_words(b: &[u8]) -> Vec<u32> {
    b.chunks_exact(4).map(le32).collect()
}

/// The reference recogniser. `bytes` is the whole binary.
pub fn ref_parse(bytes: &[u8]) -> RParse {
    let g = golden();
    if bytes.len() < 20 {
        let alt = if bytes.len() >= 4 && le32(bytes) != MAGIC {
            Some(if le32(bytes) == MAGIC.swap_bytes() { HeaderFault::Endianness } else { HeaderFault::Incorrect })
        } else {
            None
        };
        return RParse {
            header: Err(HeaderFault::Incomplete),
            header_alt: alt,
            insts: vec![],
            end: End::Clean,
            redefined_id: false,
        };
    }
    let hw: Vec<u32> = bytes_to_words(&bytes[..20]);
    if hw[0] != MAGIC {
        let f = if hw[0] == MAGIC.swap_bytes() {
            HeaderFault::Endianness
        } else {
            HeaderFault::Incorrect
        };
        return RParse {
            header: Err(f),
            header_alt: None,
            insts: vec![],
            end: End::Clean,
            redefined_id: false,
        };
    }
    let header = [hw[0], hw[1], hw[2], hw[3], hw[4]];
    let mut tc = TyCtx::new();
    let mut insts: Vec<RInst> = vec![];
    let mut defined = std::collections::HashSet::new();
    let mut redefined = false;
    let mut off = 20;
    let end;
    loop {
        if off + 4 > bytes.len() {
            end = if off == bytes.len() {
                End::Clean
            } else {
                End::Stray(bytes.len() - off)
            };
            break;
        }
        let index = insts.len() + 1;
        let first = le32(&bytes[off..]);
        let wc = (first >> 16) as usize;
        let opcode = first & 0xffff;
        if wc == 0 {
            // a zero word count on an undeclared opcode number: both faults are present in this
            // instruction, the statement does not rank them
            let mut classes = vec![Fault::WordCountZero];
            if !g.core_by_code.contains_key(&opcode) {
                classes.push(Fault::OpcodeUnknown);
            }
            end = End::Fault {
                index,
                start: off,
                wc: 0,
                classes,
                dont_care: false,
            };
            break;
        }
        let Some(gi) = g.core_by_code.get(&opcode).map(|i| &g.core[*i]) else {
            end = End::Fault {
                index,
                start: off,
                wc,
                classes: vec![Fault::OpcodeUnknown],
                dont_care: false,
            };
            break;
        };
        let avail_words = (bytes.len() - off) / 4; // complete words from `off`
        let truncated = wc > avail_words;
        let nops = wc.min(avail_words) - 1;
        let opwords = bytes_to_words(&bytes[off + 4..off + 4 + nops * 4]);
        let (rtype, rid, skip) = {
            let mut rt = None;
            let mut ri = None;
            let mut skip = 0;
            for (i, (k, _)) in gi.operands.iter().enumerate() {
                match k {
                    K::IdResultType => {
                        rt = opwords.get(i).copied();
                        skip = i + 1;
                    }
                    K::IdResult => {
                        ri = opwords.get(i).copied();
                        skip = i + 1;
                    }
                    _ => break,
                }
            }
            (rt, ri, skip)
        };
        let mut m = Matcher {
            g,
            tc: &tc,
            words: &opwords,
            pos: 0,
            base: off + 4,
            ops: vec![],
            pads: vec![],
            string_ran_out: false,
            more_possible: false,
            next_kind: None,
            pending_unsupported: false,
        };
        let r = m.list(&gi.operands, rtype, 0);
        let mut classes: Vec<Fault> = vec![];
        let mut dont_care = false;
        // what else a left-to-right reader may meet when the declared extent promises words
        // the stream does not hold
        let extra_undecodable = m.pending_unsupported
            || m.string_ran_out
            || (m.next_kind == Some(K::LiteralString) && bytes.len() % 4 != 0);
        match r {
            M::DontCare => dont_care = true,
            M::Fault(f) => {
                classes.push(f);
                if truncated && f == Fault::Missing && extra_undecodable {
                    classes.push(Fault::Undecodable);
                }
            }
            M::Ok => {
                if truncated {
                    if m.more_possible {
                        // the reader attempts the next optional / variadic operand: missing
                        classes.push(Fault::Missing);
                        if extra_undecodable {
                            classes.push(Fault::Undecodable);
                        }
                    } else {
                        // every logical operand was read, the word count promises more
                        classes.push(Fault::Surplus);
                    }
                } else if m.pos < opwords.len() {
                    classes.push(Fault::Surplus);
                }
            }
        }
        if truncated && !classes.is_empty() && !classes.contains(&Fault::Missing) {
            // the declared extent leaves the stream: words the instruction promises are missing,
            // whatever else is wrong with the words that are there (both faults are present; the
            // statement does not say which one is named)
            classes.push(Fault::Missing);
        }
        if dont_care || !classes.is_empty() {
            classes.sort();
            classes.dedup();
            end = End::Fault {
                index,
                start: off,
                wc,
                classes,
                dont_care,
            };
            break;
        }
        // well-formed instruction
        let ops: Vec<ROp> = m.ops[skip.min(m.ops.len())..].to_vec();
        let pads = m.pads.clone();
        drop(m);
        if let Some(r) = rid {
            if !defined.insert(r) {
                redefined = true;
            }
        }
        tc.track(&gi.opname, rtype, rid, &opwords[skip.min(opwords.len())..]);
        insts.push(RInst {
            opcode,
            opname: gi.opname.clone(),
            rtype,
            rid,
            ops,
            start: off,
            wc,
            pads,
        });
        off += wc * 4;
    }
    RParse {
        header_alt: None,
        header: Ok(header),
        insts,
        end,
        redefined_id: redefined,
    }
}

/// The dr::Operand variant and payload the grammar kind demands.
pub fn rop_operand(r: &ROp) -> Option<Operand> {
    Some(match r.kind {
        K::IdRef => Operand::IdRef(r.words[0]),
        K::IdScope => Operand::IdScope(r.words[0]),
        K::IdMemorySemantics => Operand::IdMemorySemantics(r.words[0]),
        K::LiteralInteger | K::LiteralFloat => Operand::LiteralBit32(r.words[0]),
        K::LiteralExtInstInteger => Operand::LiteralExtInstInteger(r.words[0]),
        K::LiteralString => Operand::LiteralString(r.string.clone()?),
        K::LiteralContextDependentNumber => {
            if r.words.len() == 1 {
                Operand::LiteralBit32(r.words[0])
            } else {
                Operand::LiteralBit64((r.words[0] as u64) | ((r.words[1] as u64) << 32))
            }
        }
        K::LiteralSpecConstantOpInteger => {
            Operand::LiteralSpecConstantOpInteger(spirv::Op::from_u32(r.words[0])?)
        }
        K::IdResultType
        | K::IdResult
        | K::PairIdRefIdRef
        | K::PairIdRefLiteralInteger
        | K::PairLiteralIntegerIdRef => return None,
        k => enum_operand(k, r.words[0])?,
    })
}

pub fn rinst_to_dr(r: &RInst) -> Option<dr::Instruction> {
    let op = spirv::Op::from_u32(r.opcode)?;
    let mut ops = vec![];
    for o in &r.ops {
        ops.push(rop_operand(o)?);
    }
    Some(crate::rs::mk_inst(op, r.rtype, r.rid, ops))
}
