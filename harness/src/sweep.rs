//! G-sweep: deterministic enumeration of instruction shapes that every tier
//! runs completely: every opcode in minimal and maximal form, every enumerant
//! of every operand kind, every single mask bit, every embeddable opcode.

use crate::cs::Cs;
use crate::golden::{golden, GInst};
use crate::model::*;
use rspirv::grammar::OperandKind as K;
use std::collections::BTreeMap;
use std::sync::OnceLock;

#[derive(Clone, Debug)]
pub struct SweepCase {
    pub gi: &'static GInst,
    pub fill: Fill,
    pub force: Vec<(K, u32)>,
    pub what: &'static str,
}

/// kind -> (carrier instruction, forced parents)
fn carriers() -> BTreeMap<String, (&'static GInst, Vec<(K, u32)>)> {
    let g = golden();
    let mut m: BTreeMap<String, (&'static GInst, Vec<(K, u32)>)> = BTreeMap::new();
    // direct carriers; prefer instructions where the kind is not optional and with few operands
    for gi in &g.core {
        for (k, _) in &gi.operands {
            let name = format!("{:?}", k);
            if g.enums.contains_key(&name) {
                let better = match m.get(&name) {
                    None => true,
                    Some((old, _)) => gi.operands.len() < old.operands.len(),
                };
                if better {
                    m.insert(name, (gi, vec![]));
                }
            }
        }
    }
    // kinds only reachable as parameters (one or two levels)
    for _ in 0..3 {
        for (pname, pe) in &g.enums {
            let Some((pgi, pforce)) = m.get(pname).cloned() else { continue };
            let pk = crate::kinds::kind_from_name(pname).unwrap();
            if pe.is_mask {
                for b in &pe.bits {
                    for p in &b.params {
                        let n = format!("{:?}", p);
                        if g.enums.contains_key(&n) && !m.contains_key(&n) {
                            let mut f = pforce.clone();
                            f.push((pk, b.bit));
                            m.insert(n, (pgi, f));
                        }
                    }
                }
            } else {
                for e in &pe.values {
                    for p in &e.params {
                        let n = format!("{:?}", p);
                        if g.enums.contains_key(&n) && !m.contains_key(&n) {
                            let mut f = pforce.clone();
                            f.push((pk, e.value));
                            m.insert(n, (pgi, f));
                        }
                    }
                }
            }
        }
    }
    m
}

pub fn cases() -> &'static Vec<SweepCase> {
    static C: OnceLock<Vec<SweepCase>> = OnceLock::new();
    C.get_or_init(|| {
        let g = golden();
        let mut v = vec![];
        for gi in &g.core {
            v.push(SweepCase {
                gi,
                fill: Fill::Min,
                force: vec![],
                what: "opcode-min",
            });
            v.push(SweepCase {
                gi,
                fill: Fill::Max,
                force: vec![],
                what: "opcode-max",
            });
        }
        let car = carriers();
        for (name, e) in &g.enums {
            let Some(k) = crate::kinds::kind_from_name(name) else { continue };
            let Some((gi, force)) = car.get(name) else { continue };
            if e.is_mask {
                let mut vals = vec![0u32, e.all_bits];
                for b in &e.bits {
                    vals.push(b.bit);
                }
                for i in 0..e.bits.len() {
                    for j in i + 1..e.bits.len() {
                        vals.push(e.bits[i].bit | e.bits[j].bit);
                    }
                }
                for val in vals {
                    let mut f = force.clone();
                    f.push((k, val));
                    v.push(SweepCase {
                        gi,
                        fill: Fill::Max,
                        force: f,
                        what: "mask-value",
                    });
                }
            } else {
                for en in &e.values {
                    let mut f = force.clone();
                    f.push((k, en.value));
                    v.push(SweepCase {
                        gi,
                        fill: Fill::Max,
                        force: f,
                        what: "enumerant",
                    });
                }
            }
        }
        // every opcode embedded in OpSpecConstantOp (those without context-dependent operands)
        let sco = g.core.iter().find(|i| i.opname == "SpecConstantOp").unwrap();
        for gi in &g.core {
            if gi.operands.iter().any(|(k, _)| is_special_kind(*k)) {
                continue;
            }
            for fill in [Fill::Min, Fill::Max] {
                v.push(SweepCase {
                    gi: sco,
                    fill,
                    force: vec![(K::LiteralSpecConstantOpInteger, gi.opcode)],
                    what: "embedded",
                });
            }
        }
        v
    })
}

pub fn uncovered_kinds() -> Vec<String> {
    let g = golden();
    let car = carriers();
    g.enums
        .keys()
        .filter(|k| crate::kinds::kind_from_name(k).is_some() && !car.contains_key(*k))
        .cloned()
        .collect()
}

/// Deterministic pseudo-stream for enumerated cases (a pure function of the index).
pub fn stream_for(index: u64, len: usize) -> Vec<u8> {
    let mut x = index.wrapping_mul(0x9E37_79B9_7F4A_7C15) ^ 0xD6E8_FEB8_6659_FD93;
    let mut out = Vec::with_capacity(len);
    while out.len() < len {
        x = x.wrapping_add(0x9E37_79B9_7F4A_7C15);
        let mut z = x;
        z = (z ^ (z >> 30)).wrapping_mul(0xBF58_476D_1CE4_E5B9);
        z = (z ^ (z >> 27)).wrapping_mul(0x94D0_49BB_1331_11EB);
        z ^= z >> 31;
        out.extend_from_slice(&z.to_le_bytes());
    }
    out.truncate(len);
    out
}

/// Builds the plan of a sweep case (with a small type prelude so that typed
/// literals of every width occur). Returns prelude plans + the plan.
pub fn build(case: &SweepCase, index: u64) -> Option<(Vec<Plan>, Plan)> {
    let stream = stream_for(index, 512);
    let mut cs = Cs::new(&stream);
    let mut gen = Gen::new();
    gen.fill = case.fill;
    gen.next_id = 100;
    let mut prelude = vec![];
    let needs_ctx = case.gi.opcode == OP_CONSTANT
        || case.gi.opcode == OP_SPEC_CONSTANT
        || case.gi.opcode == OP_SWITCH;
    if needs_ctx {
        // one declaration, chosen by the index: int 8/16/32/64, float 16/32/64, or none
        let choice = index % 8;
        let (is_int, w) = match choice {
            0 => (true, 8),
            1 => (true, 16),
            2 => (true, 32),
            3 => (true, 64),
            4 => (false, 16),
            5 => (false, 32),
            6 => (false, 64),
            _ => (true, 0),
        };
        if w != 0 {
            let rid = gen.fresh();
            let p = if is_int {
                Plan {
                    opcode: OP_TYPE_INT,
                    opname: "TypeInt",
                    rtype: None,
                    rid: Some(rid),
                    operands: vec![
                        rspirv::dr::Operand::LiteralBit32(w),
                        rspirv::dr::Operand::LiteralBit32((index / 8 % 2) as u32),
                    ],
                    body: vec![rid, w, (index / 8 % 2) as u32],
                    shape: Shape::default(),
                }
            } else {
                Plan {
                    opcode: OP_TYPE_FLOAT,
                    opname: "TypeFloat",
                    rtype: None,
                    rid: Some(rid),
                    operands: vec![rspirv::dr::Operand::LiteralBit32(w)],
                    body: vec![rid, w],
                    shape: Shape::default(),
                }
            };
            gen.track(&p);
            prelude.push(p);
            if case.gi.opcode == OP_SWITCH {
                // a value of that type, to be used as selector
                let vid = gen.fresh();
                let p2 = Plan {
                    opcode: 1,
                    opname: "Undef",
                    rtype: Some(rid),
                    rid: Some(vid),
                    operands: vec![],
                    body: vec![rid, vid],
                    shape: Shape::default(),
                };
                gen.track(&p2);
                prelude.push(p2);
                gen.typed_ids = vec![vid];
            }
        }
    }
    gen.force = case.force.clone();
    let p = gen.plan(&mut cs, case.gi)?;
    if !gen.force.is_empty() {
        // the forced value was not used (e.g. optional operand absent): not a sweep hit
        return None;
    }
    Some((prelude, p))
}
