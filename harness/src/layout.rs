//! R2 (loader / logical-layout model), G-module (module generators) and
//! G-mutate (byte-level faults).

use crate::cs::Cs;
use crate::golden::{golden, GInst};
use crate::model::*;
use crate::refclass::{layout, Layout};
use rspirv::dr;

// ---------------------------------------------------------------------------
// R2

#[derive(Clone, Copy, PartialEq, Eq, Debug, PartialOrd, Ord)]
pub enum LoadErr {
    NestedFunction,
    UnclosedFunction,
    MismatchedFunctionEnd,
    DetachedFunctionParameter,
    DetachedBlock,
    NestedBlock,
    UnclosedBlock,
    MismatchedTerminator,
    DetachedInstruction,
}

pub enum R2 {
    Accept(Box<R2Accept>),
    /// `at` = index of the first offending instruction (== len for end of stream)
    Reject { at: usize, errs: Vec<LoadErr> },
    /// outside the claim from instruction `at` on
    DontCare { at: usize },
}

#[derive(Clone, Debug, Default)]
pub struct PFunc {
    pub def: usize,
    pub params: Vec<usize>,
    pub blocks: Vec<(usize, Vec<usize>)>,
    pub end: usize,
}

/// Where every input instruction (by index) is stored.
#[derive(Clone, Debug, Default)]
pub struct Placement {
    pub capabilities: Vec<usize>,
    pub extensions: Vec<usize>,
    pub ext_inst_imports: Vec<usize>,
    pub memory_model: Option<usize>,
    pub entry_points: Vec<usize>,
    pub execution_modes: Vec<usize>,
    pub debug_string_source: Vec<usize>,
    pub debug_names: Vec<usize>,
    pub debug_module_processed: Vec<usize>,
    pub annotations: Vec<usize>,
    pub types_global_values: Vec<usize>,
    pub functions: Vec<PFunc>,
}

impl Placement {
    /// Expected assembly order (indices into the input instruction list).
    pub fn order(&self) -> Vec<usize> {
        let mut v = vec![];
        v.extend(&self.capabilities);
        v.extend(&self.extensions);
        v.extend(&self.ext_inst_imports);
        v.extend(self.memory_model.iter());
        v.extend(&self.entry_points);
        v.extend(&self.execution_modes);
        v.extend(&self.debug_string_source);
        v.extend(&self.debug_names);
        v.extend(&self.debug_module_processed);
        v.extend(&self.annotations);
        v.extend(&self.types_global_values);
        for f in &self.functions {
            v.push(f.def);
            v.extend(&f.params);
            for (l, b) in &f.blocks {
                v.push(*l);
                v.extend(b);
            }
            v.push(f.end);
        }
        v
    }
    /// The model module (header left to the caller).
    pub fn to_module(&self, insts: &[dr::Instruction]) -> dr::Module {
        let pick = |v: &Vec<usize>| -> Vec<dr::Instruction> {
            v.iter().map(|i| insts[*i].clone()).collect()
        };
        let mut m = dr::Module::new();
        m.capabilities = pick(&self.capabilities);
        m.extensions = pick(&self.extensions);
        m.ext_inst_imports = pick(&self.ext_inst_imports);
        m.memory_model = self.memory_model.map(|i| insts[i].clone());
        m.entry_points = pick(&self.entry_points);
        m.execution_modes = pick(&self.execution_modes);
        m.debug_string_source = pick(&self.debug_string_source);
        m.debug_names = pick(&self.debug_names);
        m.debug_module_processed = pick(&self.debug_module_processed);
        m.annotations = pick(&self.annotations);
        m.types_global_values = pick(&self.types_global_values);
        for f in &self.functions {
            let mut df = dr::Function::new();
            df.def = Some(insts[f.def].clone());
            df.end = Some(insts[f.end].clone());
            df.parameters = pick(&f.params);
            for (l, b) in &f.blocks {
                let mut db = dr::Block::new();
                db.label = Some(insts[*l].clone());
                db.instructions = pick(b);
                df.blocks.push(db);
            }
            m.functions.push(df);
        }
        m
    }
}

pub struct R2Accept {
    pub placement: Placement,
    /// OpLine/OpNoLine inside a function but outside a block (outside C01's guarantee)
    pub line_outside_block: bool,
    pub memory_models: usize,
    /// a module-level instruction appeared inside a function (hoisted by the loader)
    pub hoisted: bool,
    /// input was not already in layout order
    pub reordered: bool,
}

struct OpenFunc {
    def: usize,
    params: Vec<usize>,
    blocks: Vec<(usize, Vec<usize>)>,
}

/// The loader model: `names[i]` is the opname of the i-th instruction.
pub fn r2_load(names: &[&str]) -> R2 {
    let mut m = Placement::default();
    let mut func: Option<OpenFunc> = None;
    let mut block: Option<(usize, Vec<usize>)> = None;
    let mut line_outside_block = false;
    let mut memory_models = 0;
    let mut hoisted = false;
    macro_rules! rej {
        ($i:expr, $e:expr) => {
            return R2::Reject {
                at: $i,
                errs: vec![$e],
            }
        };
    }
    for (i, name) in names.iter().enumerate() {
        let mut l = layout(name);
        if l == Layout::BlockOrDontCare {
            // an extended instruction (and the like): a block instruction inside a block; outside
            // the claim only at *module scope*; inside an open function but outside a block it is
            // not module-level by any reading, hence detached
            if block.is_some() || func.is_some() {
                l = Layout::Block;
            } else {
                return R2::DontCare { at: i };
            }
        }
        let module_level = matches!(
            l,
            Layout::Capability
                | Layout::Extension
                | Layout::ExtInstImport
                | Layout::MemoryModel
                | Layout::EntryPoint
                | Layout::ExecutionMode
                | Layout::DebugStringSource
                | Layout::DebugName
                | Layout::ModuleProcessed
                | Layout::Annotation
                | Layout::TypeConst
        );
        if module_level && func.is_some() {
            hoisted = true;
        }
        match l {
            Layout::DontCare | Layout::BlockOrDontCare => return R2::DontCare { at: i },
            Layout::Capability => m.capabilities.push(i),
            Layout::Extension => m.extensions.push(i),
            Layout::ExtInstImport => m.ext_inst_imports.push(i),
            Layout::MemoryModel => {
                memory_models += 1;
                m.memory_model = Some(i);
            }
            Layout::EntryPoint => m.entry_points.push(i),
            Layout::ExecutionMode => m.execution_modes.push(i),
            Layout::DebugStringSource => m.debug_string_source.push(i),
            Layout::DebugName => m.debug_names.push(i),
            Layout::ModuleProcessed => m.debug_module_processed.push(i),
            Layout::Annotation => m.annotations.push(i),
            Layout::TypeConst => m.types_global_values.push(i),
            Layout::Line => match &mut block {
                Some(b) => b.1.push(i),
                None => {
                    if func.is_some() {
                        line_outside_block = true;
                    }
                    m.types_global_values.push(i)
                }
            },
            Layout::VarUndef => {
                if func.is_none() {
                    m.types_global_values.push(i)
                } else {
                    match &mut block {
                        Some(b) => b.1.push(i),
                        None => rej!(i, LoadErr::DetachedInstruction),
                    }
                }
            }
            Layout::Function => {
                if func.is_some() {
                    rej!(i, LoadErr::NestedFunction);
                }
                func = Some(OpenFunc {
                    def: i,
                    params: vec![],
                    blocks: vec![],
                });
            }
            Layout::FunctionEnd => {
                if func.is_none() {
                    rej!(i, LoadErr::MismatchedFunctionEnd);
                }
                if block.is_some() {
                    rej!(i, LoadErr::UnclosedBlock);
                }
                let f = func.take().unwrap();
                m.functions.push(PFunc {
                    def: f.def,
                    params: f.params,
                    blocks: f.blocks,
                    end: i,
                });
            }
            Layout::Parameter => match &mut func {
                None => rej!(i, LoadErr::DetachedFunctionParameter),
                Some(f) => f.params.push(i),
            },
            Layout::Label => {
                if func.is_none() {
                    rej!(i, LoadErr::DetachedBlock);
                }
                if block.is_some() {
                    rej!(i, LoadErr::NestedBlock);
                }
                block = Some((i, vec![]));
            }
            Layout::Terminator => match block.take() {
                None => rej!(i, LoadErr::MismatchedTerminator),
                Some(mut b) => {
                    b.1.push(i);
                    func.as_mut().unwrap().blocks.push(b);
                }
            },
            Layout::Block => match &mut block {
                None => rej!(i, LoadErr::DetachedInstruction),
                Some(b) => b.1.push(i),
            },
        }
    }
    if block.is_some() {
        return R2::Reject {
            at: names.len(),
            errs: vec![LoadErr::UnclosedBlock, LoadErr::UnclosedFunction],
        };
    }
    if func.is_some() {
        return R2::Reject {
            at: names.len(),
            errs: vec![LoadErr::UnclosedFunction],
        };
    }
    let order = m.order();
    let reordered = order.iter().enumerate().any(|(k, i)| k != *i);
    R2::Accept(Box::new(R2Accept {
        placement: m,
        line_outside_block,
        memory_models,
        hoisted,
        reordered,
    }))
}

pub fn classify_dr_error(e: &dr::Error) -> Option<LoadErr> {
    Some(match e {
        dr::Error::NestedFunction => LoadErr::NestedFunction,
        dr::Error::UnclosedFunction => LoadErr::UnclosedFunction,
        dr::Error::MismatchedFunctionEnd => LoadErr::MismatchedFunctionEnd,
        dr::Error::DetachedFunctionParameter => LoadErr::DetachedFunctionParameter,
        dr::Error::DetachedBlock => LoadErr::DetachedBlock,
        dr::Error::NestedBlock => LoadErr::NestedBlock,
        dr::Error::UnclosedBlock => LoadErr::UnclosedBlock,
        dr::Error::MismatchedTerminator => LoadErr::MismatchedTerminator,
        dr::Error::DetachedInstruction(_) => LoadErr::DetachedInstruction,
        _ => return None,
    })
}

// ---------------------------------------------------------------------------
// G-module

pub struct OpPools {
    pub by_layout: std::collections::BTreeMap<Layout, Vec<&'static GInst>>,
    pub all: Vec<&'static GInst>,
}

pub fn pools() -> &'static OpPools {
    static P: std::sync::OnceLock<OpPools> = std::sync::OnceLock::new();
    P.get_or_init(|| {
        let g = golden();
        let mut by_layout: std::collections::BTreeMap<Layout, Vec<&'static GInst>> =
            Default::default();
        for gi in &g.core {
            by_layout.entry(layout(&gi.opname)).or_default().push(gi);
        }
        OpPools {
            by_layout,
            all: g.core.iter().collect(),
        }
    })
}

pub fn gi_by_name(name: &str) -> &'static GInst {
    golden()
        .core
        .iter()
        .find(|i| i.opname == name)
        .unwrap_or_else(|| panic!("no golden instruction {}", name))
}

#[derive(Clone, Copy, PartialEq, Eq, Debug)]
pub enum ModMode {
    /// layout-ordered, well-bracketed
    Ordered,
    /// well-bracketed, module-level instructions anywhere
    Interleaved,
    /// arbitrary letters of the structural alphabet
    Wild,
}

pub struct GenModule {
    pub plans: Vec<Plan>,
    pub version: (u8, u8),
    pub bound: u32,
    pub mode: ModMode,
    /// generator and schema words of the header (edge mode: arbitrary)
    pub gen_schema: (u32, u32),
}

impl GenModule {
    pub fn words(&self) -> Vec<u32> {
        let mut w = header_words(self.version, self.bound);
        w[2] = self.gen_schema.0;
        w[4] = self.gen_schema.1;
        for p in &self.plans {
            w.extend(p.words());
        }
        w
    }
    /// word offsets (into words()) of each instruction
    pub fn offsets(&self) -> Vec<usize> {
        let mut o = vec![];
        let mut at = 5;
        for p in &self.plans {
            o.push(at);
            at += p.body.len() + 1;
        }
        o
    }
    pub fn render(&self) -> String {
        let mut s = format!(
            "; mode={:?} version={}.{} bound={} generator={:#x} schema={:#x}\n",
            self.mode, self.version.0, self.version.1, self.bound, self.gen_schema.0, self.gen_schema.1
        );
        for p in &self.plans {
            s.push_str(&show_inst(&p.inst()));
            s.push('\n');
        }
        s
    }
}

fn emit(gen: &mut Gen, cs: &mut Cs, out: &mut Vec<Plan>, gi: &'static GInst) -> bool {
    // a few attempts: some type contexts make an opcode impossible (unsupported widths)
    for _ in 0..3 {
        if let Some(p) = gen.plan(cs, gi) {
            gen.track(&p);
            out.push(p);
            return true;
        }
    }
    false
}

fn pick_from(cs: &mut Cs, v: &[&'static GInst]) -> &'static GInst {
    v[cs.below(v.len())]
}

/// Emits OpTypeInt / OpTypeFloat declarations (and sometimes typed values).
pub fn type_prelude(gen: &mut Gen, cs: &mut Cs, out: &mut Vec<Plan>, supported_only: bool) {
    let n = cs.below(5);
    for _ in 0..n {
        let is_int = cs.bool();
        let widths_ok: &[u32] = if is_int { &[8, 16, 32, 64] } else { &[16, 32, 64] };
        let widths_bad: &[u32] = &[1, 4, 24, 48, 128, 0, 33];
        let w = if supported_only || cs.below(5) != 0 {
            widths_ok[cs.below(widths_ok.len())]
        } else {
            widths_bad[cs.below(widths_bad.len())]
        };
        let rid = gen.fresh_cs(cs);
        let p = if is_int {
            let sign = match cs.below(8) {
                0..=3 => 0,
                4..=6 => 1,
                _ => 2,
            };
            Plan {
                opcode: OP_TYPE_INT,
                opname: "TypeInt",
                rtype: None,
                rid: Some(rid),
                operands: vec![dr::Operand::LiteralBit32(w), dr::Operand::LiteralBit32(sign)],
                body: vec![rid, w, sign],
                shape: Shape::default(),
            }
        } else {
            Plan {
                opcode: OP_TYPE_FLOAT,
                opname: "TypeFloat",
                rtype: None,
                rid: Some(rid),
                operands: vec![dr::Operand::LiteralBit32(w)],
                body: vec![rid, w],
                shape: Shape::default(),
            }
        };
        gen.track(&p);
        out.push(p);
    }
}

pub fn gen_module(cs: &mut Cs, mode: ModMode, max_insts: usize) -> GenModule {
    let p = pools();
    let mut gen = Gen::new();
    gen.bound = 8 + cs.below(56) as u32;
    if gen.edge_ids && cs.below(24) == 0 {
        // instructions of thousands of words
        gen.max_rep = 1400;
        gen.long_strings = true;
    }
    let mut out: Vec<Plan> = vec![];
    let version = match cs.below(8) {
        0 => (1, 0),
        1 => (1, 3),
        2 => (1, 6),
        3 => (cs.u8(), cs.u8()),
        _ => (1, cs.below(7) as u8),
    };
    let lv = |l: Layout| -> &'static [&'static GInst] {
        p.by_layout.get(&l).map(|v| v.as_slice()).unwrap_or(&[])
    };
    // edge mode: one module in sixteen is several times larger (hundreds of instructions,
    // a dozen functions, sections of a dozen instructions)
    let mul = if gen.edge_ids && cs.below(16) == 0 { 6 } else { 1 };
    let max_insts = max_insts * mul;
    match mode {
        ModMode::Ordered | ModMode::Interleaved => {
            // module-level sections in layout order
            let sections = [
                (Layout::Capability, 3),
                (Layout::Extension, 2),
                (Layout::ExtInstImport, 2),
                (Layout::MemoryModel, 1),
                (Layout::EntryPoint, 2),
                (Layout::ExecutionMode, 3),
                (Layout::DebugStringSource, 3),
                (Layout::DebugName, 3),
                (Layout::ModuleProcessed, 2),
                (Layout::Annotation, 4),
            ];
            let mut module_level: Vec<Plan> = vec![];
            for (l, maxn) in sections {
                let n = if l == Layout::MemoryModel {
                    (cs.below(8) != 0) as usize
                } else {
                    cs.below(maxn * mul + 1)
                };
                for _ in 0..n {
                    let gi = pick_from(cs, lv(l));
                    emit(&mut gen, cs, &mut module_level, gi);
                }
            }
            // types / constants / globals
            let mut tgv: Vec<Plan> = vec![];
            let supported = cs.below(4) != 0;
            type_prelude(&mut gen, cs, &mut tgv, supported);
            let n = cs.below(8 * mul);
            for _ in 0..n {
                let gi = match cs.below(8) {
                    0 => gi_by_name("Variable"),
                    1 => gi_by_name("Undef"),
                    2 => gi_by_name("Constant"),
                    3 => gi_by_name("SpecConstant"),
                    4 => pick_from(cs, lv(Layout::Line)),
                    _ => pick_from(cs, lv(Layout::TypeConst)),
                };
                emit(&mut gen, cs, &mut tgv, gi);
            }
            // functions
            let mut funcs: Vec<Vec<Plan>> = vec![];
            let nf = cs.below(4 * mul);
            for _ in 0..nf {
                let mut f: Vec<Plan> = vec![];
                emit(&mut gen, cs, &mut f, gi_by_name("Function"));
                for _ in 0..cs.below(3) {
                    emit(&mut gen, cs, &mut f, gi_by_name("FunctionParameter"));
                }
                let nb = cs.below(4);
                for _ in 0..nb {
                    emit(&mut gen, cs, &mut f, gi_by_name("Label"));
                    let ni = cs.below(6 * mul);
                    for _ in 0..ni {
                        let gi = match cs.below(12) {
                            0 => gi_by_name("Variable"),
                            1 => gi_by_name("Undef"),
                            2 => pick_from(cs, lv(Layout::Line)),
                            3 => gi_by_name("ExtInst"),
                            4 => gi_by_name("Load"),
                            5 => gi_by_name("IAdd"),
                            _ => pick_from(cs, lv(Layout::Block)),
                        };
                        emit(&mut gen, cs, &mut f, gi);
                    }
                    let t = pick_from(cs, lv(Layout::Terminator));
                    if !emit(&mut gen, cs, &mut f, t) {
                        emit(&mut gen, cs, &mut f, gi_by_name("Return"));
                    }
                }
                emit(&mut gen, cs, &mut f, gi_by_name("FunctionEnd"));
                funcs.push(f);
            }
            if mode == ModMode::Ordered {
                out.extend(module_level);
                out.extend(tgv);
                for f in funcs {
                    out.extend(f);
                }
            } else {
                // keep function structure, scatter module-level instructions and tgv
                // (note: the type context was built in generation order; literal
                // consumers must stay after their type declarations, so types/constants
                // keep their relative order and only *module_level* instructions (which
                // never declare or consume typed literals) are scattered.
                let mut seq: Vec<Plan> = vec![];
                seq.extend(tgv);
                for f in funcs {
                    seq.extend(f);
                }
                for ml in module_level {
                    let pos = cs.below(seq.len() + 1);
                    seq.insert(pos, ml);
                }
                out = seq;
            }
        }
        ModMode::Wild => {
            let n = cs.below(max_insts.max(1) + 1);
            type_prelude(&mut gen, cs, &mut out, true);
            for _ in 0..n {
                let gi = match cs.below(20) {
                    0 | 1 => gi_by_name("Function"),
                    2 | 3 => gi_by_name("FunctionEnd"),
                    4 => gi_by_name("FunctionParameter"),
                    5 | 6 | 7 => gi_by_name("Label"),
                    8 | 9 => pick_from(cs, lv(Layout::Terminator)),
                    10 => gi_by_name("Return"),
                    11 => pick_from(cs, lv(Layout::Block)),
                    12 => gi_by_name("Nop"),
                    13 => {
                        if cs.bool() {
                            gi_by_name("Variable")
                        } else {
                            gi_by_name("Undef")
                        }
                    }
                    14 => pick_from(cs, lv(Layout::Line)),
                    15 => pick_from(cs, lv(Layout::TypeConst)),
                    16 => pick_from(cs, lv(Layout::Annotation)),
                    _ => {
                        let ls = [
                            Layout::Capability,
                            Layout::Extension,
                            Layout::ExtInstImport,
                            Layout::MemoryModel,
                            Layout::EntryPoint,
                            Layout::ExecutionMode,
                            Layout::DebugStringSource,
                            Layout::DebugName,
                            Layout::ModuleProcessed,
                        ];
                        let l = ls[cs.below(ls.len())];
                        pick_from(cs, lv(l))
                    }
                };
                emit(&mut gen, cs, &mut out, gi);
            }
        }
    }
    if out.len() > max_insts {
        // keep it small but well-formed only for Wild (others rely on brackets)
        if mode == ModMode::Wild {
            out.truncate(max_insts);
        }
    }
    if gen.edge_ids && !out.is_empty() && cs.below(4) == 0 {
        // a run of identical instructions (same ids, same operands)
        let at = cs.below(out.len());
        let reps = 1 + cs.below(4);
        let x = out[at].clone();
        for _ in 0..reps {
            out.insert(at, x.clone());
        }
    }
    let mut bound = match cs.below(4) {
        0 => cs.u32(),
        _ => gen.next_id.max(gen.bound),
    };
    let mut gen_schema = (ambient_generator(), 0);
    if gen.edge_ids {
        // header extremes: bound 0 / 1 / u32::MAX, arbitrary generator and schema words
        match cs.below(6) {
            0 => bound = 0,
            1 => bound = u32::MAX,
            2 => bound = 1,
            _ => {}
        }
        if cs.bool() {
            gen_schema = (cs.lit32(), cs.lit32());
        }
    }
    GenModule {
        plans: out,
        version,
        bound,
        mode,
        gen_schema,
    }
}

// ---------------------------------------------------------------------------
// G-mutate

/// Applies 1..=3 stacked byte-level faults to a module; returns the mutated
/// bytes and a description of the faults (for statistics only: the oracle
/// never sees it).
pub fn mutate(cs: &mut Cs, m: &GenModule) -> (Vec<u8>, Vec<&'static str>) {
    let words = m.words();
    let offsets = m.offsets();
    let mut w = words.clone();
    let mut bytes: Option<Vec<u8>> = None;
    let mut kinds = vec![];
    let nmut = 1 + cs.below(3);
    let g = golden();
    for _ in 0..nmut {
        if bytes.is_some() {
            break;
        }
        let ninst = offsets.len();
        let pick_inst = |cs: &mut Cs| -> Option<(usize, usize)> {
            if ninst == 0 {
                None
            } else {
                let i = cs.below(ninst);
                let start = offsets[i];
                let len = m.plans[i].body.len() + 1;
                Some((start, len))
            }
        };
        match cs.below(16) {
            0 => {
                // truncate at any byte
                let mut b = words_to_bytes(&w);
                let at = cs.below(b.len() + 1);
                b.truncate(at);
                bytes = Some(b);
                kinds.push("truncate");
            }
            1 => {
                if let Some((s, len)) = pick_inst(cs) {
                    if s < w.len() {
                        let wc = match cs.below(6) {
                            0 => 0,
                            1 => 1,
                            2 => len as u32 + 1,
                            3 => (len as u32).saturating_sub(1),
                            4 => 0xffff,
                            _ => cs.below(20) as u32,
                        };
                        w[s] = (w[s] & 0xffff) | (wc << 16);
                        kinds.push("word-count");
                    }
                }
            }
            2 => {
                if let Some((s, _)) = pick_inst(cs) {
                    if s < w.len() {
                        // an undeclared opcode number
                        let mut op = cs.u16() as u32;
                        for _ in 0..16 {
                            if !g.core_by_code.contains_key(&op) {
                                break;
                            }
                            op = (op + 1) & 0xffff;
                        }
                        w[s] = (w[s] & 0xffff_0000) | op;
                        kinds.push("unknown-opcode");
                    }
                }
            }
            3 => {
                if let Some((s, _)) = pick_inst(cs) {
                    if s < w.len() {
                        // another declared opcode, same word count
                        let gi = &g.core[cs.below(g.core.len())];
                        w[s] = (w[s] & 0xffff_0000) | gi.opcode;
                        kinds.push("other-opcode");
                    }
                }
            }
            4 | 5 => {
                // overwrite an operand word with an edge / undeclared value
                if let Some((s, len)) = pick_inst(cs) {
                    if len > 1 {
                        let k = s + 1 + cs.below(len - 1);
                        if k < w.len() {
                            w[k] = match cs.below(6) {
                                0 => 0xffff_ffff,
                                1 => 0x7fff_fffe,
                                2 => w[k] ^ (1 << cs.below(32)),
                                3 => w[k].wrapping_add(1),
                                4 => 0x4000_0000,
                                _ => cs.u32(),
                            };
                            kinds.push("operand-word");
                        }
                    }
                }
            }
            6 => {
                if !w.is_empty() {
                    let k = cs.below(w.len());
                    w.remove(k);
                    kinds.push("delete-word");
                }
            }
            7 => {
                let k = cs.below(w.len() + 1);
                let v = cs.lit32();
                w.insert(k, v);
                kinds.push("insert-word");
            }
            8 => {
                if !w.is_empty() {
                    let k = cs.below(w.len());
                    let v = w[k];
                    w.insert(k, v);
                    kinds.push("duplicate-word");
                }
            }
            9 => {
                // string faults: garbage after NUL / remove NUL / invalid utf-8
                let cands: Vec<usize> = m
                    .plans
                    .iter()
                    .enumerate()
                    .filter(|(_, p)| !p.shape.strings.is_empty())
                    .map(|(i, _)| i)
                    .collect();
                if !cands.is_empty() {
                    let i = cands[cs.below(cands.len())];
                    let s = offsets[i];
                    let len = m.plans[i].body.len() + 1;
                    // find the last word with a NUL byte inside the instruction
                    for k in (s + 1..(s + len).min(w.len())).rev() {
                        let b = w[k].to_le_bytes();
                        if let Some(z) = b.iter().position(|x| *x == 0) {
                            let mut nb = b;
                            match cs.below(3) {
                                0 => {
                                    for x in nb.iter_mut().skip(z + 1) {
                                        *x = 0x41 + cs.below(20) as u8;
                                    }
                                    kinds.push("garbage-after-nul");
                                }
                                1 => {
                                    for x in nb.iter_mut() {
                                        if *x == 0 {
                                            *x = b'x';
                                        }
                                    }
                                    kinds.push("remove-nul");
                                }
                                _ => {
                                    if z > 0 {
                                        nb[0] = 0xff;
                                    } else if k > s + 1 {
                                        w[k - 1] |= 0xff00_0000;
                                    }
                                    kinds.push("invalid-utf8");
                                }
                            }
                            w[k] = u32::from_le_bytes(nb);
                            break;
                        }
                    }
                }
            }
            10 => {
                if !w.is_empty() {
                    w[0] = match cs.below(3) {
                        0 => w[0].swap_bytes(),
                        1 => w[0] ^ (1 << cs.below(32)),
                        _ => cs.u32(),
                    };
                    kinds.push("magic");
                }
            }
            11 => {
                let mut b = words_to_bytes(&w);
                let at = cs.below(20.min(b.len()) + 1);
                b.truncate(at);
                bytes = Some(b);
                kinds.push("short-header");
            }
            12 => {
                let mut b = words_to_bytes(&w);
                let n = 1 + cs.below(3);
                for _ in 0..n {
                    b.push(cs.u8());
                }
                bytes = Some(b);
                kinds.push("stray-bytes");
            }
            13 => {
                // cut an instruction's tail: remove k last words without fixing the count
                if let Some((s, len)) = pick_inst(cs) {
                    if len > 1 && s + len <= w.len() {
                        let k = 1 + cs.below(len - 1);
                        w.drain(s + len - k..s + len);
                        kinds.push("drop-tail-words");
                    }
                }
            }
            14 => {
                // truncate exactly inside the last instruction
                if let Some(&s) = offsets.last() {
                    let len = m.plans.last().unwrap().body.len() + 1;
                    let mut b = words_to_bytes(&w);
                    let lo = (s * 4).min(b.len());
                    let hi = ((s + len) * 4).min(b.len());
                    let at = lo + cs.below(hi - lo + 1);
                    b.truncate(at);
                    bytes = Some(b);
                    kinds.push("truncate-last");
                }
            }
            _ => {
                // extend an instruction: bump word count and add a word
                if let Some((s, len)) = pick_inst(cs) {
                    if s + len <= w.len() && len < 0xfffe {
                        w[s] = (w[s] & 0xffff) | (((len + 1) as u32) << 16);
                        let v = cs.lit32();
                        w.insert(s + len, v);
                        kinds.push("extra-operand");
                    }
                }
            }
        }
    }
    let b = bytes.unwrap_or_else(|| words_to_bytes(&w));
    (b, kinds)
}

// ---------------------------------------------------------------------------
// G-mutate, second generation: whole-structure edits

/// words that mean something elsewhere in the format, tried where an instruction's first word or an
/// operand is expected
pub const SPECIAL_WORDS: [u32; 10] = [MAGIC, 0x0302_2307, 0x0001_0000, 0x0001_0600, 0x0001_0300, 0x0000_0000, 0xffff_ffff, 0x0723_0000, 0x0000_0203, 0x0001_0203];

fn raw_str_words(b: &[u8]) -> Vec<u32> {
    let mut v: Vec<u8> = b.to_vec();
    v.push(0);
    while v.len() % 4 != 0 {
        v.push(0);
    }
    v.chunks(4).map(|c| u32::from_le_bytes([c[0], c[1], c[2], c[3]])).collect()
}

/// OpCapability / OpExtension / OpExtInstImport instructions for the sub-lists of the vocabulary that
/// `code` selects (see `vocab::coded_subset`); import ids are 4000 + index
pub fn vocabulary_prefix(code: usize) -> Vec<u32> {
    let mut w = vec![];
    if let Some(c) = golden().enums.get("Capability") {
        let all: Vec<u32> = c.values.iter().map(|v| v.value).collect();
        for v in crate::vocab::coded_subset(&all, code % crate::vocab::codes_for(all.len())) {
            w.extend([0x0002_0011, v]);
        }
    }
    let exts = crate::vocab::extensions();
    for e in crate::vocab::coded_subset(exts, code % crate::vocab::codes_for(exts.len())) {
        let mut v = vec![10u32];
        v.extend(str_words(&e));
        v[0] |= (v.len() as u32) << 16;
        w.extend(v);
    }
    let sets: Vec<(usize, &str)> = crate::vocab::EXT_SETS.iter().copied().enumerate().collect();
    for (i, e) in crate::vocab::coded_subset(&sets, code % crate::vocab::codes_for(sets.len())) {
        let mut v = vec![11u32, 4000 + i as u32];
        v.extend(str_words(e));
        v[0] |= (v.len() as u32) << 16;
        w.extend(v);
    }
    w
}

/// Structural faults and structural variations on a generated module (the oracle never sees the
/// description): a word that is special elsewhere in the format at an instruction boundary, modules
/// stored back to back, a text split by byte count over two consecutive string-bearing instructions
/// (inside a multi-byte character or not), an id renamed consistently to a value around 2^16 / 2^17,
/// whole instructions swapped or repeated.
pub fn mutate2(cs: &mut Cs, m: &GenModule) -> (Vec<u8>, Vec<&'static str>) {
    let words = m.words();
    let mut bounds = m.offsets();
    bounds.push(words.len());
    let mut w = words.clone();
    let mut kinds = vec![];
    let nmut = 1 + cs.below(2);
    for _ in 0..nmut {
        // boundaries refer to the unmodified module: after a length-changing edit only the tail edits remain sound enough
        let b = bounds[cs.below(bounds.len())].min(w.len());
        match cs.below(11) {
            9 | 10 => {
                // the module declares (a coded half of) everything tools know by name: every
                // capability, every extension name, every extended instruction set
                if w.len() == words.len() && w.len() >= 5 {
                    let pre = vocabulary_prefix(cs.below(64));
                    let tail = w.split_off(5);
                    w.extend(pre);
                    w.extend(tail);
                    kinds.push("vocabulary-prefix");
                }
            }
            0 => {
                w.insert(b, SPECIAL_WORDS[cs.below(SPECIAL_WORDS.len())]);
                kinds.push("special-word-at-boundary");
            }
            1 => {
                if b < w.len() {
                    w[b] = SPECIAL_WORDS[cs.below(SPECIAL_WORDS.len())];
                    kinds.push("special-first-word");
                }
            }
            2 => {
                // modules back to back: the whole module again, only its header, or only its instructions
                match cs.below(3) {
                    0 => w.extend(words.iter()),
                    1 => w.extend(&words[..5.min(words.len())]),
                    _ => w.extend(&words[5.min(words.len())..]),
                }
                kinds.push("appended-module");
            }
            3 => {
                let copy: Vec<u32> = words.clone();
                let at = b;
                let tail = w.split_off(at);
                w.extend(copy);
                w.extend(tail);
                kinds.push("embedded-module");
            }
            4 | 5 => {
                // a text split by byte count over two consecutive instructions
                let mut text = cs.ascii_exact(0).into_bytes();
                let pre = cs.below(7);
                for _ in 0..pre {
                    text.push(b'a' + cs.below(26) as u8);
                }
                let mb = crate::cs::AWKWARD_CHARS[cs.below(crate::cs::AWKWARD_CHARS.len())];
                let mb = if mb.len() < 2 { "\u{20ac}" } else { mb };
                let from = text.len();
                text.extend(mb.as_bytes());
                let to = text.len();
                let post = cs.below(7);
                for _ in 0..post {
                    text.push(b'a' + cs.below(26) as u8);
                }
                let k = match cs.below(3) {
                    0 => cs.below(text.len() + 1),
                    _ => from + 1 + cs.below(to - from - 1), // inside the character
                };
                let (p1, p2) = text.split_at(k);
                let mk = |op: u32, lead: &[u32], part: &[u8]| -> Vec<u32> {
                    let mut v = vec![0u32];
                    v.extend(lead);
                    v.extend(raw_str_words(part));
                    v[0] = ((v.len() as u32) << 16) | op;
                    v
                };
                let file = cs.below(20) as u32;
                let (a, c) = match cs.below(6) {
                    0 | 1 | 2 => (mk(3, &[cs.below(7) as u32, 450, file], p1), mk(2, &[], p2)),
                    3 => (mk(2, &[], p1), mk(2, &[], p2)),
                    4 => (mk(7, &[200 + file], p1), mk(7, &[230 + file], p2)),
                    _ => (mk(330, &[], p1), mk(330, &[], p2)),
                };
                let tail = w.split_off(b);
                w.extend(a);
                w.extend(c);
                w.extend(tail);
                kinds.push("split-text");
            }
            6 => {
                // one id renamed everywhere to a value around 2^16 / 2^17 (bound raised now and then)
                let ids: Vec<u32> = m.plans.iter().filter_map(|p| p.rid).collect();
                if !ids.is_empty() {
                    let from = ids[cs.below(ids.len())];
                    let to = [65_535u32, 65_536, 65_537, 131_071, 131_072, 65_536 + from, 0x0002_0000 + from, 999_999, 1_000_000, 1_000_001, 1_000_000 + from, 100_000, 10_000_000, 1 << 20, 1 << 24][cs.below(15)];
                    for x in w.iter_mut().skip(5) {
                        if *x == from {
                            *x = to;
                        }
                    }
                    if cs.bool() && w.len() > 3 {
                        w[3] = to + 1;
                    }
                    kinds.push("id-near-2^16");
                }
            }
            7 => {
                // swap two whole instructions
                if m.plans.len() >= 2 && w.len() == words.len() {
                    let i = cs.below(m.plans.len());
                    let j = cs.below(m.plans.len());
                    let (i, j) = (i.min(j), i.max(j));
                    if i != j {
                        let (si, ei) = (bounds[i], bounds[i + 1]);
                        let (sj, ej) = (bounds[j], bounds[j + 1]);
                        let mut v = w[..si].to_vec();
                        v.extend(&w[sj..ej]);
                        v.extend(&w[ei..sj]);
                        v.extend(&w[si..ei]);
                        v.extend(&w[ej..]);
                        w = v;
                        kinds.push("swap-instructions");
                    }
                }
            }
            _ => {
                // repeat a run of instructions
                if m.plans.len() >= 1 && w.len() == words.len() {
                    let i = cs.below(m.plans.len());
                    let j = (i + 1 + cs.below(3)).min(m.plans.len());
                    let run: Vec<u32> = w[bounds[i]..bounds[j]].to_vec();
                    let tail = w.split_off(bounds[j]);
                    w.extend(run);
                    w.extend(tail);
                    kinds.push("repeat-run");
                }
            }
        }
    }
    (words_to_bytes(&w), kinds)
}

// ---------------------------------------------------------------------------
// Minimal module context for a single instruction (sweeps)

pub const W_FUNCTION: [u32; 5] = [0x0005_0036, 1, 90, 0, 2];
pub const W_LABEL: [u32; 2] = [0x0002_00f8, 91];
pub const W_RETURN: [u32; 1] = [0x0001_00fd];
pub const W_FUNCTION_END: [u32; 1] = [0x0001_0038];

/// header + prelude + the instruction in the smallest well-bracketed context
/// its layout class needs.
pub fn wrap_in_module(prelude: &[Plan], p: &Plan) -> Vec<u32> {
    let mut w = header_words((1, 4), 1000);
    for q in prelude {
        w.extend(q.words());
    }
    let pw = p.words();
    match layout(p.opname) {
        Layout::Function => {
            w.extend(pw);
            w.extend(W_FUNCTION_END);
        }
        Layout::FunctionEnd => {
            w.extend(W_FUNCTION);
            w.extend(pw);
        }
        Layout::Parameter => {
            w.extend(W_FUNCTION);
            w.extend(pw);
            w.extend(W_FUNCTION_END);
        }
        Layout::Label => {
            w.extend(W_FUNCTION);
            w.extend(pw);
            w.extend(W_RETURN);
            w.extend(W_FUNCTION_END);
        }
        Layout::Terminator => {
            w.extend(W_FUNCTION);
            w.extend(W_LABEL);
            w.extend(pw);
            w.extend(W_FUNCTION_END);
        }
        Layout::Block | Layout::BlockOrDontCare | Layout::DontCare => {
            w.extend(W_FUNCTION);
            w.extend(W_LABEL);
            w.extend(pw);
            w.extend(W_RETURN);
            w.extend(W_FUNCTION_END);
        }
        _ => w.extend(pw),
    }
    w
}
