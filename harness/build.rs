//! Builds the inventory of public `dr::Builder` methods from the working tree
//! of /repo (so a changed signature is followed automatically) and emits one
//! call site per method whose parameter types are inside the known universe.

use quote::ToTokens;
use std::fmt::Write as _;
use std::path::PathBuf;

const MASKS: &[&str] = &[
    "ImageOperands",
    "FPFastMathMode",
    "SelectionControl",
    "LoopControl",
    "FunctionControl",
    "MemorySemantics",
    "MemoryAccess",
    "KernelProfilingInfo",
    "RayFlags",
    "FragmentShadingRate",
    "RawAccessChainOperands",
    "CooperativeMatrixOperands",
    "CooperativeMatrixReduce",
    "TensorAddressingOperands",
    "MatrixMultiplyAccumulateOperands",
];

struct Method {
    name: String,
    file: String,
    receiver: String,
    params: Vec<(String, String)>,
    ret: String,
}

fn norm(s: &str) -> String {
    s.chars().filter(|c| !c.is_whitespace()).collect()
}

/// Returns the expression that takes one argument of type `ty` from the
/// argument source `a`, or None if the type is outside the universe.
fn take_expr(ty: &str) -> Option<String> {
    let t = ty;
    Some(match t {
        "spirv::Word" => "a.take_word()".into(),
        "Option<spirv::Word>" => "a.take_opt_word()".into(),
        "u32" => "a.take_u32()".into(),
        "u64" => "a.take_u64()".into(),
        "u8" => "a.take_u8()".into(),
        "InsertPoint" => "a.take_insert_point()".into(),
        "implIntoIterator<Item=dr::Operand>" => "a.take_operands()".into(),
        "implIntoIterator<Item=spirv::Word>" => "a.take_words()".into(),
        "implIntoIterator<Item=u32>" => "a.take_u32s()".into(),
        "implIntoIterator<Item=(spirv::Word,spirv::Word)>" => "a.take_pairs_ww()".into(),
        "implIntoIterator<Item=(spirv::Word,u32)>" => "a.take_pairs_wu()".into(),
        "implIntoIterator<Item=(dr::Operand,spirv::Word)>" => "a.take_pairs_ow()".into(),
        "implInto<String>" => "a.take_string()".into(),
        "Option<implInto<String>>" => "a.take_opt_string()".into(),
        "implAsRef<[u32]>" => "a.take_u32s()".into(),
        "implAsRef<[spirv::Word]>" => "a.take_words()".into(),
        _ => {
            if let Some(inner) = t.strip_prefix("Option<spirv::").and_then(|x| x.strip_suffix('>')) {
                if !inner.chars().all(|c| c.is_alphanumeric()) {
                    return None;
                }
                if MASKS.contains(&inner) {
                    format!(
                        "a.take_opt_enum(\"{0}\").map(|v| spirv::{0}::from_bits(v).expect(\"declared mask\"))",
                        inner
                    )
                } else {
                    format!(
                        "a.take_opt_enum(\"{0}\").map(|v| spirv::{0}::from_u32(v).expect(\"declared enumerant\"))",
                        inner
                    )
                }
            } else if let Some(inner) = t.strip_prefix("spirv::") {
                if !inner.chars().all(|c| c.is_alphanumeric()) {
                    return None;
                }
                if MASKS.contains(&inner) {
                    format!(
                        "spirv::{0}::from_bits(a.take_enum(\"{0}\")).expect(\"declared mask\")",
                        inner
                    )
                } else {
                    format!(
                        "spirv::{0}::from_u32(a.take_enum(\"{0}\")).expect(\"declared enumerant\")",
                        inner
                    )
                }
            } else {
                return None;
            }
        }
    })
}

fn ret_expr(ret: &str) -> Option<&'static str> {
    Some(match ret {
        "" | "()" => "{ let _ = r; Outcome::unit() }",
        "spirv::Word" => "Outcome::id(r)",
        "BuildResult<spirv::Word>" => "Outcome::res_id(r)",
        "BuildResult<()>" => "Outcome::res_unit(r)",
        _ => return None,
    })
}

/// Public methods of every inherent `impl .. Builder` block found in `items` (descending into
/// inline modules).
fn collect(items: Vec<syn::Item>, file: &str, methods: &mut Vec<Method>) {
    for item in items {
        match item {
            syn::Item::Mod(m) => {
                if let Some((_, inner)) = m.content {
                    collect(inner, file, methods);
                }
            }
            syn::Item::Impl(imp) => {
                if imp.trait_.is_some() {
                    continue;
                }
                // `Builder`, `dr::Builder`, `super::Builder`, `crate::dr::Builder` ...
                let ty = norm(&imp.self_ty.to_token_stream().to_string());
                if ty.rsplit("::").next() != Some("Builder") {
                    continue;
                }
                for it in imp.items {
                    let syn::ImplItem::Fn(func) = it else { continue };
                    if !matches!(func.vis, syn::Visibility::Public(_)) {
                        continue;
                    }
                    let mut receiver = String::new();
                    let mut params = vec![];
                    for inp in &func.sig.inputs {
                        match inp {
                            syn::FnArg::Receiver(r) => {
                                receiver = norm(&r.to_token_stream().to_string());
                            }
                            syn::FnArg::Typed(t) => {
                                let n = norm(&t.pat.to_token_stream().to_string());
                                let ty = norm(&t.ty.to_token_stream().to_string());
                                params.push((n, ty));
                            }
                        }
                    }
                    let ret = match &func.sig.output {
                        syn::ReturnType::Default => String::new(),
                        syn::ReturnType::Type(_, t) => norm(&t.to_token_stream().to_string()),
                    };
                    methods.push(Method { name: func.sig.ident.to_string(), file: file.to_string(), receiver, params, ret });
                }
            }
            _ => {}
        }
    }
}

fn walk(dir: &std::path::Path, out: &mut Vec<PathBuf>) {
    let Ok(rd) = std::fs::read_dir(dir) else { return };
    let mut entries: Vec<PathBuf> = rd.filter_map(|e| e.ok().map(|e| e.path())).collect();
    entries.sort();
    for p in entries {
        let name = p.file_name().and_then(|n| n.to_str()).unwrap_or("").to_string();
        if p.is_dir() {
            if name != "target" && name != "tests" && !name.starts_with('.') {
                walk(&p, out);
            }
        } else if name.ends_with(".rs") {
            out.push(p);
        }
    }
}

/// Signatures of the structural methods the harness drives by name. They are stable public API; if a
/// method is spelled by a macro (and therefore invisible to a syntactic scan) its call site is made
/// from this table instead - a real change of the signature then fails to compile (exit 2).
const CORE: &[(&str, &[(&str, &str)], &str)] = &[
    ("begin_function", &[("return_type", "spirv::Word"), ("function_id", "Option<spirv::Word>"), ("control", "spirv::FunctionControl"), ("function_type", "spirv::Word")], "BuildResult<spirv::Word>"),
    ("end_function", &[], "BuildResult<()>"),
    ("begin_block", &[("label_id", "Option<spirv::Word>")], "BuildResult<spirv::Word>"),
    ("function_parameter", &[("result_type", "spirv::Word")], "BuildResult<spirv::Word>"),
    ("ret", &[], "BuildResult<()>"),
    ("nop", &[], "BuildResult<()>"),
];

/// Aliases the `spirv` crate of the working tree declares (`pub const A: Self = Self::B;` inside an
/// inherent impl of an enumeration that also implements FromStr), from every source file of the
/// crate: a declaration cannot be enumerated through the public API, only read.
fn declared_aliases(repo: &str) {
    let root = PathBuf::from(repo).join("spirv");
    println!("cargo:rerun-if-changed={}", root.display());
    let mut files = vec![];
    walk(&root, &mut files);
    let mut aliases: Vec<(String, String, String)> = vec![];
    let mut from_str: std::collections::BTreeSet<String> = Default::default();
    fn last_seg(t: &syn::Type) -> Option<String> {
        if let syn::Type::Path(p) = t {
            p.path.segments.last().map(|s| s.ident.to_string())
        } else {
            None
        }
    }
    fn scan(items: &[syn::Item], aliases: &mut Vec<(String, String, String)>, from_str: &mut std::collections::BTreeSet<String>) {
        for it in items {
            match it {
                syn::Item::Impl(im) => {
                    let Some(ty) = last_seg(&im.self_ty) else { continue };
                    if let Some((_, path, _)) = &im.trait_ {
                        if path.segments.last().map(|s| s.ident == "FromStr").unwrap_or(false) {
                            from_str.insert(ty);
                        }
                        continue;
                    }
                    for ii in &im.items {
                        if let syn::ImplItem::Const(c) = ii {
                            if !matches!(c.vis, syn::Visibility::Public(_)) {
                                continue;
                            }
                            let is_self = matches!(&c.ty, syn::Type::Path(p) if p.path.is_ident("Self"));
                            if !is_self {
                                continue;
                            }
                            if let syn::Expr::Path(e) = &c.expr {
                                let segs: Vec<String> = e.path.segments.iter().map(|s| s.ident.to_string()).collect();
                                if segs.len() == 2 && (segs[0] == "Self" || segs[0] == ty) {
                                    aliases.push((ty.clone(), c.ident.to_string(), segs[1].clone()));
                                }
                            }
                        }
                    }
                }
                syn::Item::Mod(m) => {
                    if let Some((_, inner)) = &m.content {
                        scan(inner, aliases, from_str);
                    }
                }
                _ => {}
            }
        }
    }
    for p in &files {
        let Ok(src) = std::fs::read_to_string(p) else { continue };
        let Ok(ast) = syn::parse_file(&src) else { continue };
        scan(&ast.items, &mut aliases, &mut from_str);
    }
    let mut out = String::from("// generated by build.rs from the alias constants declared under /repo/spirv -- do not edit\n");
    out.push_str("pub static DECLARED_ALIASES: &[(&str, &str, &str, fn() -> (u32, u32), fn(&str) -> Option<u32>)] = &[\n");
    for (ty, a, b) in &aliases {
        if !from_str.contains(ty) {
            continue;
        }
        writeln!(out, "    (\"{ty}\", \"{a}\", \"{b}\", || (spirv::{ty}::{a} as u32, spirv::{ty}::{b} as u32), |s| s.parse::<spirv::{ty}>().ok().map(|v| v as u32)),").unwrap();
    }
    out.push_str("];\n");
    let dest = PathBuf::from(std::env::var("OUT_DIR").unwrap()).join("declared_aliases.rs");
    std::fs::write(&dest, out).unwrap();
}

fn main() {
    let repo = std::env::var("VERIF_REPO").unwrap_or_else(|_| "/repo".to_string());
    // every source file of the rspirv crate: the Builder's methods may live in any module or be
    // pulled in by include!; where they are written does not matter
    let root = PathBuf::from(&repo).join("rspirv");
    println!("cargo:rerun-if-changed={}", root.display());
    let mut files = vec![];
    walk(&root, &mut files);
    let mut methods: Vec<Method> = vec![];
    for p in &files {
        let Ok(src) = std::fs::read_to_string(p) else { continue };
        if !src.contains("Builder") {
            continue;
        }
        // fragments that are not a sequence of items (none today) are skipped, not fatal
        let Ok(ast) = syn::parse_file(&src) else { continue };
        let file = p.file_name().and_then(|n| n.to_str()).unwrap_or("").to_string();
        collect(ast.items, &file, &mut methods);
    }
    // keep the order the inventory had when the regression replays were stored (they index into it):
    // the files of dr/build in that order first, anything found elsewhere after them
    const OLD_ORDER: [&str; 7] = ["mod.rs", "autogen_type.rs", "autogen_constant.rs", "autogen_annotation.rs", "autogen_terminator.rs", "autogen_debug.rs", "autogen_norm_insts.rs"];
    methods.sort_by_key(|m| OLD_ORDER.iter().position(|f| *f == m.file).unwrap_or(OLD_ORDER.len()));
    // one entry per name (an inherent method name is unique on the type)
    let mut seen = std::collections::BTreeSet::new();
    methods.retain(|m| seen.insert(m.name.clone()));
    for (name, params, ret) in CORE {
        if !seen.contains(*name) {
            methods.push(Method {
                name: name.to_string(),
                file: "<not spelled out in the sources: signature from the harness's table>".to_string(),
                receiver: "&mutself".to_string(),
                params: params.iter().map(|(n, t)| (n.to_string(), norm(t))).collect(),
                ret: norm(ret),
            });
        }
    }
    let mut out = String::new();
    out.push_str("// generated by build.rs from the inherent impl blocks of dr::Builder found under /repo/rspirv -- do not edit\n");
    let mut table = String::new();
    for m in &methods {
        let takes: Option<Vec<String>> = m.params.iter().map(|(_, t)| take_expr(t)).collect();
        let re = ret_expr(&m.ret);
        let callable = m.receiver == "&mutself" && takes.is_some() && re.is_some();
        let params_lit: String = m
            .params
            .iter()
            .map(|(n, t)| format!("(\"{}\", \"{}\")", n, t))
            .collect::<Vec<_>>()
            .join(", ");
        if callable {
            let takes = takes.unwrap();
            writeln!(out, "#[allow(unused_variables, clippy::all)]").unwrap();
            writeln!(
                out,
                "fn call_{}(b: &mut Builder, a: &mut Args) -> Outcome {{",
                m.name
            )
            .unwrap();
            for (i, t) in takes.iter().enumerate() {
                writeln!(out, "    let p{} = {};", i, t).unwrap();
            }
            let args: Vec<String> = (0..takes.len()).map(|i| format!("p{}", i)).collect();
            writeln!(out, "    let r = b.{}({});", m.name, args.join(", ")).unwrap();
            writeln!(out, "    {}", re.unwrap()).unwrap();
            writeln!(out, "}}").unwrap();
            writeln!(
                table,
                "    MethodInfo {{ name: \"{}\", file: \"{}\", receiver: \"{}\", params: &[{}], ret: \"{}\", call: Some(call_{}) }},",
                m.name, m.file, m.receiver, params_lit, m.ret, m.name
            )
            .unwrap();
        } else {
            writeln!(
                table,
                "    MethodInfo {{ name: \"{}\", file: \"{}\", receiver: \"{}\", params: &[{}], ret: \"{}\", call: None }},",
                m.name, m.file, m.receiver, params_lit, m.ret
            )
            .unwrap();
        }
    }
    writeln!(out, "pub static METHODS: &[MethodInfo] = &[\n{}];", table).unwrap();
    let dest = PathBuf::from(std::env::var("OUT_DIR").unwrap()).join("builder_calls.rs");
    std::fs::write(&dest, out).unwrap();
    declared_aliases(&repo);
    println!("cargo:rerun-if-changed=build.rs");
    println!("cargo:rerun-if-env-changed=VERIF_REPO");
}
