fn main() {}
