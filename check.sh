#!/bin/sh
# ./check.sh <ID> [--tier quick|thorough] [--replay file]
# Rebuilds the harness against /repo's current working tree and runs one check.
# exit 0 = property held; 1 = VIOLATION line printed; 2 = infrastructure problem.
ROOT="$(cd "$(dirname "$0")" && pwd)"
export VERIF_ROOT="$ROOT"
export CARGO_NET_OFFLINE=true
ID="$1"
if [ -z "$ID" ]; then echo "usage: $0 <ID> [--tier quick|thorough] [--replay file]" >&2; exit 2; fi
shift
mkdir -p "$ROOT/harness/target" "$ROOT/target" || exit 2
cd "$ROOT/harness" || exit 2
# the Builder call sites are generated from the working tree; cargo rebuilds what changed
if ! cargo build --release --quiet 2> "$ROOT/harness/target/build.log"; then
  if grep -q "^error" "$ROOT/harness/target/build.log"; then
    cat "$ROOT/harness/target/build.log" >&2
    echo "harness build failed (infrastructure, not a violation)" >&2
    exit 2
  fi
fi
if [ "$ID" = "C20" ] || [ "$ID" = "C04" ]; then
  if ! CARGO_PROFILE_RELEASE_OVERFLOW_CHECKS=true CARGO_PROFILE_RELEASE_DEBUG_ASSERTIONS=true cargo build --release --quiet -p rspirv-dis --manifest-path /repo/Cargo.toml --target-dir "$ROOT/target/dis" 2> "$ROOT/target/dis-build.log"; then
    cat "$ROOT/target/dis-build.log" >&2
    echo "rspirv-dis build failed (infrastructure, not a violation)" >&2
    exit 2
  fi
fi
exec "$ROOT/harness/target/release/vcheck" "$ID" "$@"
