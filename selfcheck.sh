#!/bin/sh
# False-alarm audit: every check, several seeds, fresh processes; prints anything that is not exit 0.
# usage: ./selfcheck.sh [tier] [seeds...]
ROOT="$(cd "$(dirname "$0")" && pwd)"
TIER="${1:-quick}"; shift
SEEDS="${*:-0 1 2 3 4}"
bad=0
for s in $SEEDS; do
  for c in C01 C02 C03 C04 C05 C06 C07 C08 C09 C10 C11 C12 C13 C14 C15 C16 C17 C18 C19 C20; do
    out="$(VERIF_SEED=$s "$ROOT/check.sh" $c --tier "$TIER" 2>&1)"; r=$?
    if [ $r -ne 0 ]; then bad=1; echo "== seed $s $c exit=$r"; echo "$out" | tail -40; fi
  done
  echo "seed $s done"
done
exit $bad
