#!/bin/sh
# False-alarm test against CHANGED code that still satisfies the properties: applies every
# benign/*PAT*/patch.diff to a scratch worktree of /repo, runs the quick tier of ALL checks from a
# scratch copy of /verif and expects exit 0 everywhere (never touches /repo; several instances can
# run side by side).
#   ./selftest_benign.sh <tag> <pattern> [<pattern> ...]
# Results: target/benign-results-<tag>.txt (SILENT / ALARM lines).
ROOT="$(cd "$(dirname "$0")" && pwd)"
TAG="$1"; shift
[ -n "$TAG" ] || { echo "usage: $0 <tag> <pattern>..." >&2; exit 2; }
S="/tmp/bn-$TAG"
R="$S/repo_bn_$TAG"
rm -rf "$S"; mkdir -p "$S" || exit 2
git -C /repo worktree add -q --detach "$R" HEAD || exit 2
mkdir -p "$S/verif"
rsync -a --exclude target --exclude 'fuzz/artifacts' --exclude 'fuzz/corpus' --exclude .git --exclude replays/found "$ROOT/" "$S/verif/"
sed -i "s#/repo/#$R/#g" "$S/verif/harness/Cargo.toml" "$S/verif/check.sh"
cp "$ROOT/harness/Cargo.lock" "$S/verif/harness/Cargo.lock" 2>/dev/null
export VERIF_REPO="$R"
mkdir -p "$ROOT/target"
res="$ROOT/target/benign-results-$TAG.txt"; : > "$res"
alarms=0
"$S/verif/check.sh" C19 --tier quick >/dev/null 2>&1 || echo "scratch copy does not pass C19 unmodified" | tee -a "$res"
for PAT in "$@"; do
  for f in "$ROOT"/benign/*${PAT}*/patch.diff; do
    [ -f "$f" ] || continue
    name="$(basename "$(dirname "$f")")"
    if ! git -C "$R" apply "$f" 2>/dev/null; then echo "APPLY-FAILED $name" | tee -a "$res"; continue; fi
    bad=""
    for p in C01 C02 C03 C04 C05 C06 C07 C08 C09 C10 C11 C12 C13 C14 C15 C16 C17 C18 C19 C20; do
      out="$(VERIF_SEED=${VERIF_SEED:-0} "$S/verif/check.sh" "$p" --tier quick 2>&1)"; r=$?
      if [ $r -ne 0 ]; then
        sig="$(echo "$out" | grep -m1 'failure in' | cut -c1-300)"
        [ -n "$sig" ] || sig="$(echo "$out" | grep -m1 -E '^error|panicked|VIOLATION' | cut -c1-300)"
        bad="$bad\n    $p exit=$r $sig"
      fi
    done
    git -C "$R" checkout -- . && git -C "$R" clean -fdq -e target
    if [ -z "$bad" ]; then echo "SILENT $name" | tee -a "$res"; else alarms=$((alarms+1)); printf "ALARM $name$bad\n" | tee -a "$res"; fi
  done
done
echo "alarms=$alarms" | tee -a "$res"
git -C /repo worktree remove --force "$R"; git -C /repo worktree prune
rm -rf "$S"
[ $alarms -eq 0 ]
