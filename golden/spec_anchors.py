"""Hand-written facts from the SPIR-V specification (unified1), used to anchor
the golden snapshot: they were typed from the specification text, not derived
from the repository. verify.py checks api.json against them."""

OPCODES = """
Nop 0 Undef 1 SourceContinued 2 Source 3 SourceExtension 4 Name 5 MemberName 6 String 7 Line 8
Extension 10 ExtInstImport 11 ExtInst 12 MemoryModel 14 EntryPoint 15 ExecutionMode 16 Capability 17
TypeVoid 19 TypeBool 20 TypeInt 21 TypeFloat 22 TypeVector 23 TypeMatrix 24 TypeImage 25 TypeSampler 26
TypeSampledImage 27 TypeArray 28 TypeRuntimeArray 29 TypeStruct 30 TypeOpaque 31 TypePointer 32
TypeFunction 33 TypeEvent 34 TypeDeviceEvent 35 TypeReserveId 36 TypeQueue 37 TypePipe 38
TypeForwardPointer 39 ConstantTrue 41 ConstantFalse 42 Constant 43 ConstantComposite 44
ConstantSampler 45 ConstantNull 46 SpecConstantTrue 48 SpecConstantFalse 49 SpecConstant 50
SpecConstantComposite 51 SpecConstantOp 52 Function 54 FunctionParameter 55 FunctionEnd 56
FunctionCall 57 Variable 59 ImageTexelPointer 60 Load 61 Store 62 CopyMemory 63 CopyMemorySized 64
AccessChain 65 InBoundsAccessChain 66 PtrAccessChain 67 ArrayLength 68 GenericPtrMemSemantics 69
InBoundsPtrAccessChain 70 Decorate 71 MemberDecorate 72 DecorationGroup 73 GroupDecorate 74
GroupMemberDecorate 75 VectorExtractDynamic 77 VectorInsertDynamic 78 VectorShuffle 79
CompositeConstruct 80 CompositeExtract 81 CompositeInsert 82 CopyObject 83 Transpose 84
SampledImage 86 ImageSampleImplicitLod 87 ImageSampleExplicitLod 88 ImageSampleDrefImplicitLod 89
ImageSampleDrefExplicitLod 90 ImageSampleProjImplicitLod 91 ImageSampleProjExplicitLod 92
ImageSampleProjDrefImplicitLod 93 ImageSampleProjDrefExplicitLod 94 ImageFetch 95 ImageGather 96
ImageDrefGather 97 ImageRead 98 ImageWrite 99 Image 100 ImageQueryFormat 101 ImageQueryOrder 102
ImageQuerySizeLod 103 ImageQuerySize 104 ImageQueryLod 105 ImageQueryLevels 106 ImageQuerySamples 107
ConvertFToU 109 ConvertFToS 110 ConvertSToF 111 ConvertUToF 112 UConvert 113 SConvert 114 FConvert 115
QuantizeToF16 116 ConvertPtrToU 117 SatConvertSToU 118 SatConvertUToS 119 ConvertUToPtr 120
PtrCastToGeneric 121 GenericCastToPtr 122 GenericCastToPtrExplicit 123 Bitcast 124
SNegate 126 FNegate 127 IAdd 128 FAdd 129 ISub 130 FSub 131 IMul 132 FMul 133 UDiv 134 SDiv 135 FDiv 136
UMod 137 SRem 138 SMod 139 FRem 140 FMod 141 VectorTimesScalar 142 MatrixTimesScalar 143
VectorTimesMatrix 144 MatrixTimesVector 145 MatrixTimesMatrix 146 OuterProduct 147 Dot 148
IAddCarry 149 ISubBorrow 150 UMulExtended 151 SMulExtended 152 Any 154 All 155 IsNan 156 IsInf 157
IsFinite 158 IsNormal 159 SignBitSet 160 LessOrGreater 161 Ordered 162 Unordered 163 LogicalEqual 164
LogicalNotEqual 165 LogicalOr 166 LogicalAnd 167 LogicalNot 168 Select 169 IEqual 170 INotEqual 171
UGreaterThan 172 SGreaterThan 173 UGreaterThanEqual 174 SGreaterThanEqual 175 ULessThan 176
SLessThan 177 ULessThanEqual 178 SLessThanEqual 179 FOrdEqual 180 FUnordEqual 181 FOrdNotEqual 182
FUnordNotEqual 183 FOrdLessThan 184 FUnordLessThan 185 FOrdGreaterThan 186 FUnordGreaterThan 187
FOrdLessThanEqual 188 FUnordLessThanEqual 189 FOrdGreaterThanEqual 190 FUnordGreaterThanEqual 191
ShiftRightLogical 194 ShiftRightArithmetic 195 ShiftLeftLogical 196 BitwiseOr 197 BitwiseXor 198
BitwiseAnd 199 Not 200 BitFieldInsert 201 BitFieldSExtract 202 BitFieldUExtract 203 BitReverse 204
BitCount 205 DPdx 207 DPdy 208 Fwidth 209 DPdxFine 210 DPdyFine 211 FwidthFine 212 DPdxCoarse 213
DPdyCoarse 214 FwidthCoarse 215 EmitVertex 218 EndPrimitive 219 EmitStreamVertex 220
EndStreamPrimitive 221 ControlBarrier 224 MemoryBarrier 225 AtomicLoad 227 AtomicStore 228
AtomicExchange 229 AtomicCompareExchange 230 AtomicCompareExchangeWeak 231 AtomicIIncrement 232
AtomicIDecrement 233 AtomicIAdd 234 AtomicISub 235 AtomicSMin 236 AtomicUMin 237 AtomicSMax 238
AtomicUMax 239 AtomicAnd 240 AtomicOr 241 AtomicXor 242 Phi 245 LoopMerge 246 SelectionMerge 247
Label 248 Branch 249 BranchConditional 250 Switch 251 Kill 252 Return 253 ReturnValue 254
Unreachable 255 LifetimeStart 256 LifetimeStop 257 GroupAsyncCopy 259 GroupWaitEvents 260
GroupAll 261 GroupAny 262 GroupBroadcast 263 GroupIAdd 264 GroupFAdd 265 GroupFMin 266 GroupUMin 267
GroupSMin 268 GroupFMax 269 GroupUMax 270 GroupSMax 271 ReadPipe 274 WritePipe 275
EnqueueMarker 291 EnqueueKernel 292 BuildNDRange 304 ImageSparseSampleImplicitLod 305
ImageSparseRead 320 SizeOf 321 TypePipeStorage 322 ConstantPipeStorage 323
CreatePipeFromPipeStorage 324 GetKernelLocalSizeForSubgroupCount 325 GetKernelMaxNumSubgroups 326
TypeNamedBarrier 327 NamedBarrierInitialize 328 MemoryNamedBarrier 329 ModuleProcessed 330
ExecutionModeId 331 DecorateId 332 GroupNonUniformElect 333 GroupNonUniformAll 334
GroupNonUniformAny 335 GroupNonUniformAllEqual 336 GroupNonUniformBroadcast 337
GroupNonUniformBroadcastFirst 338 GroupNonUniformBallot 339 CopyLogical 400 PtrEqual 401
PtrNotEqual 402 PtrDiff 403 TerminateInvocation 4416 SubgroupBallotKHR 4421 TraceRayKHR 4445
ExecuteCallableKHR 4446 ConvertUToAccelerationStructureKHR 4447 IgnoreIntersectionKHR 4448
TerminateRayKHR 4449 SDot 4450 UDot 4451 SUDot 4452 SDotAccSat 4453 UDotAccSat 4454 SUDotAccSat 4455
TypeCooperativeMatrixKHR 4456 TypeRayQueryKHR 4472 EmitMeshTasksEXT 5294 SetMeshOutputsEXT 5295
TypeAccelerationStructureKHR 5341 DemoteToHelperInvocation 5380 IsHelperInvocationEXT 5381
DecorateString 5632 MemberDecorateString 5633
"""

ENUMERANTS = {
 "Capability": """Matrix 0 Shader 1 Geometry 2 Tessellation 3 Addresses 4 Linkage 5 Kernel 6 Vector16 7
   Float16Buffer 8 Float16 9 Float64 10 Int64 11 Int64Atomics 12 ImageBasic 13 ImageReadWrite 14
   ImageMipmap 15 Pipes 17 Groups 18 DeviceEnqueue 19 LiteralSampler 20 AtomicStorage 21 Int16 22
   TessellationPointSize 23 GeometryPointSize 24 ImageGatherExtended 25 StorageImageMultisample 27
   UniformBufferArrayDynamicIndexing 28 SampledImageArrayDynamicIndexing 29
   StorageBufferArrayDynamicIndexing 30 StorageImageArrayDynamicIndexing 31 ClipDistance 32
   CullDistance 33 ImageCubeArray 34 SampleRateShading 35 ImageRect 36 SampledRect 37 GenericPointer 38
   Int8 39 InputAttachment 40 SparseResidency 41 MinLod 42 Sampled1D 43 Image1D 44 SampledCubeArray 45
   SampledBuffer 46 ImageBuffer 47 ImageMSArray 48 StorageImageExtendedFormats 49 ImageQuery 50
   DerivativeControl 51 InterpolationFunction 52 TransformFeedback 53 GeometryStreams 54
   StorageImageReadWithoutFormat 55 StorageImageWriteWithoutFormat 56 MultiViewport 57
   SubgroupDispatch 58 NamedBarrier 59 PipeStorage 60 GroupNonUniform 61 VulkanMemoryModel 5345""",
 "StorageClass": """UniformConstant 0 Input 1 Uniform 2 Output 3 Workgroup 4 CrossWorkgroup 5 Private 6
   Function 7 Generic 8 PushConstant 9 AtomicCounter 10 Image 11 StorageBuffer 12
   PhysicalStorageBuffer 5349""",
 "Decoration": """RelaxedPrecision 0 SpecId 1 Block 2 BufferBlock 3 RowMajor 4 ColMajor 5 ArrayStride 6
   MatrixStride 7 GLSLShared 8 GLSLPacked 9 CPacked 10 BuiltIn 11 NoPerspective 13 Flat 14 Patch 15
   Centroid 16 Sample 17 Invariant 18 Restrict 19 Aliased 20 Volatile 21 Constant 22 Coherent 23
   NonWritable 24 NonReadable 25 Uniform 26 UniformId 27 SaturatedConversion 28 Stream 29 Location 30
   Component 31 Index 32 Binding 33 DescriptorSet 34 Offset 35 XfbBuffer 36 XfbStride 37
   FuncParamAttr 38 FPRoundingMode 39 FPFastMathMode 40 LinkageAttributes 41 NoContraction 42
   InputAttachmentIndex 43 Alignment 44 MaxByteOffset 45 AlignmentId 46 MaxByteOffsetId 47""",
 "BuiltIn": """Position 0 PointSize 1 ClipDistance 3 CullDistance 4 VertexId 5 InstanceId 6 PrimitiveId 7
   InvocationId 8 Layer 9 ViewportIndex 10 TessLevelOuter 11 TessLevelInner 12 TessCoord 13
   PatchVertices 14 FragCoord 15 PointCoord 16 FrontFacing 17 SampleId 18 SamplePosition 19
   SampleMask 20 FragDepth 22 HelperInvocation 23 NumWorkgroups 24 WorkgroupSize 25 WorkgroupId 26
   LocalInvocationId 27 GlobalInvocationId 28 LocalInvocationIndex 29 WorkDim 30 GlobalSize 31
   EnqueuedWorkgroupSize 32 GlobalOffset 33 GlobalLinearId 34 SubgroupSize 36 SubgroupMaxSize 37
   NumSubgroups 38 NumEnqueuedSubgroups 39 SubgroupId 40 SubgroupLocalInvocationId 41 VertexIndex 42
   InstanceIndex 43""",
 "ExecutionModel": """Vertex 0 TessellationControl 1 TessellationEvaluation 2 Geometry 3 Fragment 4
   GLCompute 5 Kernel 6""",
 "ExecutionMode": """Invocations 0 SpacingEqual 1 SpacingFractionalEven 2 SpacingFractionalOdd 3
   VertexOrderCw 4 VertexOrderCcw 5 PixelCenterInteger 6 OriginUpperLeft 7 OriginLowerLeft 8
   EarlyFragmentTests 9 PointMode 10 Xfb 11 DepthReplacing 12 DepthGreater 14 DepthLess 15
   DepthUnchanged 16 LocalSize 17 LocalSizeHint 18 InputPoints 19 InputLines 20 InputLinesAdjacency 21
   Triangles 22 InputTrianglesAdjacency 23 Quads 24 Isolines 25 OutputVertices 26 OutputPoints 27
   OutputLineStrip 28 OutputTriangleStrip 29 VecTypeHint 30 ContractionOff 31 Initializer 33
   Finalizer 34 SubgroupSize 35 SubgroupsPerWorkgroup 36 SubgroupsPerWorkgroupId 37 LocalSizeId 38
   LocalSizeHintId 39""",
 "Dim": "Dim1D 0 Dim2D 1 Dim3D 2 DimCube 3 DimRect 4 DimBuffer 5 DimSubpassData 6",
 "AddressingModel": "Logical 0 Physical32 1 Physical64 2 PhysicalStorageBuffer64 5348",
 "MemoryModel": "Simple 0 GLSL450 1 OpenCL 2 Vulkan 3",
 "SourceLanguage": "Unknown 0 ESSL 1 GLSL 2 OpenCL_C 3 OpenCL_CPP 4 HLSL 5",
 "Scope": "CrossDevice 0 Device 1 Workgroup 2 Subgroup 3 Invocation 4 QueueFamily 5",
 "GroupOperation": "Reduce 0 InclusiveScan 1 ExclusiveScan 2 ClusteredReduce 3",
 "SamplerAddressingMode": "None 0 ClampToEdge 1 Clamp 2 Repeat 3 RepeatMirrored 4",
 "SamplerFilterMode": "Nearest 0 Linear 1",
 "FPRoundingMode": "RTE 0 RTZ 1 RTP 2 RTN 3",
 "LinkageType": "Export 0 Import 1",
 "AccessQualifier": "ReadOnly 0 WriteOnly 1 ReadWrite 2",
 "FunctionParameterAttribute": "Zext 0 Sext 1 ByVal 2 Sret 3 NoAlias 4 NoCapture 5 NoWrite 6 NoReadWrite 7",
 "ImageFormat": """Unknown 0 Rgba32f 1 Rgba16f 2 R32f 3 Rgba8 4 Rgba8Snorm 5 Rg32f 6 Rg16f 7 R11fG11fB10f 8
   R16f 9 Rgba16 10 Rgb10A2 11 Rg16 12 Rg8 13 R16 14 R8 15 Rgba16Snorm 16 Rg16Snorm 17 Rg8Snorm 18
   R16Snorm 19 R8Snorm 20 Rgba32i 21 Rgba16i 22 Rgba8i 23 R32i 24 Rg32i 25 Rg16i 26 Rg8i 27 R16i 28
   R8i 29 Rgba32ui 30 Rgba16ui 31 Rgba8ui 32 R32ui 33 Rgb10a2ui 34 Rg32ui 35 Rg16ui 36 Rg8ui 37
   R16ui 38 R8ui 39""",
}

# mask bit values by specification name
MASK_BITS = {
 "ImageOperands": """Bias 1 Lod 2 Grad 4 ConstOffset 8 Offset 16 ConstOffsets 32 Sample 64 MinLod 128
   MakeTexelAvailable 256 MakeTexelVisible 512 NonPrivateTexel 1024 VolatileTexel 2048 SignExtend 4096
   ZeroExtend 8192""",
 "FPFastMathMode": "NotNaN 1 NotInf 2 NSZ 4 AllowRecip 8 Fast 16",
 "SelectionControl": "Flatten 1 DontFlatten 2",
 "LoopControl": """Unroll 1 DontUnroll 2 DependencyInfinite 4 DependencyLength 8 MinIterations 16
   MaxIterations 32 IterationMultiple 64 PeelCount 128 PartialCount 256""",
 "FunctionControl": "Inline 1 DontInline 2 Pure 4 Const 8",
 "MemorySemantics": """Acquire 2 Release 4 AcquireRelease 8 SequentiallyConsistent 16 UniformMemory 64
   SubgroupMemory 128 WorkgroupMemory 256 CrossWorkgroupMemory 512 AtomicCounterMemory 1024
   ImageMemory 2048 OutputMemory 4096 MakeAvailable 8192 MakeVisible 16384 Volatile 32768""",
 "MemoryAccess": """Volatile 1 Aligned 2 Nontemporal 4 MakePointerAvailable 8 MakePointerVisible 16
   NonPrivatePointer 32""",
 "KernelProfilingInfo": "CmdExecTime 1",
 "RayFlags": """OpaqueKHR 1 NoOpaqueKHR 2 TerminateOnFirstHitKHR 4 SkipClosestHitShaderKHR 8
   CullBackFacingTrianglesKHR 16 CullFrontFacingTrianglesKHR 32 CullOpaqueKHR 64 CullNoOpaqueKHR 128
   SkipTrianglesKHR 256 SkipAABBsKHR 512""",
 "FragmentShadingRate": "Vertical2Pixels 1 Vertical4Pixels 2 Horizontal2Pixels 4 Horizontal4Pixels 8",
 "CooperativeMatrixOperands": """MatrixASignedComponentsKHR 1 MatrixBSignedComponentsKHR 2
   MatrixCSignedComponentsKHR 4 MatrixResultSignedComponentsKHR 8 SaturatingAccumulationKHR 16""",
 "CooperativeMatrixReduce": "Row 1 Column 2 2x2 4",
 "TensorAddressingOperands": "TensorView 1 DecodeFunc 2",
 "RawAccessChainOperands": "RobustnessPerComponentNV 1 RobustnessPerElementNV 2",
}

# parameters of enumerants / bits
PARAMS = {
 ("Decoration","SpecId"): "LiteralInteger", ("Decoration","ArrayStride"): "LiteralInteger",
 ("Decoration","MatrixStride"): "LiteralInteger", ("Decoration","BuiltIn"): "BuiltIn",
 ("Decoration","UniformId"): "IdScope", ("Decoration","Stream"): "LiteralInteger",
 ("Decoration","Location"): "LiteralInteger", ("Decoration","Component"): "LiteralInteger",
 ("Decoration","Index"): "LiteralInteger", ("Decoration","Binding"): "LiteralInteger",
 ("Decoration","DescriptorSet"): "LiteralInteger", ("Decoration","Offset"): "LiteralInteger",
 ("Decoration","XfbBuffer"): "LiteralInteger", ("Decoration","XfbStride"): "LiteralInteger",
 ("Decoration","FuncParamAttr"): "FunctionParameterAttribute",
 ("Decoration","FPRoundingMode"): "FPRoundingMode", ("Decoration","FPFastMathMode"): "FPFastMathMode",
 ("Decoration","LinkageAttributes"): "LiteralString LinkageType",
 ("Decoration","InputAttachmentIndex"): "LiteralInteger", ("Decoration","Alignment"): "LiteralInteger",
 ("Decoration","MaxByteOffset"): "LiteralInteger", ("Decoration","AlignmentId"): "IdRef",
 ("Decoration","MaxByteOffsetId"): "IdRef", ("Decoration","RelaxedPrecision"): "",
 ("Decoration","Block"): "", ("Decoration","NonWritable"): "", ("Decoration","CounterBuffer"): "IdRef",
 ("Decoration","UserSemantic"): "LiteralString",
 ("ExecutionMode","Invocations"): "LiteralInteger",
 ("ExecutionMode","LocalSize"): "LiteralInteger LiteralInteger LiteralInteger",
 ("ExecutionMode","LocalSizeHint"): "LiteralInteger LiteralInteger LiteralInteger",
 ("ExecutionMode","OutputVertices"): "LiteralInteger", ("ExecutionMode","VecTypeHint"): "LiteralInteger",
 ("ExecutionMode","SubgroupSize"): "LiteralInteger", ("ExecutionMode","SubgroupsPerWorkgroup"): "LiteralInteger",
 ("ExecutionMode","SubgroupsPerWorkgroupId"): "IdRef", ("ExecutionMode","LocalSizeId"): "IdRef IdRef IdRef",
 ("ExecutionMode","LocalSizeHintId"): "IdRef IdRef IdRef", ("ExecutionMode","OriginUpperLeft"): "",
 ("ExecutionMode","DenormPreserve"): "LiteralInteger", ("ExecutionMode","RoundingModeRTE"): "LiteralInteger",
 ("ImageOperands","Bias"): "IdRef", ("ImageOperands","Lod"): "IdRef", ("ImageOperands","Grad"): "IdRef IdRef",
 ("ImageOperands","ConstOffset"): "IdRef", ("ImageOperands","Offset"): "IdRef",
 ("ImageOperands","ConstOffsets"): "IdRef", ("ImageOperands","Sample"): "IdRef",
 ("ImageOperands","MinLod"): "IdRef", ("ImageOperands","MakeTexelAvailable"): "IdScope",
 ("ImageOperands","MakeTexelVisible"): "IdScope", ("ImageOperands","NonPrivateTexel"): "",
 ("ImageOperands","SignExtend"): "",
 ("MemoryAccess","Volatile"): "", ("MemoryAccess","Aligned"): "LiteralInteger",
 ("MemoryAccess","Nontemporal"): "", ("MemoryAccess","MakePointerAvailable"): "IdScope",
 ("MemoryAccess","MakePointerVisible"): "IdScope", ("MemoryAccess","NonPrivatePointer"): "",
 ("LoopControl","Unroll"): "", ("LoopControl","DependencyLength"): "LiteralInteger",
 ("LoopControl","MinIterations"): "LiteralInteger", ("LoopControl","MaxIterations"): "LiteralInteger",
 ("LoopControl","IterationMultiple"): "LiteralInteger", ("LoopControl","PeelCount"): "LiteralInteger",
 ("LoopControl","PartialCount"): "LiteralInteger",
 ("TensorAddressingOperands","TensorView"): "IdRef", ("TensorAddressingOperands","DecodeFunc"): "IdRef",
}

# operands of classic instructions: kind[?|*]
OPERANDS = {
 "Nop": "", "Undef": "IdResultType IdResult", "Source": "SourceLanguage LiteralInteger IdRef? LiteralString?",
 "Name": "IdRef LiteralString", "MemberName": "IdRef LiteralInteger LiteralString",
 "String": "IdResult LiteralString", "Line": "IdRef LiteralInteger LiteralInteger",
 "Extension": "LiteralString", "ExtInstImport": "IdResult LiteralString",
 "ExtInst": "IdResultType IdResult IdRef LiteralExtInstInteger IdRef*",
 "MemoryModel": "AddressingModel MemoryModel",
 "EntryPoint": "ExecutionModel IdRef LiteralString IdRef*", "ExecutionMode": "IdRef ExecutionMode",
 "Capability": "Capability", "TypeVoid": "IdResult", "TypeInt": "IdResult LiteralInteger LiteralInteger",
 "TypeVector": "IdResult IdRef LiteralInteger", "TypeMatrix": "IdResult IdRef LiteralInteger",
 "TypeImage": "IdResult IdRef Dim LiteralInteger LiteralInteger LiteralInteger LiteralInteger ImageFormat AccessQualifier?",
 "TypeSampler": "IdResult", "TypeSampledImage": "IdResult IdRef", "TypeArray": "IdResult IdRef IdRef",
 "TypeRuntimeArray": "IdResult IdRef", "TypeStruct": "IdResult IdRef*", "TypeOpaque": "IdResult LiteralString",
 "TypePointer": "IdResult StorageClass IdRef", "TypeFunction": "IdResult IdRef IdRef*",
 "TypePipe": "IdResult AccessQualifier", "TypeForwardPointer": "IdRef StorageClass",
 "ConstantTrue": "IdResultType IdResult", "Constant": "IdResultType IdResult LiteralContextDependentNumber",
 "ConstantComposite": "IdResultType IdResult IdRef*",
 "ConstantSampler": "IdResultType IdResult SamplerAddressingMode LiteralInteger SamplerFilterMode",
 "ConstantNull": "IdResultType IdResult", "SpecConstant": "IdResultType IdResult LiteralContextDependentNumber",
 "SpecConstantOp": "IdResultType IdResult LiteralSpecConstantOpInteger",
 "Function": "IdResultType IdResult FunctionControl IdRef", "FunctionParameter": "IdResultType IdResult",
 "FunctionEnd": "", "FunctionCall": "IdResultType IdResult IdRef IdRef*",
 "Variable": "IdResultType IdResult StorageClass IdRef?",
 "Load": "IdResultType IdResult IdRef MemoryAccess?", "Store": "IdRef IdRef MemoryAccess?",
 "CopyMemory": "IdRef IdRef MemoryAccess? MemoryAccess?",
 "CopyMemorySized": "IdRef IdRef IdRef MemoryAccess? MemoryAccess?",
 "AccessChain": "IdResultType IdResult IdRef IdRef*", "PtrAccessChain": "IdResultType IdResult IdRef IdRef IdRef*",
 "ArrayLength": "IdResultType IdResult IdRef LiteralInteger",
 "Decorate": "IdRef Decoration", "MemberDecorate": "IdRef LiteralInteger Decoration",
 "DecorationGroup": "IdResult", "GroupDecorate": "IdRef IdRef*",
 "GroupMemberDecorate": "IdRef PairIdRefLiteralInteger*",
 "VectorShuffle": "IdResultType IdResult IdRef IdRef LiteralInteger*",
 "CompositeConstruct": "IdResultType IdResult IdRef*",
 "CompositeExtract": "IdResultType IdResult IdRef LiteralInteger*",
 "CompositeInsert": "IdResultType IdResult IdRef IdRef LiteralInteger*",
 "SampledImage": "IdResultType IdResult IdRef IdRef",
 "ImageSampleImplicitLod": "IdResultType IdResult IdRef IdRef ImageOperands?",
 "ImageSampleExplicitLod": "IdResultType IdResult IdRef IdRef ImageOperands",
 "ImageSampleDrefImplicitLod": "IdResultType IdResult IdRef IdRef IdRef ImageOperands?",
 "ImageFetch": "IdResultType IdResult IdRef IdRef ImageOperands?",
 "ImageGather": "IdResultType IdResult IdRef IdRef IdRef ImageOperands?",
 "ImageWrite": "IdRef IdRef IdRef ImageOperands?",
 "IAdd": "IdResultType IdResult IdRef IdRef", "FNegate": "IdResultType IdResult IdRef",
 "Select": "IdResultType IdResult IdRef IdRef IdRef", "Bitcast": "IdResultType IdResult IdRef",
 "BitFieldInsert": "IdResultType IdResult IdRef IdRef IdRef IdRef",
 "EmitVertex": "", "EmitStreamVertex": "IdRef",
 "ControlBarrier": "IdScope IdScope IdMemorySemantics", "MemoryBarrier": "IdScope IdMemorySemantics",
 "AtomicLoad": "IdResultType IdResult IdRef IdScope IdMemorySemantics",
 "AtomicStore": "IdRef IdScope IdMemorySemantics IdRef",
 "AtomicCompareExchange": "IdResultType IdResult IdRef IdScope IdMemorySemantics IdMemorySemantics IdRef IdRef",
 "AtomicIAdd": "IdResultType IdResult IdRef IdScope IdMemorySemantics IdRef",
 "Phi": "IdResultType IdResult PairIdRefIdRef*", "LoopMerge": "IdRef IdRef LoopControl",
 "SelectionMerge": "IdRef SelectionControl", "Label": "IdResult", "Branch": "IdRef",
 "BranchConditional": "IdRef IdRef IdRef LiteralInteger*", "Switch": "IdRef IdRef PairLiteralIntegerIdRef*",
 "Kill": "", "Return": "", "ReturnValue": "IdRef", "Unreachable": "",
 "LifetimeStart": "IdRef LiteralInteger", "LifetimeStop": "IdRef LiteralInteger",
 "GroupIAdd": "IdResultType IdResult IdScope GroupOperation IdRef",
 "GroupBroadcast": "IdResultType IdResult IdScope IdRef IdRef",
 "ModuleProcessed": "LiteralString", "ExecutionModeId": "IdRef ExecutionMode", "DecorateId": "IdRef Decoration",
 "GroupNonUniformElect": "IdResultType IdResult IdScope",
 "GroupNonUniformBroadcast": "IdResultType IdResult IdScope IdRef IdRef",
 "CopyLogical": "IdResultType IdResult IdRef", "PtrDiff": "IdResultType IdResult IdRef IdRef",
 "TerminateInvocation": "", "DemoteToHelperInvocation": "", "IgnoreIntersectionKHR": "", "TerminateRayKHR": "",
 "DecorateString": "IdRef Decoration", "MemberDecorateString": "IdRef LiteralInteger Decoration",
 "TypeCooperativeMatrixKHR": "IdResult IdRef IdScope IdRef IdRef IdRef",
 "EmitMeshTasksEXT": "IdRef IdRef IdRef IdRef?",
}

GLSL = """Round 1 RoundEven 2 Trunc 3 FAbs 4 SAbs 5 FSign 6 SSign 7 Floor 8 Ceil 9 Fract 10 Radians 11
 Degrees 12 Sin 13 Cos 14 Tan 15 Asin 16 Acos 17 Atan 18 Sinh 19 Cosh 20 Tanh 21 Asinh 22 Acosh 23
 Atanh 24 Atan2 25 Pow 26 Exp 27 Log 28 Exp2 29 Log2 30 Sqrt 31 InverseSqrt 32 Determinant 33
 MatrixInverse 34 Modf 35 ModfStruct 36 FMin 37 UMin 38 SMin 39 FMax 40 UMax 41 SMax 42 FClamp 43
 UClamp 44 SClamp 45 FMix 46 IMix 47 Step 48 SmoothStep 49 Fma 50 Frexp 51 FrexpStruct 52 Ldexp 53
 PackSnorm4x8 54 PackUnorm4x8 55 PackSnorm2x16 56 PackUnorm2x16 57 PackHalf2x16 58 PackDouble2x32 59
 UnpackSnorm2x16 60 UnpackUnorm2x16 61 UnpackHalf2x16 62 UnpackSnorm4x8 63 UnpackUnorm4x8 64
 UnpackDouble2x32 65 Length 66 Distance 67 Cross 68 Normalize 69 FaceForward 70 Reflect 71 Refract 72
 FindILsb 73 FindSMsb 74 FindUMsb 75 InterpolateAtCentroid 76 InterpolateAtSample 77
 InterpolateAtOffset 78 NMin 79 NMax 80 NClamp 81"""

OPENCL = """acos 0 acosh 1 acospi 2 asin 3 asinh 4 asinpi 5 atan 6 atan2 7 atanh 8 atanpi 9 atan2pi 10
 cbrt 11 ceil 12 copysign 13 cos 14 cosh 15 cospi 16 erfc 17 erf 18 exp 19 exp2 20 exp10 21 expm1 22
 fabs 23 fdim 24 floor 25 fma 26 fmax 27 fmin 28 fmod 29 fract 30 frexp 31 hypot 32 ilogb 33 ldexp 34
 lgamma 35 lgamma_r 36 log 37 log2 38 log10 39 log1p 40 logb 41 mad 42 maxmag 43 minmag 44 modf 45
 nan 46 nextafter 47 pow 48 pown 49 powr 50 remainder 51 remquo 52 rint 53 rootn 54 round 55 rsqrt 56
 sin 57 sincos 58 sinh 59 sinpi 60 sqrt 61 tan 62 tanh 63 tanpi 64 tgamma 65 trunc 66
 printf 184 prefetch 185"""
