#!/usr/bin/env python3
"""Extracts, from the *source text* of the pinned tree, the facts that are not
reachable (or only redundantly reachable) through the public API:
  spirv/autogen_spirv.rs        enum declarations, from_u32 ranges, alias
                                constants, FromStr tables, bitflags constants
  rspirv/binary/autogen_parse_operand.rs   parser-side parameter kinds
Run once at snapshot time:  python3 extract_source.py /repo > source.json
"""
import json, re, sys

repo = sys.argv[1] if len(sys.argv) > 1 else "/repo"
src = open(f"{repo}/spirv/autogen_spirv.rs").read()

out = {"enums": {}, "masks": {}, "parse_params": {}}

# value enums
for m in re.finditer(r"pub enum (\w+) \{(.*?)\n\}", src, re.S):
    name, body = m.group(1), m.group(2)
    decl = {}
    for v in re.finditer(r"(\w+) = (0x[0-9a-fA-F]+|\d+)(?:u32)?,", body):
        decl[v.group(1)] = int(v.group(2), 0)
    out["enums"][name] = {"decl": decl, "ranges": [], "aliases": {}, "from_str": {}}

# impl blocks following each enum
for name, e in out["enums"].items():
    m = re.search(r"impl %s \{\s*pub fn from_u32\(n: u32\) -> Option<Self> \{(.*?)\n    \}\n\}" % name, src, re.S)
    if m:
        for r in re.finditer(r"(\d+)u32\.\.=(\d+)u32 =>", m.group(1)):
            e["ranges"].append([int(r.group(1)), int(r.group(2))])
        for r in re.finditer(r"^\s*(0x[0-9a-fA-F]+|\d+)(?:u32)? =>", m.group(1), re.M):
            e["ranges"].append([int(r.group(1), 0), int(r.group(1), 0)])
    # alias constants: the (second) impl block with `pub const X: Self = Self::Y;`
    for blk in re.finditer(r"impl %s \{(.*?)\n\}" % name, src, re.S):
        for a in re.finditer(r"pub const (\w+): (?:Self|%s) =\s*(?:Self|%s)::(\w+);" % (name, name), blk.group(1)):
            e["aliases"][a.group(1)] = a.group(2)
    m = re.search(r"impl core::str::FromStr for %s \{(.*?)\n\}" % name, src, re.S)
    if m:
        for a in re.finditer(r'"([^"]+)" =>\s*\{?\s*(?:Self|%s)::(\w+)' % name, m.group(1)):
            e["from_str"][a.group(1)] = a.group(2)

# bitflags
for m in re.finditer(r"pub struct (\w+) : u32 \{(.*?)\} \}", src):
    name, body = m.group(1), m.group(2)
    consts = []
    for c in re.finditer(r"const (\w+) = (\d+)u32", body):
        consts.append([c.group(1), int(c.group(2))])
    out["masks"][name] = {"consts": consts}

# parser-side parameters
psrc = open(f"{repo}/rspirv/binary/autogen_parse_operand.rs").read()

def kinds_in(text):
    ks = []
    for k in re.finditer(r"dr::Operand::(\w+)\(\s*self\.decoder\.(\w+)\(\)\?", text):
        variant, method = k.group(1), k.group(2)
        if variant == "LiteralBit32":
            ks.append("LiteralInteger/LiteralFloat")
        else:
            ks.append(variant)
    return ks

for fn in re.finditer(r"fn parse_(\w+)_arguments\(\s*&mut self,\s*\w+: spirv::(\w+),\s*\) -> Result<Vec<dr::Operand>> \{(.*?)\n    \}", psrc, re.S):
    ty, body = fn.group(2), fn.group(3)
    table = {}
    if ".contains(" in body:
        for arm in re.finditer(r"contains\(spirv::%s::(\w+)\) \{(.*?)\n        \}" % ty, body, re.S):
            table[arm.group(1)] = kinds_in(arm.group(2))
    else:
        arms = re.split(r"\n            spirv::%s::" % ty, body)
        for arm in arms[1:]:
            nm = re.match(r"(\w+) =>", arm)
            if nm:
                table[nm.group(1)] = kinds_in(arm)
    out["parse_params"][ty] = table

json.dump(out, sys.stdout, indent=1, sort_keys=True)
