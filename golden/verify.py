#!/usr/bin/env python3
"""Consistency of the golden snapshot:
 (1) api.json (public API of the pinned tree) vs source.json (source text): enum values, names,
     from_u32 ranges, FromStr tables, aliases, mask constants, parser-side parameter kinds;
 (2) api.json vs the hand-written specification anchors in spec_anchors.py.
Exit 0 iff everything agrees."""
import json, sys, os
here = os.path.dirname(os.path.abspath(__file__))
sys.path.insert(0, here)
import spec_anchors as A
api = json.load(open(os.path.join(here, "api.json")))
src = json.load(open(os.path.join(here, "source.json")))
errs = []
def err(*a):
    errs.append(" ".join(str(x) for x in a))
def pairs(text):
    t = text.split()
    return [(t[i], int(t[i+1])) for i in range(0, len(t), 2)]

nfacts = 0
# (1) API vs source
for name, e in api["enums"].items():
    s = src["enums"].get(name)
    if s is None:
        err("enum missing in source", name); continue
    apiv = {v["value"]: v["name"] for v in e["values"]}
    decl = {v: k for k, v in s["decl"].items()}
    if apiv != decl:
        err("enum values/names differ", name, set(apiv.items()) ^ set(decl.items()))
    nfacts += len(apiv)
    if s["from_str"]:
        want = dict((k, k) for k in s["decl"])
        want.update(s["aliases"])
        if want != s["from_str"]:
            err("FromStr table != declared names + aliases", name,
                set(want.items()) ^ set(s["from_str"].items()))
        nfacts += len(want)
    for a, t in s["aliases"].items():
        if t not in s["decl"]:
            err("alias target not declared", name, a, t)
for name, m in api["masks"].items():
    s = src["masks"].get(name)
    consts = [[c["name"], c["bits"]] for c in m["consts"]]
    sc = [c for c in s["consts"] if c[1] != 0]
    if consts != sc:
        err("mask constants differ", name, consts, sc)
    allb = 0
    for c in s["consts"]:
        allb |= c[1]
    if allb != m["all"]:
        err("mask all-bits differ", name)
    nfacts += len(consts)
def camel(s):
    return s
for ty, table in src["parse_params"].items():
    if ty in api["enums"]:
        byname = {v["name"]: v for v in api["enums"][ty]["values"]}
        for en, kinds in table.items():
            a = byname[en]["params"]
            ok = len(a) == len(kinds) and all(x == y or (y == "LiteralInteger/LiteralFloat" and x in ("LiteralInteger", "LiteralFloat")) for x, y in zip(a, kinds))
            if not ok:
                err("parser-side params != reflection-side params", ty, en, kinds, a)
            nfacts += 1
        for v in api["enums"][ty]["values"]:
            if v["params"] and v["name"] not in table:
                err("reflection reports params the parser does not read", ty, v["name"])
    else:
        consts = {c["name"]: c["bits"] for c in api["masks"][ty]["consts"]}
        bybit = {b["bit"]: b for b in api["masks"][ty]["bits"]}
        for cn, kinds in table.items():
            a = bybit[consts[cn]]["params"]
            ok = len(a) == len(kinds) and all(x == y or (y == "LiteralInteger/LiteralFloat" and x in ("LiteralInteger", "LiteralFloat")) for x, y in zip(a, kinds))
            if not ok:
                err("parser-side params != reflection-side params", ty, cn, kinds, a)
            nfacts += 1
        for b in api["masks"][ty]["bits"]:
            if b["params"] and not any(consts[c] == b["bit"] for c in table):
                err("reflection reports params the parser does not read", ty, b["bit"])
for ty in api["enums"]:
    if ty not in src["parse_params"]:
        for v in api["enums"][ty]["values"]:
            if v["params"]:
                err("params on a kind the parser treats as parameterless", ty, v["name"])
for ty in api["masks"]:
    if ty not in src["parse_params"]:
        for b in api["masks"][ty]["bits"]:
            if b["params"]:
                err("params on a mask the parser treats as parameterless", ty, b["bit"])

# (2) anchors
core = {i["opname"]: i for i in api["core"]}
for n, v in pairs(A.OPCODES):
    nfacts += 1
    if n not in core: err("anchor opcode missing", n)
    elif core[n]["opcode"] != v: err("anchor opcode number differs", n, v, core[n]["opcode"])
opv = {v["value"]: v["name"] for v in api["enums"]["Op"]["values"]}
for i in api["core"]:
    if opv.get(i["opcode"]) != i["opname"]:
        err("table opname != Op enum name", i["opname"], opv.get(i["opcode"]))
if len(opv) != len(api["core"]): err("Op enum size != table size")
for ty, text in A.ENUMERANTS.items():
    byname = {v["name"]: v["value"] for v in api["enums"][ty]["values"]}
    for n, v in pairs(text):
        nfacts += 1
        if byname.get(n) != v: err("anchor enumerant differs", ty, n, v, byname.get(n))
for ty, text in A.MASK_BITS.items():
    byname = {b["disasm"]: b["bit"] for b in api["masks"][ty]["bits"]}
    for n, v in pairs(text):
        nfacts += 1
        if byname.get(n) != v: err("anchor mask bit differs", ty, n, v, byname.get(n))
for (ty, n), text in A.PARAMS.items():
    nfacts += 1
    want = text.split()
    if ty in api["enums"]:
        got = {v["name"]: v["params"] for v in api["enums"][ty]["values"]}.get(n)
    else:
        got = {b["disasm"]: b["params"] for b in api["masks"][ty]["bits"]}.get(n)
    if got != want: err("anchor params differ", ty, n, want, got)
for n, text in A.OPERANDS.items():
    nfacts += 1
    want = []
    for t in text.split():
        if t.endswith("?"): want.append([t[:-1], "ZeroOrOne"])
        elif t.endswith("*"): want.append([t[:-1], "ZeroOrMore"])
        else: want.append([t, "One"])
    if n not in core: err("anchor instruction missing", n)
    elif core[n]["operands"] != want: err("anchor operands differ", n, want, core[n]["operands"])
gl = {i["opname"]: i["opcode"] for i in api["glsl"]}
for n, v in pairs(A.GLSL):
    nfacts += 1
    if gl.get(n) != v: err("anchor GLSL differs", n, v, gl.get(n))
cl = {i["opname"]: i["opcode"] for i in api["opencl"]}
for n, v in pairs(A.OPENCL):
    nfacts += 1
    if cl.get(n) != v: err("anchor OpenCL differs", n, v, cl.get(n))
glv = {v["value"]: v["name"] for v in api["enums"]["GLOp"]["values"]}
if glv != {i["opcode"]: i["opname"] for i in api["glsl"]}: err("GLOp enum != GLSL table")
clv = {v["value"]: v["name"] for v in api["enums"]["CLOp"]["values"]}
if clv != {i["opcode"]: i["opname"] for i in api["opencl"]}: err("CLOp enum != OpenCL table")

for e in errs: print("MISMATCH:", e)
print("facts checked:", nfacts, "mismatches:", len(errs))
sys.exit(1 if errs else 0)
