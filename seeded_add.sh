#!/bin/sh
# ./seeded_add.sh <property> <name> <worktree> "<what it needs to manifest>"
# Confirms a sub-agent's seeded change in its scratch worktree and stores it under seeded/<name>/.
P="$1"; NAME="$2"; WT="$3"; NEEDS="$4"
ROOT="$(cd "$(dirname "$0")" && pwd)"
D="$ROOT/seeded/$NAME"; mkdir -p "$D"
cd "$WT" || exit 2
DEMO=rspirv/tests/seeded_demo.rs
T="$(mktemp -d /tmp/seeded_add.XXXXXX)"
export CARGO_TARGET_DIR="$WT/target"
[ -f "$DEMO" ] || { echo "no demo in $WT"; exit 2; }
git diff > "$D/patch.diff"
[ -s "$D/patch.diff" ] || { echo "empty diff"; exit 2; }
cp "$DEMO" "$D/seeded_demo.rs"
# 1. existing suite passes with the change (demo moved aside)
mv "$DEMO" "$T/aside.rs"
if cargo test --workspace --offline > "$T/suite.log" 2>&1; then SUITE=pass; else SUITE=FAIL; fi
mv "$T/aside.rs" "$DEMO"
# 2. demo fails with the change
if cargo test --offline -p rspirv --test seeded_demo > "$T/with.log" 2>&1; then WITH=pass; else WITH=fail; fi
# 3. demo passes without it
git apply -R "$D/patch.diff"
if cargo test --offline -p rspirv --test seeded_demo > "$T/without.log" 2>&1; then WITHOUT=pass; else WITHOUT=fail; fi
git apply "$D/patch.diff"
echo "suite=$SUITE demo_with_change=$WITH demo_without_change=$WITHOUT"
python3 - "$P" "$NAME" "$NEEDS" "$SUITE" "$WITH" "$WITHOUT" "$D" <<'PY'
import json, sys
p, name, needs, suite, w, wo, d = sys.argv[1:8]
json.dump({
 "property": p, "name": name, "needs_to_manifest": needs,
 "origin": "written by an independent sub-agent that saw only the property text and a scratch worktree",
 "confirmed": {"existing_suite_with_change": suite, "demo_with_change": w, "demo_without_change": wo,
   "how": "in the sub-agent's scratch worktree: cargo test --workspace --offline (demo moved aside); cargo test -p rspirv --test seeded_demo with the change, then after git stash"},
 "detected_by": "see DESIGN.md appendix / target/mutant-results.txt (./selftest_mutants.sh " + name + ")"
}, open(d + "/meta.json", "w"), indent=1)
PY
[ "$SUITE" = pass ] && [ "$WITH" = fail ] && [ "$WITHOUT" = pass ]; rc=$?
[ $rc -eq 0 ] && rm -rf "$T" || echo "logs kept in $T"
exit $rc
