#!/bin/sh
# Sensitivity self-test that never touches /repo: works on a scratch worktree of /repo and a
# scratch copy of /verif (under /tmp, removed at the end), so it can run while other checks use
# /repo, and several instances can run side by side.
#   ./selftest_scratch.sh <tag> <pattern> [<pattern> ...]
# applies every mutants/*PAT*.diff and seeded/*PAT*/patch.diff to the scratch repo, runs the
# quick tier of the property named by the patch from the scratch copy, expects exit 1.
# Results: target/scratch-results-<tag>.txt (CAUGHT/MISSED lines, same format as selftest_mutants.sh).
ROOT="$(cd "$(dirname "$0")" && pwd)"
TAG="$1"; shift
[ -n "$TAG" ] || { echo "usage: $0 <tag> <pattern>..." >&2; exit 2; }
S="/tmp/st-$TAG"
R="$S/repo_$TAG"   # unique basename: git names worktrees after it
rm -rf "$S"; mkdir -p "$S" || exit 2
git -C /repo worktree add -q --detach "$R" HEAD || exit 2
mkdir -p "$S/verif"
rsync -a --exclude target --exclude 'fuzz/artifacts' --exclude 'fuzz/corpus' --exclude .git --exclude replays/found "$ROOT/" "$S/verif/"
sed -i "s#/repo/#$R/#g" "$S/verif/harness/Cargo.toml" "$S/verif/check.sh"
cp "$ROOT/harness/Cargo.lock" "$S/verif/harness/Cargo.lock" 2>/dev/null
export VERIF_REPO="$R"
mkdir -p "$ROOT/target"
res="$ROOT/target/scratch-results-$TAG.txt"; : > "$res"
caught=0; missed=0
# warm build on the unmodified scratch repo; it must pass
if ! "$S/verif/check.sh" C19 --tier quick >/dev/null 2>&1; then echo "scratch copy does not pass C19 unmodified" | tee -a "$res"; fi
for PAT in "$@"; do
  for f in "$ROOT"/mutants/*${PAT}*.diff "$ROOT"/seeded/*${PAT}*/patch.diff; do
    [ -f "$f" ] || continue
    prop="$(sed -n 's/^# property: //p' "$f" | head -1)"
    [ -n "$prop" ] || prop="$(python3 -c "import json,os; print(json.load(open(os.path.join(os.path.dirname('$f'),'meta.json')))['property'])" 2>/dev/null)"
    name="$(basename "$(dirname "$f")")/$(basename "$f")"
    if ! git -C "$R" apply "$f" 2>/dev/null; then echo "APPLY-FAILED $name" | tee -a "$res"; continue; fi
    all=""
    for p in $prop; do
      out="$("$S/verif/check.sh" "$p" --tier quick 2>&1)"; r=$?
      sig="$(echo "$out" | grep -m1 'failure in' | sed 's/.*\[\(.*\)\].*/\1/' | cut -c1-90)"
      all="$all $p=$r[$sig]"
    done
    git -C "$R" checkout -- . && git -C "$R" clean -fdq -e target
    if echo "$all" | grep -q "=1\["; then caught=$((caught+1)); echo "CAUGHT $name -$all" | tee -a "$res"; else missed=$((missed+1)); echo "MISSED $name -$all" | tee -a "$res"; fi
  done
done
echo "caught=$caught missed=$missed" | tee -a "$res"
git -C /repo worktree remove --force "$R"; git -C /repo worktree prune
rm -rf "$S"
[ $missed -eq 0 ]
